package main

// c01haz.go — reflect operations whose panics depend on the data, not on the kind (which engine K decides):
//
//   FieldByName / FieldByIndex / FieldByNameFunc  panic when the path to a promoted field crosses a nil embedded pointer
//   Call                                           panics on a nil func value
//   ==, != on two interface values                 panic when the dynamic types are equal and not comparable; the static
//                                                  Type().Comparable() says nothing about what an interface (or an
//                                                  array/struct of interfaces) holds
//
// The rule asks for the idiom that cannot panic: FieldByIndexErr; an IsNil test before Call; reflect.Value.Comparable
// (dynamic) on both operands before comparing what Interface() returned.

import (
	"go/token"
	"go/types"
	"strconv"
	"strings"

	"golang.org/x/tools/go/ssa"
)

func ruleReflectHazards(p *Prog, a *Anchors, r *Report, rule string, inScope func(*ssa.Function) bool) {
	r.Begin(rule, "data-dependent reflect panics are excluded by construction: struct fields are reached with FieldByIndexErr (never FieldByName/FieldByIndex), Call only after IsNil() was false, interface values from reflect are compared only after reflect.Value.Comparable() held for both", 2)
	reach := a.ExecReach()
	cnt := map[string]int{}
	mk := func(f *ssa.Function, what string) string {
		k := p.FuncName(f) + ":" + what
		cnt[k]++
		if cnt[k] > 1 {
			return k + "#" + strconv.Itoa(cnt[k])
		}
		return k
	}
	isReflectCall := func(v ssa.Value, method string) (*ssa.Call, bool) {
		c, ok := v.(*ssa.Call)
		if !ok || c.Common().StaticCallee() == nil {
			return nil, false
		}
		return c, p.extName(c.Common().StaticCallee()) == "(reflect.Value)."+method
	}
	for _, f := range p.inPkgFuncsSorted(reach) {
		if inScope != nil && !inScope(f) {
			continue
		}
		for _, b := range f.Blocks {
			for _, in := range b.Instrs {
				switch x := in.(type) {
				case *ssa.Call:
					if x.Common().StaticCallee() == nil {
						continue
					}
					switch p.extName(x.Common().StaticCallee()) {
					case "(reflect.Value).FieldByName", "(reflect.Value).FieldByIndex", "(reflect.Value).FieldByNameFunc":
						r.Bad(mk(f, "FieldBy*"), p.InstrPos(in), "%s panics (\"indirection through nil pointer to embedded struct\") when the field is promoted through a nil embedded pointer, e.g. {{ o.X }} with o = Outer{*Base: nil}: look the field up in the type and use FieldByIndexErr", x.Common().StaticCallee().Name())
					case "(reflect.Value).FieldByIndexErr":
						r.OK(mk(f, "FieldByIndexErr"), p.InstrPos(in), "nil embedded pointers on the path are reported as an error value")
					case "(reflect.Value).MethodByName", "(reflect.Value).Method":
						recv := x.Common().Args[0]
						g := Guarded(in, func(c ssa.Value, pol bool) bool {
							if cc, ok := isReflectCall(c, "IsNil"); ok && !pol && p.VN(cc.Common().Args[0]) == p.VN(recv) {
								return true
							}
							if bo, ok := c.(*ssa.BinOp); ok {
								if kc, isKind := isReflectCall(bo.X, "Kind"); isKind && p.VN(kc.Common().Args[0]) == p.VN(recv) {
									if k, isK := kindConst(bo.Y); isK && k == kPointer {
										return (bo.Op == token.EQL && !pol) || (bo.Op == token.NEQ && pol)
									}
								}
							}
							return false
						})
						if g {
							r.OK(mk(f, "MethodByName:receiver"), p.InstrPos(in), "no method is looked up on a nil pointer")
						} else {
							r.Bad(mk(f, "MethodByName:receiver"), p.InstrPos(in), "a method is looked up (and then called) on a value that can be a nil pointer: a value-receiver method panics (\"value method T.M called using nil *T pointer\")")
						}
					case "(reflect.Value).MapIndex":
						key := x.Common().Args[1]
						g := Guarded(in, func(c ssa.Value, pol bool) bool {
							pc, ok := c.(*ssa.Call)
							if !ok || !pol || pc.Common().StaticCallee() == nil {
								return false
							}
							cal := pc.Common().StaticCallee()
							if p.extName(cal) != "(reflect.Value).Comparable" && !isDynamicComparablePredicate(p, cal) {
								return false
							}
							return p.VN(pc.Common().Args[0]) == p.VN(key)
						})
						// a type switch / assertion of the key holder's Interface() to a basic type (case int, string:)
						basicCase := Guarded(in, func(c ssa.Value, pol bool) bool {
							ex, ok := c.(*ssa.Extract)
							if !ok || !pol || ex.Index != 1 {
								return false
							}
							ta, ok := ex.Tuple.(*ssa.TypeAssert)
							if !ok {
								return false
							}
							bt, ok := ta.AssertedType.Underlying().(*types.Basic)
							if !ok || bt.Info()&(types.IsString|types.IsNumeric|types.IsBoolean) == 0 {
								return false
							}
							// same holder: key is holder.getResolvedValue()/holder.val, operand is holder.Interface()
							ic, ok := ta.X.(*ssa.Call)
							if !ok || len(ic.Common().Args) == 0 {
								return false
							}
							holder := p.VN(ic.Common().Args[0])
							return holder != "" && strings.Contains(p.VN(key), holder)
						})
						if g || basicCase || keyFromMapKeys(p, key, x.Common().Args[0]) {
							r.OK(mk(f, "MapIndex:hashable"), p.InstrPos(in), "the key was shown comparable (hashable) on every path, or comes from the map's own keys")
						} else if _, isMI := key.(*ssa.Call); isMI && isValueOfStringConst(p, key) {
							r.OK(mk(f, "MapIndex:hashable"), p.InstrPos(in), "the key is reflect.ValueOf of a string")
						} else {
							r.Bad(mk(f, "MapIndex:hashable"), p.InstrPos(in), "MapIndex with a key that was not shown comparable: for a map[any]T (or a struct key with an interface field) a slice/map/func key panics with \"hash of unhashable type\"")
						}
					case "(reflect.Value).Call", "(reflect.Value).CallSlice":
						fn := x.Common().Args[0]
						g := Guarded(in, func(c ssa.Value, pol bool) bool {
							cc, ok := isReflectCall(c, "IsNil")
							return ok && !pol && p.VN(cc.Common().Args[0]) == p.VN(fn)
						})
						if g {
							r.OK(mk(f, "Call:non-nil"), p.InstrPos(in), "the function value was tested with IsNil() on every path")
						} else {
							r.Bad(mk(f, "Call:non-nil"), p.InstrPos(in), "reflect Call of a function value that was not tested with IsNil(): a nil func in the context (or a nil func field) panics with \"call of nil function\"")
						}
					}
				case *ssa.BinOp:
					if x.Op != token.EQL && x.Op != token.NEQ {
						continue
					}
					if !types.IsInterface(x.X.Type()) || !types.IsInterface(x.Y.Type()) {
						continue
					}
					if isNilConst(x.X) || isNilConst(x.Y) {
						continue
					}
					// only comparisons of values taken out of reflect (or out of a *Value's Interface())
					src := func(v ssa.Value) ssa.Value {
						c, ok := v.(*ssa.Call)
						if !ok || c.Common().StaticCallee() == nil {
							return nil
						}
						switch p.extName(c.Common().StaticCallee()) {
						case "(reflect.Value).Interface":
							return c.Common().Args[0]
						}
						if c.Common().StaticCallee().Name() == "Interface" && p.InPkg(c.Common().StaticCallee()) {
							return c.Common().Args[0]
						}
						return nil
					}
					sx, sy := src(x.X), src(x.Y)
					if sx == nil && sy == nil {
						continue
					}
					okBoth := true
					for _, s := range []ssa.Value{sx, sy} {
						if s == nil {
							okBoth = false
							continue
						}
						sv := s
						g := Guarded(in, func(c ssa.Value, pol bool) bool {
							cc, ok := isReflectCall(c, "Comparable")
							if !ok {
								// the package's own dynamic-comparability predicate (go.mod predates reflect.Value.Comparable)
								if pc, isCall := c.(*ssa.Call); isCall && pc.Common().StaticCallee() != nil && isDynamicComparablePredicate(p, pc.Common().StaticCallee()) {
									cc, ok = pc, true
								}
							}
							if !ok || !pol {
								return false
							}
							recv := cc.Common().Args[0]
							if p.VN(recv) == p.VN(sv) {
								return true
							}
							// Interface() of a *Value whose .val was tested
							if base, n, fld := fieldLoadBase(recv); n != nil && n.Obj().Name() == "Value" && fld == "val" && p.VN(base) == p.VN(sv) {
								return true
							}
							return false
						})
						if !g {
							okBoth = false
						}
					}
					if okBoth {
						r.OK(mk(f, "iface=="), p.InstrPos(in), "both operands passed reflect.Value.Comparable() (dynamic check) on every path")
					} else {
						r.Bad(mk(f, "iface=="), p.InstrPos(in), "two values taken out of reflect are compared with %s without reflect.Value.Comparable() having held for both: equal dynamic types that are not comparable (a slice inside an `any`, an array or struct holding one) panic with \"comparing uncomparable type\"; Type().Comparable() is only the static answer", x.Op)
					}
				}
			}
		}
	}
}

// isDynamicComparablePredicate: f(reflect.Value) bool walks the value: it answers false for func/map/slice kinds and
// recurses into what an interface holds (Elem), so a true answer means == on Interface() cannot panic. Shape check:
// one reflect.Value parameter, bool result, compares Kind() with Func, Map and Slice, calls Elem and calls itself.
func isDynamicComparablePredicate(p *Prog, f *ssa.Function) bool {
	if f == nil || !p.InPkg(f) || f.Blocks == nil || len(f.Params) != 1 || f.Signature.Results().Len() != 1 {
		return false
	}
	if b, ok := f.Signature.Results().At(0).Type().Underlying().(*types.Basic); !ok || b.Kind() != types.Bool {
		return false
	}
	kinds := map[int]bool{}
	elem, self := false, false
	for _, b := range f.Blocks {
		for _, in := range b.Instrs {
			switch x := in.(type) {
			case *ssa.BinOp:
				if k, ok := kindConst(x.Y); ok {
					kinds[k] = true
				}
			case *ssa.Call:
				if cal := x.Common().StaticCallee(); cal != nil {
					if p.extName(cal) == "(reflect.Value).Elem" {
						elem = true
					}
					if cal == f {
						self = true
					}
				}
			}
		}
	}
	return kinds[kFunc] && kinds[kMap] && kinds[kSlice] && elem && self
}

// isValueOfStringConst: v is reflect.ValueOf(<value of static type string>).
func isValueOfStringConst(p *Prog, v ssa.Value) bool {
	c, ok := v.(*ssa.Call)
	if !ok || c.Common().StaticCallee() == nil || p.extName(c.Common().StaticCallee()) != "reflect.ValueOf" {
		return false
	}
	mi, ok := c.Common().Args[0].(*ssa.MakeInterface)
	if !ok {
		return false
	}
	b, ok := mi.X.Type().Underlying().(*types.Basic)
	return ok && b.Info()&(types.IsString|types.IsNumeric|types.IsBoolean) != 0
}
