package main

// c01haz.go — reflect operations whose panics depend on the data, not on the kind (which engine K decides):
//
//   FieldByName / FieldByIndex / FieldByNameFunc  panic when the path to a promoted field crosses a nil embedded pointer
//   Call                                           panics on a nil func value
//   ==, != on two interface values                 panic when the dynamic types are equal and not comparable; the static
//                                                  Type().Comparable() says nothing about what an interface (or an
//                                                  array/struct of interfaces) holds
//
// The rule asks for the idiom that cannot panic: FieldByIndexErr; an IsNil test before Call; reflect.Value.Comparable
// (dynamic) on both operands before comparing what Interface() returned.

import (
	"fmt"
	"go/token"
	"go/types"
	"os"
	"strconv"
	"strings"

	"golang.org/x/tools/go/ssa"
)

func ruleReflectHazards(p *Prog, a *Anchors, r *Report, rule string, inScope func(*ssa.Function) bool) {
	r.Begin(rule, "data-dependent reflect panics are excluded by construction: struct fields are reached with FieldByIndexErr (never FieldByName/FieldByIndex), Call only after IsNil() was false, interface values from reflect are compared only after reflect.Value.Comparable() held for both", 2)
	reach := a.ExecReach()
	cnt := map[string]int{}
	mk := func(f *ssa.Function, what string) string {
		k := p.FuncName(f) + ":" + what
		cnt[k]++
		if cnt[k] > 1 {
			return k + "#" + strconv.Itoa(cnt[k])
		}
		return k
	}
	isReflectCall := func(v ssa.Value, method string) (*ssa.Call, bool) {
		c, ok := v.(*ssa.Call)
		if !ok || c.Common().StaticCallee() == nil {
			return nil, false
		}
		return c, p.extName(c.Common().StaticCallee()) == "(reflect.Value)."+method
	}
	for _, f := range p.inPkgFuncsSorted(reach) {
		if inScope != nil && !inScope(f) {
			continue
		}
		for _, b := range f.Blocks {
			for _, in := range b.Instrs {
				switch x := in.(type) {
				case *ssa.Call:
					if x.Common().StaticCallee() == nil {
						continue
					}
					switch p.extName(x.Common().StaticCallee()) {
					case "(reflect.Value).FieldByName", "(reflect.Value).FieldByIndex", "(reflect.Value).FieldByNameFunc":
						r.Bad(mk(f, "FieldBy*"), p.InstrPos(in), "%s panics (\"indirection through nil pointer to embedded struct\") when the field is promoted through a nil embedded pointer, e.g. {{ o.X }} with o = Outer{*Base: nil}: look the field up in the type and use FieldByIndexErr", x.Common().StaticCallee().Name())
					case "(reflect.Value).FieldByIndexErr":
						r.OK(mk(f, "FieldByIndexErr"), p.InstrPos(in), "nil embedded pointers on the path are reported as an error value")
					case "(reflect.Value).MethodByName", "(reflect.Value).Method":
						recv := x.Common().Args[0]
						g := Guarded(in, func(c ssa.Value, pol bool) bool {
							if cc, ok := isReflectCall(c, "IsNil"); ok && !pol && p.VN(cc.Common().Args[0]) == p.VN(recv) {
								return true
							}
							if bo, ok := c.(*ssa.BinOp); ok {
								if kc, isKind := isReflectCall(bo.X, "Kind"); isKind && p.VN(kc.Common().Args[0]) == p.VN(recv) {
									if k, isK := kindConst(bo.Y); isK && k == kPointer {
										return (bo.Op == token.EQL && !pol) || (bo.Op == token.NEQ && pol)
									}
								}
							}
							return false
						})
						if g {
							r.OK(mk(f, "MethodByName:receiver"), p.InstrPos(in), "no method is looked up on a nil pointer")
						} else {
							r.Bad(mk(f, "MethodByName:receiver"), p.InstrPos(in), "a method is looked up (and then called) on a value that can be a nil pointer: a value-receiver method panics (\"value method T.M called using nil *T pointer\")")
						}
					case "(reflect.Value).MapIndex":
						key := x.Common().Args[1]
						g := Guarded(in, func(c ssa.Value, pol bool) bool {
							pc, ok := c.(*ssa.Call)
							if !ok || !pol || pc.Common().StaticCallee() == nil {
								return false
							}
							cal := pc.Common().StaticCallee()
							if p.extName(cal) != "(reflect.Value).Comparable" && !isDynamicComparablePredicate(p, cal) {
								return false
							}
							return p.VN(pc.Common().Args[0]) == p.VN(key)
						})
						// a type switch / assertion of the key holder's Interface() to a basic type (case int, string:)
						basicCase := Guarded(in, func(c ssa.Value, pol bool) bool {
							ex, ok := c.(*ssa.Extract)
							if !ok || !pol || ex.Index != 1 {
								return false
							}
							ta, ok := ex.Tuple.(*ssa.TypeAssert)
							if !ok {
								return false
							}
							bt, ok := ta.AssertedType.Underlying().(*types.Basic)
							if !ok || bt.Info()&(types.IsString|types.IsNumeric|types.IsBoolean) == 0 {
								return false
							}
							// same holder: key is holder.getResolvedValue()/holder.val, operand is holder.Interface()
							ic, ok := ta.X.(*ssa.Call)
							if !ok || len(ic.Common().Args) == 0 {
								return false
							}
							holder := p.VN(ic.Common().Args[0])
							return holder != "" && strings.Contains(p.VN(key), holder)
						})
						if g || basicCase || keyFromMapKeys(p, key, x.Common().Args[0]) {
							r.OK(mk(f, "MapIndex:hashable"), p.InstrPos(in), "the key was shown comparable (hashable) on every path, or comes from the map's own keys")
						} else if _, isMI := key.(*ssa.Call); isMI && isValueOfStringConst(p, key) {
							r.OK(mk(f, "MapIndex:hashable"), p.InstrPos(in), "the key is reflect.ValueOf of a string")
						} else {
							r.Bad(mk(f, "MapIndex:hashable"), p.InstrPos(in), "MapIndex with a key that was not shown comparable: for a map[any]T (or a struct key with an interface field) a slice/map/func key panics with \"hash of unhashable type\"")
						}
					case "(reflect.Value).Call", "(reflect.Value).CallSlice":
						fn := x.Common().Args[0]
						nonNilAt := func(site ssa.Instruction, fv ssa.Value) bool {
							return Guarded(site, func(c ssa.Value, pol bool) bool {
								cc, ok := isReflectCall(c, "IsNil")
								return ok && !pol && p.VN(cc.Common().Args[0]) == p.VN(fv)
							})
						}
						g := nonNilAt(in, fn)
						if !g && reflectCallWrapper(p, f) && recoversIntoError(f) && strings.HasPrefix(rule, "R-C01") {
							g = true // "call of nil function" is recovered and returned as an error (no panic); for name
							// resolution (C08) a nil func is the empty value, which needs the test at the call site
						}
						if !g && reflectCallWrapper(p, f) {
							// a helper through which the Call is made: the function value is the caller's, tested there
							// (followed upwards through nested helpers)
							var okAtCallers func(h *ssa.Function, d int) bool
							okAtCallers = func(h *ssa.Function, d int) bool {
								fi, _, isW := reflectCallWrapperIdx(p, h, 0)
								node := p.CG.Nodes[h]
								if !isW || d > 3 || node == nil || len(node.In) == 0 {
									return false
								}
								for _, edge := range node.In {
									site, isInstr := edge.Site.(ssa.Instruction)
									args := edge.Site.Common().Args
									if !isInstr || fi >= len(args) {
										return false
									}
									if nonNilAt(site, args[fi]) {
										continue
									}
									if !okAtCallers(site.Parent(), d+1) {
										return false
									}
								}
								return true
							}
							g = okAtCallers(f, 0)
						}
						if recoversIntoError(f) {
							r.OK(mk(f, "Call:recovered"), p.InstrPos(in), "the call is made under a deferred recover that returns a panic of the called code as an error")
						} else {
							r.Bad(mk(f, "Call:recovered"), p.InstrPos(in), "code handed in by the caller (a context function, a method of a context value) is called without a recover: when it panics — or when Go has to dereference a nil embedded pointer to reach a promoted method — the process dies instead of the execution returning an error")
						}
						if g {
							r.OK(mk(f, "Call:non-nil"), p.InstrPos(in), "the function value was tested with IsNil() on every path")
						} else {
							r.Bad(mk(f, "Call:non-nil"), p.InstrPos(in), "reflect Call of a function value that was not tested with IsNil(): a nil func in the context (or a nil func field) panics with \"call of nil function\"")
						}
					}
				case *ssa.BinOp:
					if x.Op != token.EQL && x.Op != token.NEQ {
						continue
					}
					if !types.IsInterface(x.X.Type()) || !types.IsInterface(x.Y.Type()) {
						continue
					}
					if isNilConst(x.X) || isNilConst(x.Y) {
						continue
					}
					// only comparisons of values taken out of reflect (or out of a *Value's Interface())
					src := func(v ssa.Value) ssa.Value {
						c, ok := v.(*ssa.Call)
						if !ok || c.Common().StaticCallee() == nil {
							return nil
						}
						switch p.extName(c.Common().StaticCallee()) {
						case "(reflect.Value).Interface":
							return c.Common().Args[0]
						}
						if c.Common().StaticCallee().Name() == "Interface" && p.InPkg(c.Common().StaticCallee()) {
							return c.Common().Args[0]
						}
						return nil
					}
					sx, sy := src(x.X), src(x.Y)
					if sx == nil && sy == nil {
						continue
					}
					okBoth := true
					for _, s := range []ssa.Value{sx, sy} {
						if s == nil {
							okBoth = false
							continue
						}
						sv := s
						g := Guarded(in, func(c ssa.Value, pol bool) bool {
							cc, ok := isReflectCall(c, "Comparable")
							if !ok {
								// the package's own dynamic-comparability predicate (go.mod predates reflect.Value.Comparable)
								if pc, isCall := c.(*ssa.Call); isCall && pc.Common().StaticCallee() != nil && isDynamicComparablePredicate(p, pc.Common().StaticCallee()) {
									cc, ok = pc, true
								}
							}
							if !ok || !pol {
								return false
							}
							recv := cc.Common().Args[0]
							if p.VN(recv) == p.VN(sv) {
								return true
							}
							// Interface() of a *Value whose .val was tested
							if base, n, fld := fieldLoadBase(recv); n != nil && n.Obj().Name() == "Value" && fld == "val" && p.VN(base) == p.VN(sv) {
								return true
							}
							return false
						})
						if !g {
							okBoth = false
						}
					}
					if okBoth {
						r.OK(mk(f, "iface=="), p.InstrPos(in), "both operands passed reflect.Value.Comparable() (dynamic check) on every path")
					} else {
						r.Bad(mk(f, "iface=="), p.InstrPos(in), "two values taken out of reflect are compared with %s without reflect.Value.Comparable() having held for both: equal dynamic types that are not comparable (a slice inside an `any`, an array or struct holding one) panic with \"comparing uncomparable type\"; Type().Comparable() is only the static answer", x.Op)
					}
				}
			}
		}
	}
}

// isDynamicComparablePredicate: f(reflect.Value) bool walks the value: it answers false for func/map/slice kinds and
// recurses into what an interface holds (Elem), so a true answer means == on Interface() cannot panic. Shape check:
// one reflect.Value parameter, bool result, compares Kind() with Func, Map and Slice, calls Elem and calls itself.
func isDynamicComparablePredicate(p *Prog, f *ssa.Function) bool {
	if f == nil || !p.InPkg(f) || f.Blocks == nil || len(f.Params) != 1 || f.Signature.Results().Len() != 1 {
		return false
	}
	if b, ok := f.Signature.Results().At(0).Type().Underlying().(*types.Basic); !ok || b.Kind() != types.Bool {
		return false
	}
	kinds := map[int]bool{}
	elem, self := false, false
	for _, b := range f.Blocks {
		for _, in := range b.Instrs {
			switch x := in.(type) {
			case *ssa.BinOp:
				if k, ok := kindConst(x.Y); ok {
					kinds[k] = true
				}
			case *ssa.Call:
				if cal := x.Common().StaticCallee(); cal != nil {
					if p.extName(cal) == "(reflect.Value).Elem" {
						elem = true
					}
					if cal == f {
						self = true
					}
				}
			}
		}
	}
	return kinds[kFunc] && kinds[kMap] && kinds[kSlice] && elem && self
}

// isValueOfStringConst: v is reflect.ValueOf(<value of static type string>).
func isValueOfStringConst(p *Prog, v ssa.Value) bool {
	c, ok := v.(*ssa.Call)
	if !ok || c.Common().StaticCallee() == nil || p.extName(c.Common().StaticCallee()) != "reflect.ValueOf" {
		return false
	}
	mi, ok := c.Common().Args[0].(*ssa.MakeInterface)
	if !ok {
		return false
	}
	b, ok := mi.X.Type().Underlying().(*types.Basic)
	return ok && b.Info()&(types.IsString|types.IsNumeric|types.IsBoolean) != 0
}

// ruleSelfPrintingValues: a type whose String() prints a *Value it holds is itself printed through Value.String()
// (it is a Stringer inside a Value). If such an object can hold a Value that holds the object itself, printing never
// returns and the process dies of stack exhaustion. The field may therefore only be given a Value that was shown not to
// hold an object of that type, or the content of another such object (which by the same rule holds none).
func ruleSelfPrintingValues(p *Prog, a *Anchors, r *Report, rule string) {
	r.Begin(rule, "an object whose String() prints a *Value it holds is never given a Value that holds such an object (itself): {% cycle x as x %}{% cycle x %} cannot build a value that prints forever", 1)
	valPtr := types.NewPointer(a.Value)
	n := 0
	for _, f := range p.Funcs {
		if !p.InPkg(f) || f.Name() != "String" || f.Signature.Recv() == nil || f.Blocks == nil {
			continue
		}
		T := structOf(f.Signature.Recv().Type())
		if T == nil || T == a.Value {
			continue
		}
		// String() calls (*Value).String on a field of the receiver
		field := ""
		for _, b := range f.Blocks {
			for _, in := range b.Instrs {
				c, ok := in.(*ssa.Call)
				if !ok || c.Common().StaticCallee() == nil || c.Common().StaticCallee().Name() != "String" || len(c.Common().Args) != 1 {
					continue
				}
				if !types.Identical(c.Common().Args[0].Type(), valPtr) {
					continue
				}
				if _, tn, fl := fieldLoadBase(c.Common().Args[0]); tn == T {
					field = fl
				}
			}
		}
		if field == "" {
			continue
		}
		tname := T.Obj().Name()
		p.EachInstr(func(g *ssa.Function, in ssa.Instruction) {
			st, ok := in.(*ssa.Store)
			if !ok || !isFieldAddrOf(st.Addr, tname, field) {
				return
			}
			n++
			key := p.FuncName(g) + ":" + tname + "." + field + "="
			okv := func(v ssa.Value, pred, succ *ssa.BasicBlock) bool {
				// the content of another object of the type
				if _, tn, fl := fieldLoadBase(v); tn == T && fl == field {
					return true
				}
				// shown (on every path to the store / to this phi edge) not to hold an object of the type: the false
				// edge of a type assertion of v.Interface() to *T
				ep := func(c ssa.Value, pol bool) bool {
					ex, ok := c.(*ssa.Extract)
					if !ok || ex.Index != 1 || pol {
						return false
					}
					ta, ok := ex.Tuple.(*ssa.TypeAssert)
					if !ok || structOf(ta.AssertedType) != T {
						return false
					}
					ic, ok := ta.X.(*ssa.Call)
					return ok && len(ic.Common().Args) == 1 && (ic.Common().Args[0] == v || p.VN(ic.Common().Args[0]) == p.VN(v))
				}
				if pred != nil {
					return edgeGuardedBy(pred, succ, ep)
				}
				return Guarded(in, ep)
			}
			all := true
			if phi, isPhi := st.Val.(*ssa.Phi); isPhi {
				for i, v := range phi.Edges {
					if !okv(v, phi.Block().Preds[i], phi.Block()) {
						all = false
					}
				}
			} else if !okv(st.Val, nil, nil) {
				all = false
			}
			if all {
				r.OK(key, p.InstrPos(in), "the stored Value was shown not to hold a %s (or is the content of one)", tname)
			} else {
				r.Bad(key, p.InstrPos(in), "%s.%s is given %s without a test that it does not hold a %s itself: the object can end up holding itself, and %s.String() ↔ Value.String() then recurse until the stack is exhausted (an unrecoverable crash of the process)", tname, field, p.VN(st.Val), tname, tname)
			}
		})
	}
	if n == 0 {
		r.Trivial("none", "-", "no type prints a *Value it holds")
	}
}

// ruleNestingBound: templates load other templates while they are compiled (include, extends, import, ssi) and execute
// other templates while they are executed (include, ssi). Both recursions run on the Go stack; a cycle — a template that
// includes itself, two that extend each other — must end in an error, not in stack exhaustion (which no recover catches).
// Structure that guarantees it: the function that loads/executes for a tag takes a nesting depth, refuses beyond a
// constant before doing anything, and every tag passes the depth it runs at plus one.
func ruleNestingBound(p *Prog, a *Anchors, r *Report, rule string) {
	r.Begin(rule, "nested loading and nested execution of templates carry a depth that every tag increases and a constant bounds: self-including or mutually extending templates end in an error instead of exhausting the stack", 4)
	isDepthLoad := func(v ssa.Value) bool {
		_, n, fld := fieldLoadBase(v)
		return n != nil && (n == a.Template || n == a.ExecCtx) && fld != "" && isIntType(v.Type())
	}
	plusOne := func(v ssa.Value) bool {
		bo, ok := v.(*ssa.BinOp)
		if !ok || bo.Op != token.ADD {
			return false
		}
		k, isC := constInt(bo.Y)
		return isC && k >= 1 && isDepthLoad(bo.X)
	}
	// targets: what tag code calls to load or to execute another template
	targets := map[*ssa.Function]string{}
	for f := range a.FileLoaders {
		targets[f] = "load"
	}
	for _, f := range p.Methods(a.Template) {
		for i := 0; i < f.Signature.Params().Len(); i++ {
			if types.Identical(f.Signature.Params().At(i).Type(), a.Context) {
				targets[f] = "execute"
			}
		}
	}
	isTagCode := func(f *ssa.Function) bool {
		top := topLevel(f)
		if recv := top.Signature.Recv(); recv != nil {
			if n := structOf(recv.Type()); n != nil {
				if n == a.Template || n == a.TemplateSet {
					return false
				}
				for _, nt := range a.NodeTypes {
					if nt == n {
						return true
					}
				}
				return false
			}
		}
		for _, tp := range a.TagParsers {
			if tp == top {
				return true
			}
		}
		return false
	}
	nCalls := 0
	p.EachInstr(func(f *ssa.Function, in ssa.Instruction) {
		ci, ok := in.(ssa.CallInstruction)
		if !ok || ci.Common().StaticCallee() == nil {
			return
		}
		kind, isTarget := targets[ci.Common().StaticCallee()]
		if !isTarget || !isTagCode(f) {
			return
		}
		nCalls++
		key := p.FuncName(f) + ":" + kind + " " + ci.Common().StaticCallee().Name()
		// a depth argument of the form <template|context>.depth + 1
		hasDepth := false
		for _, arg := range ci.Common().Args {
			if plusOne(arg) {
				hasDepth = true
			}
		}
		if hasDepth {
			r.OK(key, p.InstrPos(in), "passes its own nesting depth + 1")
		} else if g := countsItself(p, ci.Common().StaticCallee(), targets, 0); kind == "execute" && g != nil {
			r.OK(key, p.InstrPos(in), "%s counts the nested execution itself (a counter of the rendering stepped and compared with a constant, refusing with an error)", p.FuncName(g))
		} else if kind == "load" && topLevel(f).Signature.Recv() != nil && (topLevel(f).Name() == "Execute" || paramOfType(topLevel(f), types.NewPointer(a.ExecCtx)) != nil) {
			// a template compiled at execution time (computed include) starts a new compile; the execution depth bounds the cycle
			r.OK(key, p.InstrPos(in), "compiled at execution time: bounded by the execution depth of the call that follows")
		} else {
			if os.Getenv("PONGOCHECK_DEBUG") != "" {
				fmt.Fprintf(os.Stderr, "NEST debug: %s exec=%v compile=%v recv=%v\n", p.FuncName(topLevel(f)), a.ExecReach()[topLevel(f)], a.CompileReach()[topLevel(f)], topLevel(f).Signature.Recv() != nil)
			}
			r.Bad(key, p.InstrPos(in), "a tag %ss another template through %s without passing on a nesting depth: a template that (directly or through others) refers to itself recurses until the stack is exhausted and the process dies", kind, p.FuncName(ci.Common().StaticCallee()))
		}
	})
	if nCalls == 0 {
		r.Unk("tag-calls", "-", "no tag loads or executes another template: the rule does not see the code it was written for")
	}
	// the callee side: a depth parameter tested against a constant, the refusing edge returns an error, before the work
	for f, kind := range targets {
		var dparam *ssa.Parameter
		for _, pa := range f.Params {
			if isIntType(pa.Type()) {
				dparam = pa
			}
		}
		if dparam == nil {
			continue // the exported API: depth 0 by definition
		}
		key := p.FuncName(f) + ":bound"
		var test *ssa.If
		for _, b := range f.Blocks {
			iff, ok := b.Instrs[len(b.Instrs)-1].(*ssa.If)
			if !ok {
				continue
			}
			bo, ok := iff.Cond.(*ssa.BinOp)
			if !ok {
				continue
			}
			if _, isC := constInt(bo.Y); !isC {
				continue
			}
			x := bo.X
			if u, isU := x.(*ssa.UnOp); isU {
				if sv := localLoadValue(u); sv != nil {
					x = sv
				}
			}
			if x == ssa.Value(dparam) && (bo.Op == token.GTR || bo.Op == token.GEQ) && errorReturnsOnly(f, b.Succs[0]) {
				test = iff
			}
		}
		if test == nil {
			// passes the depth on to another target that tests it
			passes := false
			for _, b := range f.Blocks {
				for _, in := range b.Instrs {
					if ci, ok := in.(ssa.CallInstruction); ok && ci.Common().StaticCallee() != nil {
						if _, isT := targets[ci.Common().StaticCallee()]; isT {
							for _, arg := range ci.Common().Args {
								if arg == ssa.Value(dparam) {
									passes = true
								}
							}
						}
					}
				}
			}
			if passes {
				r.OK(key, p.Pos(f.Pos()), "hands its depth on to the function that tests it")
			} else {
				r.Bad(key, p.Pos(f.Pos()), "%s takes a nesting depth but never refuses: nothing bounds the recursion", p.FuncName(f))
			}
			continue
		}
		// no load / execution work before the test: the first instruction of the function's entry block chain
		if test.Block() == f.Blocks[0] || f.Blocks[0].Dominates(test.Block()) {
			r.OK(key, p.InstrPos(test), "refuses beyond a constant depth with an error, before any %s work", kind)
		} else {
			r.Bad(key, p.InstrPos(test), "the depth test does not come first")
		}
	}
}

func isIntType(T types.Type) bool {
	b, ok := T.Underlying().(*types.Basic)
	return ok && b.Info()&types.IsInteger != 0
}

// countsItself: f, or a target function it statically hands the work on to, passes a depth step before it executes:
// it steps a counter and compares it with a constant on an edge that only returns errors, and every invocation of a
// node's Execute in it stands behind that step.
func countsItself(p *Prog, f *ssa.Function, targets map[*ssa.Function]string, depth int) *ssa.Function {
	if f == nil || f.Blocks == nil || depth > 4 {
		return nil
	}
	var execs []ssa.Instruction
	for _, b := range f.Blocks {
		for _, in := range b.Instrs {
			ci, ok := in.(ssa.CallInstruction)
			if !ok {
				continue
			}
			if ci.Common().IsInvoke() && ci.Common().Method.Name() == "Execute" {
				execs = append(execs, in)
			} else if c := ci.Common().StaticCallee(); c != nil && c.Name() == "Execute" && c.Signature.Recv() != nil && p.InPkg(c) {
				execs = append(execs, in) // the document node's Execute, called on its concrete type
			}
		}
	}
	if len(execs) > 0 {
		for _, e := range execs {
			// behind a step on the nested route: the step may be taken only when a calling context was handed over
			if !behindDepthStepOr(p, e, func(c ssa.Value, pol bool) bool {
				x, eq, isNil := condIsNilTest(c)
				_, isParam := x.(*ssa.Parameter)
				return isNil && isParam && eq == pol // the `from == nil` edge: not a nested execution
			}) {
				return nil
			}
		}
		return f
	}
	for _, b := range f.Blocks {
		for _, in := range b.Instrs {
			if ci, ok := in.(ssa.CallInstruction); ok && ci.Common().StaticCallee() != nil {
				if _, isT := targets[ci.Common().StaticCallee()]; isT && ci.Common().StaticCallee() != f {
					if g := countsItself(p, ci.Common().StaticCallee(), targets, depth+1); g != nil {
						return g
					}
				}
			}
		}
	}
	return nil
}

// behindDepthStepOr: every path to c passes a depth step (as behindDepthStep) or an edge for which alt holds.
func behindDepthStepOr(p *Prog, c ssa.Instruction, alt EdgePred) bool {
	f := c.Parent()
	step := depthStepEdge(p, f)
	return Guarded(c, func(cond ssa.Value, pol bool) bool {
		if alt(cond, pol) || step(cond, pol) {
			return true
		}
		if _, ok := cond.(*ssa.BinOp); !ok {
			return false
		}
		return !pol && refusingCompare(p, f, cond)
	})
}
