package main

// anchors.go: repository symbols the rules refer to, resolved by role where the role is visible in
// types or exported API, by name as a last resort. An unresolved anchor fails the check.

import (
	"fmt"
	"go/types"
	"sort"
	"strings"

	"golang.org/x/tools/go/ssa"
)

type Anchors struct {
	p   *Prog
	err []string

	Template, TemplateSet, ExecCtx, Value, Error, Token, Parser, Context, Options *types.Named
	INode, IEvaluator, TemplateLoader, TemplateWriter                             *types.Interface

	ExecEntries    []*ssa.Function          // exported methods of *Template taking a Context
	ExecCore       *ssa.Function            // the unexported funnel (*Template).execute
	CompileEntries []*ssa.Function          // exported methods of *TemplateSet returning *Template (+ Render*)
	NewTemplate    *ssa.Function            // the only constructor of Template
	FilterRegistry *ssa.Global              // map[string]FilterFunction
	TagRegistry    *ssa.Global              // map[string]*tag
	FilterFuncs    map[string]*ssa.Function // registered name -> function (static extraction)
	TagParsers     map[string]*ssa.Function
	NodeTypes      []*types.Named // implementers of INode
	EvalTypes      []*types.Named // implementers of IEvaluator

	FileLoaders map[*ssa.Function]bool // methods of *TemplateSet (name string, …) (*Template, error) that reach the loaders

	CompiledTypes map[string]bool // compiled-tree types (by name)
	PerExecTypes  map[string]bool

	execReach    map[*ssa.Function]bool
	compileReach map[*ssa.Function]bool
}

func (a *Anchors) fail(format string, args ...any) {
	a.err = append(a.err, fmt.Sprintf(format, args...))
}

func (p *Prog) named(a *Anchors, name string) *types.Named {
	n := p.Named(name)
	if n == nil {
		a.fail("anchor unresolved: type %s", name)
	}
	return n
}

var anchorsMemo = map[*Prog]*Anchors{}

// ResolveAnchors builds the anchor table; errors are reported by the caller as undecided obligations.
func ResolveAnchors(p *Prog) *Anchors {
	if a, ok := anchorsMemo[p]; ok {
		return a
	}
	a := &Anchors{p: p, FilterFuncs: map[string]*ssa.Function{}, TagParsers: map[string]*ssa.Function{}}
	anchorsMemo[p] = a
	a.Template = p.named(a, "Template")
	a.TemplateSet = p.named(a, "TemplateSet")
	a.ExecCtx = p.named(a, "ExecutionContext")
	a.Value = p.named(a, "Value")
	a.Error = p.named(a, "Error")
	a.Token = p.named(a, "Token")
	a.Parser = p.named(a, "Parser")
	a.Context = p.named(a, "Context")
	a.Options = p.named(a, "Options")
	a.INode = p.Iface("INode")
	a.IEvaluator = p.Iface("IEvaluator")
	a.TemplateLoader = p.Iface("TemplateLoader")
	a.TemplateWriter = p.Iface("TemplateWriter")
	for n, i := range map[string]*types.Interface{"INode": a.INode, "IEvaluator": a.IEvaluator, "TemplateLoader": a.TemplateLoader, "TemplateWriter": a.TemplateWriter} {
		if i == nil {
			a.fail("anchor unresolved: interface %s", n)
		}
	}
	if len(a.err) > 0 {
		return a
	}
	// execution entries: exported methods of *Template with a Context parameter
	for _, f := range p.Methods(a.Template) {
		hasCtx := false
		for i := 0; i < f.Signature.Params().Len(); i++ {
			if types.Identical(f.Signature.Params().At(i).Type(), a.Context) {
				hasCtx = true
			}
		}
		if !hasCtx {
			continue
		}
		if f.Object() != nil && f.Object().Exported() {
			a.ExecEntries = append(a.ExecEntries, f)
		}
	}
	sortFuncs(p, a.ExecEntries)
	if len(a.ExecEntries) < 4 {
		a.fail("anchor unresolved: execution entries (exported *Template methods taking a Context): found %d, expected >= 4", len(a.ExecEntries))
	}
	a.ExecCore = p.Method("Template", "execute")
	if a.ExecCore == nil {
		a.fail("anchor unresolved: (*Template).execute")
	}
	// compile entries: exported methods of *TemplateSet returning *Template or named Render*
	for _, f := range p.Methods(a.TemplateSet) {
		if f.Object() == nil || !f.Object().Exported() {
			continue
		}
		res := f.Signature.Results()
		retTpl := res.Len() >= 1 && types.Identical(res.At(0).Type(), types.NewPointer(a.Template))
		if retTpl || strings.HasPrefix(f.Name(), "Render") {
			a.CompileEntries = append(a.CompileEntries, f)
		}
	}
	sortFuncs(p, a.CompileEntries)
	if len(a.CompileEntries) < 4 {
		a.fail("anchor unresolved: compile entries (exported *TemplateSet methods returning *Template): found %d", len(a.CompileEntries))
	}
	// the constructor of Template: the function(s) containing an Alloc of Template
	var ctors []*ssa.Function
	p.EachInstr(func(f *ssa.Function, in ssa.Instruction) {
		if al, ok := in.(*ssa.Alloc); ok {
			if pt, ok := al.Type().(*types.Pointer); ok && types.Identical(pt.Elem(), a.Template) {
				ctors = append(ctors, f)
			}
		}
	})
	if len(ctors) != 1 {
		var names []string
		for _, c := range ctors {
			names = append(names, p.FuncName(c))
		}
		a.fail("anchor unresolved: exactly one constructor of Template expected (compile boundary), found %v", names)
	} else {
		a.NewTemplate = ctors[0]
	}
	// registries by type
	for _, m := range p.SPkg.Members {
		g, ok := m.(*ssa.Global)
		if !ok {
			continue
		}
		mt, ok := g.Type().(*types.Pointer).Elem().Underlying().(*types.Map)
		if !ok {
			continue
		}
		if n, ok := mt.Elem().(*types.Named); ok && n.Obj().Name() == "FilterFunction" {
			if a.FilterRegistry != nil {
				a.fail("two filter registries")
			}
			a.FilterRegistry = g
		}
		if pt, ok := mt.Elem().(*types.Pointer); ok {
			if st, ok := pt.Elem().Underlying().(*types.Struct); ok {
				for i := 0; i < st.NumFields(); i++ {
					if n, ok := st.Field(i).Type().(*types.Named); ok && n.Obj().Name() == "TagParser" {
						if a.TagRegistry != nil {
							a.fail("two tag registries")
						}
						a.TagRegistry = g
					}
				}
			}
		}
	}
	if a.FilterRegistry == nil {
		a.fail("anchor unresolved: filter registry (package-level map[string]FilterFunction)")
	}
	if a.TagRegistry == nil {
		a.fail("anchor unresolved: tag registry (package-level map whose element has a TagParser field)")
	}
	// static registry extraction
	regF, regT := p.Func("RegisterFilter"), p.Func("RegisterTag")
	if regF == nil || regT == nil {
		a.fail("anchor unresolved: RegisterFilter/RegisterTag")
	}
	p.EachInstr(func(f *ssa.Function, in ssa.Instruction) {
		c, ok := in.(ssa.CallInstruction)
		if !ok {
			return
		}
		callee := c.Common().StaticCallee()
		if callee == nil || (callee != regF && callee != regT) {
			return
		}
		name, ok1 := constString(c.Common().Args[0])
		fn, ok2 := stripConv(c.Common().Args[1]).(*ssa.Function)
		if !ok1 || !ok2 {
			return
		}
		if callee == regF {
			a.FilterFuncs[name] = fn
		} else {
			a.TagParsers[name] = fn
		}
	})
	// file loaders: FromFile, FromCache and the unexported loader behind them that tag parsers use for nested loads
	a.FileLoaders = map[*ssa.Function]bool{}
	if rt := p.Method("TemplateSet", "resolveTemplate"); rt != nil {
		for _, f := range p.Methods(a.TemplateSet) {
			res := f.Signature.Results()
			if res.Len() != 2 || !types.Identical(res.At(0).Type(), types.NewPointer(a.Template)) || f.Signature.Params().Len() < 1 {
				continue
			}
			if b, ok := f.Signature.Params().At(0).Type().Underlying().(*types.Basic); !ok || b.Kind() != types.String {
				continue
			}
			// reaches resolveTemplate through static calls of TemplateSet methods
			seen := map[*ssa.Function]bool{}
			var reaches func(g *ssa.Function, d int) bool
			reaches = func(g *ssa.Function, d int) bool {
				if g == rt {
					return true
				}
				if d > 3 || seen[g] || g.Blocks == nil {
					return false
				}
				seen[g] = true
				for _, b := range g.Blocks {
					for _, in := range b.Instrs {
						if ci, ok := in.(ssa.CallInstruction); ok {
							if cal := ci.Common().StaticCallee(); cal != nil && cal.Signature.Recv() != nil && structOf(cal.Signature.Recv().Type()) == a.TemplateSet && reaches(cal, d+1) {
								return true
							}
						}
					}
				}
				return false
			}
			if reaches(f, 0) {
				a.FileLoaders[f] = true
			}
		}
	}
	a.NodeTypes = p.Implementers(a.INode)
	a.EvalTypes = p.Implementers(a.IEvaluator)
	a.classifyTypes()
	return a
}

func sortFuncs(p *Prog, fs []*ssa.Function) {
	sort.Slice(fs, func(i, j int) bool { return p.FuncName(fs[i]) < p.FuncName(fs[j]) })
}

// classifyTypes derives the ownership classes from types, not names:
// compiled-tree types = closure of Template over struct fields, expanding interfaces to the package's
// implementers, stopping at TemplateSet (set state) and at types outside the package.
func (a *Anchors) classifyTypes() {
	p := a.p
	a.CompiledTypes = map[string]bool{}
	var visit func(T types.Type)
	visit = func(T types.Type) {
		switch t := T.(type) {
		case *types.Pointer:
			visit(t.Elem())
		case *types.Slice:
			visit(t.Elem())
		case *types.Array:
			visit(t.Elem())
		case *types.Map:
			visit(t.Key())
			visit(t.Elem())
		case *types.Named:
			if t.Obj().Pkg() != p.Pkg.Types {
				return
			}
			name := t.Obj().Name()
			if name == "TemplateSet" || name == "ExecutionContext" || a.CompiledTypes[name] {
				return
			}
			switch u := t.Underlying().(type) {
			case *types.Struct:
				a.CompiledTypes[name] = true
				for i := 0; i < u.NumFields(); i++ {
					visit(u.Field(i).Type())
				}
			case *types.Interface:
				for _, impl := range p.Implementers(u) {
					visit(impl)
				}
			default:
				visit(u)
			}
		}
	}
	visit(a.Template)
	// node types that are only created by tag parsers are reachable through []INode; make sure of it
	for _, n := range a.NodeTypes {
		visit(n)
	}
	// per-execution types: package struct types that are not compiled-tree types and not set state
	a.PerExecTypes = map[string]bool{}
	sc := p.Pkg.Types.Scope()
	for _, name := range sc.Names() {
		tn, ok := sc.Lookup(name).(*types.TypeName)
		if !ok {
			continue
		}
		if _, isStruct := tn.Type().Underlying().(*types.Struct); isStruct && !a.CompiledTypes[name] && name != "TemplateSet" {
			a.PerExecTypes[name] = true
		}
	}
}

// ExecReach: functions reachable from the execution entries without crossing the compile boundary.
func (a *Anchors) ExecReach() map[*ssa.Function]bool {
	if a.execReach == nil {
		roots := append([]*ssa.Function{}, a.ExecEntries...)
		roots = append(roots, a.ExecCore)
		// exported execution-time API usable by custom tags/filters: ApplyFilter and the filter functions
		for _, f := range a.FilterFuncs {
			roots = append(roots, f)
		}
		if f := a.p.Func("ApplyFilter"); f != nil {
			roots = append(roots, f)
		}
		a.execReach = a.p.Reach(a.p.CG, roots, map[*ssa.Function]bool{a.NewTemplate: true})
	}
	return a.execReach
}

// CompileReach: functions reachable from the compile entries, cut at the execution funnel
// (Render* shortcuts execute; execution is covered by ExecReach).
func (a *Anchors) CompileReach() map[*ssa.Function]bool {
	if a.compileReach == nil {
		cut := map[*ssa.Function]bool{}
		for _, e := range a.ExecEntries {
			cut[e] = true
		}
		a.compileReach = a.p.Reach(a.p.CG, a.CompileEntries, cut)
	}
	return a.compileReach
}

// anchorCheck emits the anchor failures into the report (as undecided) and tells whether to go on.
func anchorCheck(a *Anchors, r *Report) bool {
	r.Begin("R-ANCHORS", "repository symbols the rules refer to resolve by role", 1)
	if len(a.err) > 0 {
		for _, e := range a.err {
			r.Unk("anchor", "-", "%s", e)
		}
		return false
	}
	r.Trivial("anchors", "-", "types, entries (%d exec, %d compile), registries (%d filters, %d tags), %d node types, %d compiled-tree types",
		len(a.ExecEntries), len(a.CompileEntries), len(a.FilterFuncs), len(a.TagParsers), len(a.NodeTypes), len(a.CompiledTypes))
	return true
}

// inPkgFuncsSorted returns the package functions in set, sorted by name.
func (p *Prog) inPkgFuncsSorted(set map[*ssa.Function]bool) []*ssa.Function {
	var out []*ssa.Function
	for f := range set {
		if p.InPkg(f) && f.Blocks != nil {
			out = append(out, f)
		}
	}
	sortFuncs(p, out)
	return out
}
