package main

// C06 — literal text, verbatim, comments, templatetag: the structural clauses.
// R-C06-EOF, RAW, HTMLNODE, COMMENT, TT, VERB.

import (
	"fmt"
	"go/constant"
	"go/token"
	"go/types"
	"regexp"
	"sort"
	"strconv"
	"strings"
	"unicode/utf8"

	"golang.org/x/tools/go/ssa"
)

func init() { register("C06", checkC06) }

func checkC06(p *Prog, r *Report) {
	a := ResolveAnchors(p)
	if !anchorCheck(a, r) {
		return
	}
	ruleC06EOF(p, a, r)
	ruleC06Raw(p, a, r)
	ruleC06Comment(p, a, r)
	ruleC06TemplateTag(p, a, r)
	ruleC06Verbatim(p, a, r)
	ruleC06Redispatch(p, a, r)
	ruleC06VerbatimTags(p, a, r)
	ruleC06Source(p, a, r)
	ruleC06RawSource(p, a, r)
	ruleC06VerbatimBody(p, a, r)
	ruleC06TagExit(p, a, r)
}

// R-C06-EOF: the value the lexer's next() returns at the end of the input lies outside the domain of runes.
func ruleC06EOF(p *Prog, a *Anchors, r *Report) {
	r.Begin("R-C06-EOF", "the lexer's end-of-input marker cannot be equal to any character of the template (it lies outside 0…0x10FFFF)", 1)
	next := p.Method("lexer", "next")
	if next == nil {
		r.Unk("anchor", "-", "anchor unresolved: (*lexer).next")
		return
	}
	// the constant returned on the pos >= len(input) edge
	n := 0
	var sentinel *int64
	for _, ret := range returnsOf(next) {
		c, ok := stripConv(res(ret, 0)).(*ssa.Const)
		if !ok || c.Value == nil || c.Value.Kind() != constant.Int {
			continue
		}
		n++
		k, _ := constant.Int64Val(c.Value)
		sentinel = &k
		if k < 0 || k > utf8.MaxRune {
			r.OK("next:sentinel", p.InstrPos(ret), "end of input is reported as %d, which no decoded rune can equal", k)
		} else {
			r.Bad("next:sentinel", p.InstrPos(ret), "end of input is reported as rune %d (%q): a template containing that character is cut off there and the rest is silently dropped", k, rune(k))
		}
	}
	if n == 0 {
		r.Unk("next:sentinel", p.Pos(next.Pos()), "next() has no constant end-of-input return")
		return
	}
	// every constant that results of next()/peek() are compared with, other than ordinary characters, is that sentinel
	peek := p.Method("lexer", "peek")
	p.EachInstr(func(f *ssa.Function, in ssa.Instruction) {
		bo, ok := in.(*ssa.BinOp)
		if !ok || (bo.Op != token.EQL && bo.Op != token.NEQ) {
			return
		}
		c, ok := bo.X.(*ssa.Call)
		if !ok || (c.Common().StaticCallee() != next && c.Common().StaticCallee() != peek) {
			return
		}
		k, isC := constIntOrRune(bo.Y)
		if !isC {
			return
		}
		key := p.FuncName(f) + ":compare " + c.Common().StaticCallee().Name()
		switch {
		case k == *sentinel:
			r.OK(key+":eof", p.InstrPos(in), "compared with the end marker %d", k)
		case k >= 0x20 || k == '\n' || k == '\r' || k == '\t':
			r.Trivial(key+":char", p.InstrPos(in), "compared with the ordinary character %q", rune(k))
		default:
			r.Bad(key+":control", p.InstrPos(in), "the lexer treats the control character %d specially", k)
		}
	})
}

// R-C06-RAW / HTMLNODE
func ruleC06Raw(p *Prog, a *Anchors, r *Report) {
	r.Begin("R-C06-RAW", "an HTML token's value is the untouched source slice: emit transforms token values only under a token-type test that excludes TokenHTML", 2)
	emit := p.Method("lexer", "emit")
	if emit == nil {
		r.Unk("anchor", "-", "anchor unresolved: (*lexer).emit")
		return
	}
	htmlConst := int64(-1)
	if c, ok := p.Pkg.Types.Scope().Lookup("TokenHTML").(interface{ Val() constant.Value }); ok {
		htmlConst, _ = constant.Int64Val(c.Val())
	}
	tparam := emit.Params[1]
	nInit, nXform := 0, 0
	// t == K for constants K != TokenHTML (t: emit's parameter, or the parameter of a token constructor it is passed to)
	exclHTML := func(isT func(ssa.Value) bool) EdgePred {
		return func(c ssa.Value, pol bool) bool {
			bo, ok := c.(*ssa.BinOp)
			if !ok || !isT(bo.X) {
				return false
			}
			k, isC := constInt(bo.Y)
			if !isC {
				return false
			}
			return (bo.Op == token.EQL && pol && k != htmlConst) || (bo.Op == token.NEQ && !pol && k != htmlConst) || (bo.Op == token.NEQ && pol && k == htmlConst) || (bo.Op == token.EQL && !pol && k == htmlConst)
		}
	}
	isValueCall := func(v ssa.Value) bool {
		c, isCall := v.(*ssa.Call)
		return isCall && c.Common().StaticCallee() != nil && c.Common().StaticCallee().Name() == "value"
	}
	// the token may be built by a constructor emit calls (`tok := l.newToken(t, l.value())`): the stores of Token.Val in
	// there are judged like emit's own, the constructor's parameters standing for the arguments of that call
	for _, vs := range u3TokenBuilds(p, emit) {
		if isValueCall(vs.val) {
			nInit++
			r.OK("emit:initial", p.InstrPos(vs.call), "Val = l.value() (the source slice input[start:pos]), stored by %s", vs.call.Common().StaticCallee().Name())
			continue
		}
		nXform++
		call := vs.call
		excl := Guarded(call, exclHTML(func(v ssa.Value) bool { return v == ssa.Value(tparam) })) ||
			Guarded(vs.st, exclHTML(func(v ssa.Value) bool { return u3ParamIs(call, v, tparam) }))
		if excl {
			r.OK("emit:transform", p.InstrPos(vs.st), "token value rewritten only for a non-HTML token type")
		} else {
			r.Bad("emit:transform", p.InstrPos(vs.st), "%s, called by emit, sets the token value to something else than l.value() on a path where the token can be TokenHTML: literal text is no longer copied byte for byte", call.Common().StaticCallee().Name())
		}
	}
	for _, b := range emit.Blocks {
		for _, in := range b.Instrs {
			st, ok := in.(*ssa.Store)
			if !ok || !isFieldAddrOf(st.Addr, "Token", "Val") {
				continue
			}
			// the initial value: l.value() = input[start:pos]
			if isValueCall(st.Val) {
				nInit++
				r.OK("emit:initial", p.InstrPos(in), "Val = l.value() (the source slice input[start:pos])")
				continue
			}
			nXform++
			// must be guarded by t == K for constants K != TokenHTML
			excl := Guarded(in, exclHTML(func(v ssa.Value) bool { return v == ssa.Value(tparam) }))
			if excl {
				r.OK("emit:transform", p.InstrPos(in), "token value rewritten only for a non-HTML token type")
			} else {
				r.Bad("emit:transform", p.InstrPos(in), "emit rewrites the token value on a path where the token can be TokenHTML: literal text is no longer copied byte for byte")
			}
		}
	}
	if nInit == 0 {
		r.Bad("emit:initial", p.Pos(emit.Pos()), "emit does not initialise Token.Val with the source slice l.value()")
	}
	// l.value() is input[start:pos]
	if val := p.Method("lexer", "value"); val != nil {
		ok := false
		for _, ret := range returnsOf(val) {
			if sl, isSl := res(ret, 0).(*ssa.Slice); isSl && loadsField(sl.X, "lexer", "input") && sl.Low != nil && sl.High != nil && loadsField(sl.Low, "lexer", "start") && loadsField(sl.High, "lexer", "pos") {
				ok = true
			}
		}
		if ok {
			r.OK("value:slice", p.Pos(val.Pos()), "l.value() = l.input[l.start:l.pos]")
		} else {
			r.Bad("value:slice", p.Pos(val.Pos()), "l.value() is not the slice input[start:pos]")
		}
	}

	r.Begin("R-C06-HTMLNODE", "one text node per HTML token, holding that very token; the node writes the token's value, changed only by the whitespace trims its flags ask for", 3)
	pde := p.Method("Parser", "parseDocElement")
	nh := p.Method("nodeHTML", "Execute")
	if pde == nil || nh == nil {
		r.Unk("anchor", "-", "anchor unresolved: parseDocElement / (*nodeHTML).Execute")
		return
	}
	// where nodeHTML objects are allocated: token field = the current token (result of p.Current())
	found := false
	for _, f := range p.Funcs {
		for _, b := range f.Blocks {
			for _, in := range b.Instrs {
				st, ok := in.(*ssa.Store)
				if !ok || !isFieldAddrOf(st.Addr, "nodeHTML", "token") {
					continue
				}
				found = true
				key := p.FuncName(f) + ":nodeHTML.token"
				v := st.Val
				if u, isU := v.(*ssa.UnOp); isU {
					if sv := localLoadValue(u); sv != nil {
						v = sv
					}
				}
				isCurrent := false
				if c, isCall := v.(*ssa.Call); isCall && c.Common().StaticCallee() != nil && (c.Common().StaticCallee().Name() == "Current" || c.Common().StaticCallee().Name() == "Get") {
					isCurrent = true
				}
				if pa, isParam := v.(*ssa.Parameter); isParam {
					// helper taking the token: every caller passes the current token
					isCurrent = true
					for _, e := range p.Callers(p.CG, f) {
						arg := callArgs(e.Site.Common())[indexOfParam(f, pa)]
						if c, isCall := arg.(*ssa.Call); !isCall || c.Common().StaticCallee() == nil || c.Common().StaticCallee().Name() != "Current" {
							isCurrent = false
						}
					}
				}
				if isCurrent {
					r.OK(key, p.InstrPos(in), "the node holds the lexer's token itself")
				} else {
					r.Bad(key, p.InstrPos(in), "a text node is built around %s instead of the lexer's HTML token: its text is no longer the untouched source slice (e.g. adjacent tokens merged)", p.VN(v))
				}
			}
		}
	}
	if !found {
		r.Unk("nodeHTML.token", "-", "no construction of nodeHTML found")
	}
	// Execute: the written text derives from token.Val through trims/reslicing only, each trim behind its own flag
	// (the trimming may be delegated to methods of the node that get the text as a parameter: they are followed)
	textEnv := &t2TextEnv{seen: map[*ssa.Function]bool{}}
	for _, b := range nh.Blocks {
		for _, in := range b.Instrs {
			ci, ok := in.(ssa.CallInstruction)
			if !ok || !ci.Common().IsInvoke() || (ci.Common().Method.Name() != "WriteString" && ci.Common().Method.Name() != "Write") {
				continue
			}
			ok2, why := htmlTextProvenance(p, ci.Common().Args[0], 0, textEnv)
			if ok2 {
				r.OK("nodeHTML.Execute:sink", p.InstrPos(in), "writes token.Val, possibly trimmed")
			} else {
				r.Bad("nodeHTML.Execute:sink", p.InstrPos(in), "the text node writes %s", why)
			}
		}
	}
	// the trims: in Execute and in every method of the node the written text was followed through
	for _, tf := range t2TextFuncs(nh, textEnv) {
		fkey := "nodeHTML." + tf.Name() + ":"
		for _, b := range tf.Blocks {
			for _, in := range b.Instrs {
				c, ok := in.(*ssa.Call)
				if !ok || c.Common().StaticCallee() == nil {
					continue
				}
				n := p.extName(c.Common().StaticCallee())
				if !strings.HasPrefix(n, "strings.Trim") {
					continue
				}
				flagCond := func(cnd ssa.Value, pol bool) bool {
					if !pol {
						return false
					}
					_, tn, _ := fieldLoadBase(cnd)
					return tn != nil && (tn.Obj().Name() == "nodeHTML" || tn.Obj().Name() == "Options")
				}
				// … under the flag here, or — in a helper that is given the text — at every place the helper is called
				// from among the functions the text was followed through
				var under func(at ssa.Instruction, d int) bool
				under = func(at ssa.Instruction, d int) bool {
					if Guarded(at, flagCond) {
						return true
					}
					fn := at.Parent()
					if fn == nh || d > 3 {
						return false
					}
					sites := 0
					for _, cf := range t2TextFuncs(nh, textEnv) {
						for _, cb := range cf.Blocks {
							for _, ci := range cb.Instrs {
								if cc, isC := ci.(*ssa.Call); isC && cc.Common().StaticCallee() == fn {
									sites++
									if !under(ci, d+1) {
										return false
									}
								}
							}
						}
					}
					return sites > 0
				}
				g := under(in, 0)
				if g {
					r.OK(fkey+n, p.InstrPos(in), "trim applied only under its flag")
				} else {
					r.Bad(fkey+n, p.InstrPos(in), "%s is applied unconditionally: whitespace of literal text is removed although no `-` marker / option asked for it", n)
				}
			}
		}
	}
}

func indexOfParam(f *ssa.Function, pa *ssa.Parameter) int {
	for i, x := range f.Params {
		if x == pa {
			return i
		}
	}
	return 0
}

// htmlTextProvenance: v is token.Val of the node's token, possibly passed through strings.Trim*/reslicing/phis.
func htmlTextProvenance(p *Prog, v ssa.Value, depth int, env *t2TextEnv) (bool, string) {
	if depth > 16 {
		return false, "a value too deep to follow"
	}
	switch x := v.(type) {
	case *ssa.UnOp:
		if base, n, fld := fieldLoadBase(x); n != nil && n.Obj().Name() == "Token" && fld == "Val" {
			if loadsField(base, "nodeHTML", "token") {
				return true, ""
			}
			return false, "the value of another token (" + p.VN(base) + ")"
		}
		if sv := localLoadValue(x); sv != nil {
			return htmlTextProvenance(p, sv, depth+1, env)
		}
	case *ssa.Phi:
		for _, e := range x.Edges {
			if ok, why := htmlTextProvenance(p, e, depth+1, env); !ok {
				return false, why
			}
		}
		return true, ""
	case *ssa.Slice:
		return htmlTextProvenance(p, x.X, depth+1, env)
	case *ssa.Call:
		if x.Common().StaticCallee() != nil && strings.HasPrefix(p.extName(x.Common().StaticCallee()), "strings.Trim") {
			return htmlTextProvenance(p, x.Common().Args[0], depth+1, env)
		}
		// a method of the text node that returns its text parameter, trimmed or not: every result is followed inside
		// the method, the parameter back to the argument of this call
		if inner := env.enter(p, x); inner != nil {
			for _, ret := range returnsOf(x.Common().StaticCallee()) {
				if ok, why := htmlTextProvenance(p, res(ret, 0), depth+1, inner); !ok {
					return false, why + " (in " + p.FuncName(x.Common().StaticCallee()) + ")"
				}
			}
			return true, ""
		}
		return false, "the result of " + p.calleeName(x.Common())
	case *ssa.Parameter:
		if arg, outer := env.actual(x); arg != nil {
			return htmlTextProvenance(p, arg, depth+1, outer)
		}
	case *ssa.Convert:
		return htmlTextProvenance(p, x.X, depth+1, env)
	}
	return false, p.VN(v)
}

// R-C06-COMMENT
func ruleC06Comment(p *Prog, a *Anchors, r *Report) {
	r.Begin("R-C06-COMMENT", "comment content is never parsed or evaluated: the comment tag's parser reaches no document/expression/tag parser and its node's Execute does nothing", 2)
	cp := a.TagParsers["comment"]
	if cp == nil {
		r.Unk("anchor", "-", "anchor unresolved: parser registered as \"comment\"")
		return
	}
	reach := p.Reach(p.CG, []*ssa.Function{cp}, nil)
	var bad []string
	for f := range reach {
		if !p.InPkg(f) || f == cp {
			continue
		}
		n := f.Name()
		if n == "parseDocElement" || n == "parseDocument" || n == "ParseExpression" || n == "parseTagElement" || n == "parseVariableElement" || n == "WrapUntilTag" || strings.HasPrefix(n, "tag") && strings.HasSuffix(n, "Parser") {
			bad = append(bad, p.FuncName(f))
		}
	}
	sort.Strings(bad)
	if len(bad) == 0 {
		r.OK("parser:no-parse", p.Pos(cp.Pos()), "reaches %d package functions, none of which parses document elements, expressions or tags", countPkg(p, reach))
	} else {
		r.Bad("parser:no-parse", p.Pos(cp.Pos()), "the comment parser reaches %v: the content of a comment gets compiled (errors, banned tags and includes inside comments take effect)", bad)
	}
	// node's Execute: no calls, no sinks
	for _, f := range p.Funcs {
		if f.Name() != "Execute" || f.Signature.Recv() == nil {
			continue
		}
		n := structOf(f.Signature.Recv().Type())
		if n == nil || n.Obj().Name() != "tagCommentNode" {
			continue
		}
		calls := 0
		for _, b := range f.Blocks {
			for _, in := range b.Instrs {
				if _, ok := in.(ssa.CallInstruction); ok {
					calls++
				}
			}
		}
		if calls == 0 {
			r.OK("node:silent", p.Pos(f.Pos()), "the comment node's Execute performs no call and writes nothing")
		} else {
			r.Bad("node:silent", p.Pos(f.Pos()), "the comment node's Execute performs %d call(s): comments must emit nothing and evaluate nothing", calls)
		}
	}
	// the search for the comment terminator works on the input AFTER the opener was skipped. The comment scanner may
	// live in run() itself or in helper methods run() calls: the guard `HasPrefix(input[pos:], "{#")` is looked for on
	// the path to the skip within its function or at every call site of that helper; "after the skip" is decided in the
	// function of the search, or at the call sites of the helper that holds it.
	if run := p.Method("lexer", "run"); run != nil {
		cl := clusterOf(p, run, 2)
		opener := func(c ssa.Value, pol bool) bool {
			call, ok := c.(*ssa.Call)
			if !ok || !pol || call.Common().StaticCallee() == nil || p.extName(call.Common().StaticCallee()) != "strings.HasPrefix" {
				return false
			}
			s, isC := constString(call.Common().Args[1])
			return isC && s == "{#"
		}
		// the step that skips the opener: pos += 2 guarded by HasPrefix(input[pos:], "{#") — the store itself, or the
		// call of a small lexer method that adds its constant argument (at least the opener's length) to pos
		// (`l.advance(2)`)
		var skip ssa.Instruction
		for _, f := range cl {
			for _, b := range f.Blocks {
				for _, in := range b.Instrs {
					if skip != nil {
						continue
					}
					if st, ok := in.(*ssa.Store); !ok || !isFieldAddrOf(st.Addr, "lexer", "pos") {
						if _, isSkip := u3PosSkipCall(p, in, int64(len("{#"))); !isSkip {
							continue
						}
					}
					if t2GuardedIP(p, run, in, opener, 2) {
						skip = in
					}
				}
			}
		}
		found := false
		for _, f := range cl {
			for _, b := range f.Blocks {
				for _, in := range b.Instrs {
					call, ok := in.(*ssa.Call)
					if !ok || call.Common().StaticCallee() == nil {
						continue
					}
					n := p.extName(call.Common().StaticCallee())
					if n != "strings.HasPrefix" && n != "strings.Index" && n != "strings.Contains" {
						continue
					}
					s, isC := constString(call.Common().Args[1])
					if !isC || s != "#}" {
						continue
					}
					found = true
					// the searched text: input[X:] where X is loaded after the skip
					okPos := false
					var walk func(v ssa.Value, d int)
					walk = func(v ssa.Value, d int) {
						if d > 5 {
							return
						}
						switch x := v.(type) {
						case *ssa.Slice:
							if ld, isLd := x.Low.(*ssa.UnOp); isLd && isFieldAddrOf(ld.X, "lexer", "pos") && skip != nil && t2AlwaysAfter(p, run, skip, ld, 2) {
								okPos = true
							}
						case *ssa.UnOp:
							if sv := localLoadValue(x); sv != nil {
								walk(sv, d+1)
							}
						case *ssa.Phi:
							for _, e := range x.Edges {
								walk(e, d+1)
							}
						}
					}
					walk(call.Common().Args[0], 0)
					if okPos {
						r.OK("lexer:terminator-search", p.InstrPos(in), "the comment terminator is searched in the input after the opener")
					} else {
						r.Bad("lexer:terminator-search", p.InstrPos(in), "the search for `#}` works on text that still contains (part of) the opener `{#`: `{#}` is taken for a complete comment and the rest of the comment is rendered/evaluated")
					}
				}
			}
		}
		if !found {
			r.Unk("lexer:terminator-search", p.Pos(run.Pos()), "no search for the comment terminator `#}` found")
		}
		// the lexer's {# #} handling emits no token for the comment: the span is discarded with ignore() (in run, or in
		// the helper that skips the opener, after the skip)
		ignores := 0
		for _, b := range run.Blocks {
			for _, in := range b.Instrs {
				if c, ok := in.(*ssa.Call); ok && c.Common().StaticCallee() != nil && c.Common().StaticCallee().Name() == "ignore" {
					ignores++
				}
			}
		}
		if skip != nil && skip.Parent() != run {
			for _, b := range skip.Parent().Blocks {
				for _, in := range b.Instrs {
					if c, ok := in.(*ssa.Call); ok && c.Common().StaticCallee() != nil && c.Common().StaticCallee().Name() == "ignore" && ReachesFromInstr(skip, in) {
						ignores++
					}
				}
			}
		}
		if ignores >= 1 {
			r.OK("lexer:comment-ignored", p.Pos(run.Pos()), "the lexer discards {# … #} spans with ignore()")
		} else {
			r.Bad("lexer:comment-ignored", p.Pos(run.Pos()), "the lexer never discards input: single-line comments would be emitted")
		}
	}
}

// R-C06-TT
func ruleC06TemplateTag(p *Prog, a *Anchors, r *Report) {
	r.Begin("R-C06-TT", "templatetag: the constant table from argument to output equals the specification and the node writes exactly the looked-up value", 2)
	spec := map[string]string{"openblock": "{%", "closeblock": "%}", "openvariable": "{{", "closevariable": "}}", "openbrace": "{", "closebrace": "}", "opencomment": "{#", "closecomment": "#}"}
	tp := a.TagParsers["templatetag"]
	if tp == nil {
		r.Unk("anchor", "-", "anchor unresolved: parser registered as \"templatetag\"")
		return
	}
	// the map global used by the parser
	var g *ssa.Global
	for _, b := range tp.Blocks {
		for _, in := range b.Instrs {
			if lk, ok := in.(*ssa.Lookup); ok {
				if gl := globalLoaded(lk.X); gl != nil {
					g = gl
				}
			}
		}
	}
	if g == nil {
		r.Unk("table", p.Pos(tp.Pos()), "the templatetag parser does not look its argument up in a package-level table")
		return
	}
	got := map[string]string{}
	writes := 0
	p.EachInstr(func(f *ssa.Function, in ssa.Instruction) {
		mu, ok := in.(*ssa.MapUpdate)
		if !ok {
			return
		}
		// init: t = make map; t[k] = v ...; *g = t
		isTable := false
		for _, u := range refs(mu.Map) {
			if st, ok := u.(*ssa.Store); ok && st.Addr == ssa.Value(g) {
				isTable = true
			}
		}
		if gl := globalLoaded(mu.Map); gl == g {
			isTable = true
			if !strings.HasPrefix(f.Name(), "init") {
				r.Bad("table:write "+p.FuncName(f), p.InstrPos(in), "the templatetag table is modified at run time")
			}
		}
		if !isTable {
			return
		}
		writes++
		k, ok1 := constString(mu.Key)
		v, ok2 := constString(mu.Value)
		if ok1 && ok2 {
			got[k] = v
		} else {
			r.Unk("table:entry", p.InstrPos(in), "non-constant table entry")
		}
	})
	var diffs []string
	for k, v := range spec {
		if got[k] != v {
			diffs = append(diffs, k+"→"+got[k]+" (want "+v+")")
		}
	}
	for k := range got {
		if _, ok := spec[k]; !ok {
			diffs = append(diffs, "unexpected "+k)
		}
	}
	sort.Strings(diffs)
	if len(diffs) == 0 {
		r.OK("table", p.Pos(g.Pos()), "%d entries equal the specification", len(got))
	} else {
		r.Bad("table", p.Pos(g.Pos()), "templatetag table differs from the specification: %v", diffs)
	}
	// parser stores the looked-up value into the node; node writes that field
	stored := false
	for _, b := range tp.Blocks {
		for _, in := range b.Instrs {
			st, ok := in.(*ssa.Store)
			if !ok || !isFieldAddrOf(st.Addr, "tagTemplateTagNode", "content") {
				continue
			}
			if ex, ok := st.Val.(*ssa.Extract); ok {
				if lk, ok := ex.Tuple.(*ssa.Lookup); ok && globalLoaded(lk.X) == g && ex.Index == 0 {
					stored = true
				}
			}
			if lk, ok := st.Val.(*ssa.Lookup); ok && globalLoaded(lk.X) == g {
				stored = true
			}
		}
	}
	ex := p.Method("tagTemplateTagNode", "Execute")
	writesField := false
	if ex != nil {
		for _, b := range ex.Blocks {
			for _, in := range b.Instrs {
				if ci, ok := in.(ssa.CallInstruction); ok && ci.Common().IsInvoke() && ci.Common().Method.Name() == "WriteString" && loadsField(ci.Common().Args[0], "tagTemplateTagNode", "content") {
					writesField = true
				}
			}
		}
	}
	if stored && writesField {
		r.OK("node", p.Pos(tp.Pos()), "the node stores the table value and writes exactly it")
	} else {
		r.Bad("node", p.Pos(tp.Pos()), "the templatetag node does not write exactly the looked-up delimiter (stored: %v, written: %v)", stored, writesField)
	}
}

// R-C06-VERB: tokenisation is unreachable while the lexer is inside a verbatim block.
func ruleC06Verbatim(p *Prog, a *Anchors, r *Report) {
	r.Begin("R-C06-VERB", "verbatim is handled before tokenisation: tokenize() and the comment scanner run only when the lexer is not inside a verbatim block", 1)
	run := p.Method("lexer", "run")
	tok := p.Method("lexer", "tokenize")
	if run == nil || tok == nil {
		r.Unk("anchor", "-", "anchor unresolved: (*lexer).run / tokenize")
		return
	}
	for _, c := range callsTo(run, tok) {
		g := Guarded(c.(ssa.Instruction), func(cnd ssa.Value, pol bool) bool {
			return !pol && loadsField(cnd, "lexer", "inVerbatim")
		})
		if g {
			r.OK("run:tokenize", p.InstrPos(c.(ssa.Instruction)), "tokenize() is reached only on the !inVerbatim edge")
		} else {
			r.Bad("run:tokenize", p.InstrPos(c.(ssa.Instruction)), "tokenize() can run while the lexer is inside a verbatim block: the body would be interpreted")
		}
	}
	// who else calls tokenize / reads inVerbatim
	for _, e := range p.Callers(p.CG, tok) {
		if e.Site.Parent() != run {
			r.Bad("tokenize:caller "+p.FuncName(e.Site.Parent()), p.InstrPos(e.Site), "tokenize() is called outside the lexer's run loop")
		}
	}
}

// R-C06-SRC: what the lexer scans is the caller's / the loader's bytes, untouched. The value stored into the lexer's
// input field is traced back through parameters (to every static call site), string/[]byte conversions and phis; it
// must end in a parameter of an exported entry point or in the result of io.ReadAll/os.ReadFile on the loader's reader.
func ruleC06Source(p *Prog, a *Anchors, r *Report) {
	r.Begin("R-C06-SRC", "the text handed to the lexer is the source as given (FromString/FromBytes argument, or exactly what the loader's reader delivered): no function transforms it on the way", 3)
	var sinks []*ssa.Store
	p.EachInstr(func(f *ssa.Function, in ssa.Instruction) {
		if st, ok := in.(*ssa.Store); ok && isFieldAddrOf(st.Addr, "lexer", "input") {
			sinks = append(sinks, st)
		}
	})
	if len(sinks) == 0 {
		r.Unk("sink", "-", "anchor unresolved: no store to the lexer's input field")
		return
	}
	type item struct {
		v     ssa.Value
		depth int
	}
	ends := map[string]string{} // key -> verdict text ("" = ok)
	pos := map[string]string{}
	seen := map[ssa.Value]bool{}
	var work []item
	for _, st := range sinks {
		work = append(work, item{st.Val, 0})
	}
	for len(work) > 0 {
		it := work[len(work)-1]
		work = work[:len(work)-1]
		v := it.v
		if seen[v] || it.depth > 24 {
			continue
		}
		seen[v] = true
		switch x := v.(type) {
		case *ssa.Convert:
			work = append(work, item{x.X, it.depth + 1})
		case *ssa.ChangeType:
			work = append(work, item{x.X, it.depth + 1})
		case *ssa.Phi:
			for _, e := range x.Edges {
				work = append(work, item{e, it.depth + 1})
			}
		case *ssa.UnOp:
			if sv := localLoadValue(x); sv != nil {
				work = append(work, item{sv, it.depth + 1})
			} else {
				k := p.FuncName(x.Parent()) + ":" + p.VN(x)
				ends[k], pos[k] = "the lexer input is loaded from memory ("+p.VN(x)+") whose content this rule cannot follow", p.InstrPos(x)
			}
		case *ssa.Parameter:
			f := x.Parent()
			k := p.FuncName(f) + ":param " + x.Name()
			if f.Object() != nil && f.Object().Exported() && f.Parent() == nil {
				ends[k], pos[k] = "", p.Pos(f.Pos())
				continue
			}
			node := p.CG.Nodes[f]
			if node == nil || len(node.In) == 0 {
				ends[k], pos[k] = "", p.Pos(f.Pos()) // unreferenced helper
				continue
			}
			idx := indexOfParam(f, x)
			for _, e := range node.In {
				args := callArgs(e.Site.Common())
				if e.Site.Common().StaticCallee() != f || idx >= len(args) {
					kk := p.FuncName(f) + ":dynamic caller"
					ends[kk], pos[kk] = "the source passes through a dynamic call into "+p.FuncName(f), p.InstrPos(e.Site)
					continue
				}
				work = append(work, item{args[idx], it.depth + 1})
			}
		case *ssa.Extract:
			c, ok := x.Tuple.(*ssa.Call)
			name := ""
			if ok && c.Common().StaticCallee() != nil {
				name = p.extName(c.Common().StaticCallee())
			}
			k := p.FuncName(x.Parent()) + ":" + name
			if x.Index == 0 && (name == "io.ReadAll" || name == "os.ReadFile" || name == "io/ioutil.ReadAll") {
				ends[k], pos[k] = "", p.InstrPos(c)
			} else if srcs, followed := u6ResultSources(p, c, x.Index); followed {
				// a package helper (readAndClose): the source is whatever its returns deliver at this index — the
				// helper's body is traced like the caller's, a transformation inside it is found there
				for _, sv := range srcs {
					work = append(work, item{sv, it.depth + 1})
				}
			} else {
				ends[k], pos[k] = "the source is the result of "+name+": it is transformed between the loader and the lexer", p.InstrPos(x)
			}
		case *ssa.Call:
			if _, isTuple := x.Type().(*types.Tuple); !isTuple {
				if srcs, followed := u6ResultSources(p, x, 0); followed {
					for _, sv := range srcs {
						work = append(work, item{sv, it.depth + 1})
					}
					continue
				}
			}
			name := p.calleeName(x.Common())
			k := p.FuncName(x.Parent()) + ":" + name
			ends[k], pos[k] = "the source passes through "+name+" before it is scanned: literal text is no longer copied byte for byte (e.g. a stripped prefix, a normalised line ending)", p.InstrPos(x)
		default:
			k := p.FuncName(sinkParent(v)) + ":" + p.VN(v)
			ends[k], pos[k] = "the lexer input is "+p.VN(v)+", not the source as given", "-"
		}
	}
	keys := make([]string, 0, len(ends))
	for k := range ends {
		keys = append(keys, k)
	}
	sort.Strings(keys)
	for _, k := range keys {
		if ends[k] == "" {
			r.OK(k, pos[k], "source enters here and reaches the lexer only through string/[]byte conversions")
		} else {
			r.Bad(k, pos[k], "%s", ends[k])
		}
	}
}

func sinkParent(v ssa.Value) *ssa.Function {
	if in, ok := v.(ssa.Instruction); ok {
		return in.Parent()
	}
	return v.Parent()
}

// R-C06-VBODY: the body of a verbatim block is text like any other for the parser (one HTML token), so the
// whitespace-control machinery would apply to it: `-}}` / `{{-` of its neighbours and TrimBlocks/LStripBlocks. The
// lexer marks the token it emits while in verbatim mode, and the node's trim flags are only ever set for unmarked tokens.
func ruleC06VerbatimBody(p *Prog, a *Anchors, r *Report) {
	r.Begin("R-C06-VBODY", "text emitted while the lexer is in verbatim mode is marked, and the trim flags of a text node are set only for unmarked tokens: a verbatim body is never trimmed by its neighbours' whitespace control or by the set's block options", 3)
	run := p.Method("lexer", "run")
	emit := p.Method("lexer", "emit")
	if run == nil || emit == nil {
		r.Unk("anchor", "-", "anchor unresolved: (*lexer).run / emit")
		return
	}
	// the marker field: a bool field of Token that the lexer (run, or a helper method run calls) stores with true under
	// inVerbatim, or with the value of inVerbatim itself
	cl := clusterOf(p, run, 2)
	marker := ""
	inVerb := func(c ssa.Value, pol bool) bool { return pol && loadsField(c, "lexer", "inVerbatim") }
	notInVerb := func(c ssa.Value, pol bool) bool { return !pol && loadsField(c, "lexer", "inVerbatim") }
	tokenBoolStore := func(in ssa.Instruction) (*ssa.Store, string) {
		st, ok := in.(*ssa.Store)
		if !ok {
			return nil, ""
		}
		fa, ok := st.Addr.(*ssa.FieldAddr)
		if !ok {
			return nil, ""
		}
		if n := structOf(fa.X.Type()); n == nil || n.Obj().Name() != "Token" {
			return nil, ""
		}
		return st, fieldName(fa.X.Type(), fa.Field)
	}
	// isMark: the store marks the token as verbatim text whenever the lexer is in verbatim mode: the constant true
	// (where the mode is known to be on: underMode), or the mode flag as it is at that moment
	isMark := func(in ssa.Instruction, underMode bool) (string, bool) {
		st, fld := tokenBoolStore(in)
		if st == nil {
			return "", false
		}
		if bv, isC := constBool(st.Val); isC {
			return fld, bv && underMode
		}
		return fld, t2FreshModeLoad(p, st.Val, st)
	}
	for _, f := range cl {
		for _, b := range f.Blocks {
			for _, in := range b.Instrs {
				if st, _ := tokenBoolStore(in); st == nil {
					continue
				}
				if fld, ok := isMark(in, t2GuardedIP(p, run, in, inVerb, 2)); ok {
					marker = fld
				}
			}
		}
	}
	if marker == "" {
		r.Bad("lexer:mark", p.Pos(run.Pos()), "the lexer does not mark the text token it emits inside a verbatim block: the parser cannot tell a verbatim body from ordinary text and applies whitespace control to it")
		return
	}
	// every emit that can happen in verbatim mode is followed by the mark before the verbatim flag is cleared (leaving
	// the mode). An emit under `inVerbatim` is always looked at; one whose mode is not tested on the way (the handling of
	// both tags merged into one path) is looked at when the mode is switched after it.
	for _, f := range cl {
		for _, c := range callsTo(f, emit) {
			in := c.(ssa.Instruction)
			under := t2GuardedIP(p, run, in, inVerb, 2)
			if !under && (t2GuardedIP(p, run, in, notInVerb, 2) || f == emit) {
				continue
			}
			var clears []ssa.Instruction
			for _, b := range f.Blocks {
				for _, x := range b.Instrs {
					if st, isSt := x.(*ssa.Store); isSt && isFieldAddrOf(st.Addr, "lexer", "inVerbatim") {
						if bv, isC := constBool(st.Val); (!isC || !bv) && ReachesInstr(in.Block(), x) && (under || ReachesFromInstr(in, x)) {
							clears = append(clears, x)
						}
					}
				}
			}
			if !under && len(clears) == 0 {
				continue // not part of the verbatim handling (e.g. the flush at the end of the input)
			}
			ok := true
			for _, clear := range clears {
				// paths on which the mode is tested off after the emit carry no verbatim text: not considered
				if !t2MustPassFromEdges(in.Block(), instrIndex(in)+1, clear, func(x ssa.Instruction) bool {
					fld, isM := isMark(x, under)
					return isM && fld == marker
				}, notInVerb) {
					ok = false
				}
			}
			if ok {
				r.OK("lexer:mark", p.InstrPos(in), "the token emitted in verbatim mode gets Token.%s", marker)
			} else {
				r.Bad("lexer:mark", p.InstrPos(in), "a token emitted in verbatim mode can leave the lexer without Token.%s", marker)
			}
		}
	}
	// where the mark is the mode flag as it is when the token is emitted (emit stores l.inVerbatim), the body has to be
	// emitted BEFORE the mode is left: text flushed after `inVerbatim = false` in the same pass is the verbatim body
	// without its mark.
	var flagMarkers []*ssa.Function
	for _, f := range cl {
		for _, b := range f.Blocks {
			for _, in := range b.Instrs {
				if st, fld := tokenBoolStore(in); st != nil && fld == marker {
					if _, isC := constBool(st.Val); !isC && t2FreshModeLoad(p, st.Val, st) {
						flagMarkers = append(flagMarkers, f)
					}
				}
			}
		}
	}
	if len(flagMarkers) > 0 {
		reachesMarker := func(ci ssa.CallInstruction) bool {
			callee := ci.Common().StaticCallee()
			if callee == nil {
				return false
			}
			for _, g := range clusterOf(p, callee, 2) {
				for _, m := range flagMarkers {
					if g == m {
						return true
					}
				}
			}
			return false
		}
		for _, f := range cl {
			for _, b := range f.Blocks {
				for i, x := range b.Instrs {
					st, isSt := x.(*ssa.Store)
					if !isSt || !isFieldAddrOf(st.Addr, "lexer", "inVerbatim") {
						continue
					}
					if bv, isC := constBool(st.Val); isC && bv {
						continue
					}
					// forward from the store within the same pass of the loop: stop at blocks that dominate the store's block
					var late ssa.Instruction
					seenB := map[*ssa.BasicBlock]bool{}
					var walk func(blk *ssa.BasicBlock, from int)
					walk = func(blk *ssa.BasicBlock, from int) {
						for _, y := range blk.Instrs[from:] {
							if ci, ok := y.(ssa.CallInstruction); ok && late == nil && reachesMarker(ci) {
								late = y
							}
						}
						for _, sb := range blk.Succs {
							if seenB[sb] || sb.Dominates(b) {
								continue
							}
							seenB[sb] = true
							walk(sb, 0)
						}
					}
					walk(b, i+1)
					key := p.FuncName(f) + ":leave-after-emit"
					if late == nil {
						r.OK(key, p.InstrPos(x), "nothing is emitted between leaving verbatim mode and the next pass of the scanning loop")
					} else {
						r.Bad(key, p.InstrPos(x), "text is emitted (at %s) after the lexer has left verbatim mode, and the mark is the mode flag as it is at that moment: the body of the verbatim block leaves the lexer unmarked, so neighbouring `-` markers and the block options trim it", p.InstrPos(late))
					}
				}
			}
		}
	}
	// the parser: trim flags only for unmarked tokens
	flags := map[string]bool{}
	if n := p.Named("nodeHTML"); n != nil {
		st := n.Underlying().(*types.Struct)
		for i := 0; i < st.NumFields(); i++ {
			if b, ok := st.Field(i).Type().Underlying().(*types.Basic); ok && b.Kind() == types.Bool {
				flags[st.Field(i).Name()] = true
			}
		}
	}
	nStores := 0
	p.EachInstr(func(f *ssa.Function, in ssa.Instruction) {
		st, ok := in.(*ssa.Store)
		if !ok {
			return
		}
		fa, ok := st.Addr.(*ssa.FieldAddr)
		if !ok || structOf(fa.X.Type()) == nil || structOf(fa.X.Type()).Obj().Name() != "nodeHTML" || !flags[fieldName(fa.X.Type(), fa.Field)] {
			return
		}
		if bv, isC := constBool(st.Val); isC && !bv {
			return
		}
		nStores++
		key := p.FuncName(f) + ":nodeHTML." + fieldName(fa.X.Type(), fa.Field)
		if Guarded(in, func(c ssa.Value, pol bool) bool { return !pol && loadsField(c, "Token", marker) }) {
			r.OK(key, p.InstrPos(in), "set only when the token is not a verbatim body")
		} else {
			r.Bad(key, p.InstrPos(in), "this trim flag can be set for the text of a verbatim block: {{ a -}}{%% verbatim %%}  x{%% endverbatim %%} loses the blanks of the body (or its first newline under TrimBlocks)")
		}
	})
	if nStores == 0 {
		r.Unk("parser:flags", "-", "no store to a bool field of nodeHTML found")
	}
}

// R-C06-REDISPATCH: after the lexer enters or leaves verbatim mode, no rune is consumed before the
// delimiters have been looked for again at the new position, i.e. control returns to the top of the scanning loop.
// (Otherwise the character right after `{% verbatim %}` / `{% endverbatim %}` is skipped unexamined: an empty
// verbatim block never finds its end and a second verbatim block right after the first is taken for a tag.)
func ruleC06Redispatch(p *Prog, a *Anchors, r *Report) {
	r.Begin("R-C06-REDISPATCH", "after every switch into or out of verbatim mode the scanning loop restarts at its head (all delimiters re-examined at the new position) before another rune is consumed", 2)
	run := p.Method("lexer", "run")
	next := p.Method("lexer", "next")
	if run == nil || next == nil {
		r.Unk("anchor", "-", "anchor unresolved: (*lexer).run / next")
		return
	}
	setsMode := map[*ssa.Function]bool{}
	var storesMode func(f *ssa.Function, depth int) bool
	storesMode = func(f *ssa.Function, depth int) bool {
		if f == nil || f.Blocks == nil || depth > 2 {
			return false
		}
		if v, ok := setsMode[f]; ok {
			return v
		}
		setsMode[f] = false
		for _, b := range f.Blocks {
			for _, in := range b.Instrs {
				if st, ok := in.(*ssa.Store); ok && isFieldAddrOf(st.Addr, "lexer", "inVerbatim") {
					setsMode[f] = true
				}
				if c, ok := in.(ssa.CallInstruction); ok && f != run {
					if storesMode(c.Common().StaticCallee(), depth+1) {
						setsMode[f] = true
					}
				}
			}
		}
		return setsMode[f]
	}
	var switches, consumes []ssa.Instruction
	for _, b := range run.Blocks {
		for _, in := range b.Instrs {
			if st, ok := in.(*ssa.Store); ok && isFieldAddrOf(st.Addr, "lexer", "inVerbatim") {
				switches = append(switches, in)
			}
			if c, ok := in.(ssa.CallInstruction); ok {
				callee := c.Common().StaticCallee()
				if callee == next {
					consumes = append(consumes, in)
				} else if callee != nil && callee != run && p.InPkg(callee) && storesMode(callee, 1) {
					switches = append(switches, in)
				}
			}
		}
	}
	if len(consumes) == 0 {
		r.Unk("run:consume", p.Pos(run.Pos()), "no direct call of next() in the scanning loop: the rule's consumption points are not identifiable")
		return
	}
	for i, sw := range switches {
		// innermost natural-loop header dominating the switch
		var hdr *ssa.BasicBlock
		for _, h := range run.Blocks {
			if !h.Dominates(sw.Block()) {
				continue
			}
			back := false
			for _, pr := range h.Preds {
				if h.Dominates(pr) {
					back = true
				}
			}
			if back && (hdr == nil || hdr.Dominates(h)) {
				hdr = h
			}
		}
		key := "run:mode-switch#" + strconv.Itoa(i)
		if st, ok := sw.(*ssa.Store); ok {
			if c, ok := st.Val.(*ssa.Const); ok && c.Value != nil && c.Value.Kind() == constant.Bool {
				key = "run:leave-verbatim"
				if constant.BoolVal(c.Value) {
					key = "run:enter-verbatim"
				}
			}
		} else if c, ok := sw.(ssa.CallInstruction); ok && c.Common().StaticCallee() != nil {
			key = "run:mode-switch via " + c.Common().StaticCallee().Name()
		}
		if hdr == nil {
			r.Unk(key, p.InstrPos(sw), "verbatim mode is switched outside a loop")
			continue
		}
		first := hdr.Instrs[0]
		// the switch happens inside a helper that reports it through its bool result, and run() branches on that result:
		// judged per mode store of the helper, from the edge on which the helper says "switched"
		if c, isCall := sw.(ssa.CallInstruction); isCall && t2RedispatchViaHelper(p, r, next, c, first, consumes) {
			continue
		}
		ok := true
		for _, c := range consumes {
			if !MustPassFrom(sw.Block(), instrIndex(sw)+1, c, func(x ssa.Instruction) bool { return x == first }) {
				ok = false
				r.Bad(key, p.InstrPos(sw), "after this switch of verbatim mode the loop goes on to consume a rune (next() at %s) without re-examining the input at the new position: an end/start tag directly behind it is missed (empty or adjacent verbatim blocks fail to compile)", p.InstrPos(c))
				break
			}
		}
		if ok {
			r.OK(key, p.InstrPos(sw), "control returns to the head of the scanning loop before the next rune is consumed")
		}
	}
}

// ReachesFromInstrAvoiding: can control reach `target` from the start of block `from` without executing `avoid`?
func ReachesFromInstrAvoiding(from *ssa.BasicBlock, target ssa.Instruction, avoid ssa.Instruction) bool {
	return !MustPassFrom(from, 0, target, func(x ssa.Instruction) bool { return x == avoid })
}

// ---- R-C06-VERBTAG -----------------------------------------------------------

// verbDecider: one condition that decides a switch of verbatim mode, as a predicate over "the rest of the input".
type verbDecider struct {
	desc  string
	match func(s string) (end int, ok bool) // end < 0: the decider says nothing about the width
}

// constPatternOf: the constant pattern a *regexp.Regexp value was compiled from (a package variable initialised once
// with regexp.MustCompile(<const>)).
func constPatternOf(p *Prog, v ssa.Value) (string, bool) {
	if u, ok := v.(*ssa.UnOp); ok {
		if g, ok := u.X.(*ssa.Global); ok {
			if ic := globalInitCall(p, g); ic != nil && len(ic.Common().Args) == 1 && ic.Common().StaticCallee() != nil && !p.InPkg(ic.Common().StaticCallee()) {
				if s, ok := constString(ic.Common().Args[0]); ok {
					return s, true
				}
			}
			// compiled by a helper of the package from constants and its (constant) arguments:
			// `reEnd = verbatimTagPattern("endverbatim")` with `return regexp.MustCompile("^" + blanks + name + …)`
			if ic := globalInitCall(p, g); ic != nil {
				if h := ic.Common().StaticCallee(); h != nil && p.InPkg(h) && h.Blocks != nil {
					bind := map[*ssa.Parameter]string{}
					for i, pa := range h.Params {
						if i < len(ic.Common().Args) {
							if s, ok := constString(ic.Common().Args[i]); ok {
								bind[pa] = s
							}
						}
					}
					var eval func(v ssa.Value, d int) (string, bool)
					eval = func(v ssa.Value, d int) (string, bool) {
						if d > 12 {
							return "", false
						}
						if s, ok := constString(v); ok {
							return s, true
						}
						switch x := v.(type) {
						case *ssa.Parameter:
							s, ok := bind[x]
							return s, ok
						case *ssa.BinOp:
							if x.Op == token.ADD {
								l, ok1 := eval(x.X, d+1)
								r, ok2 := eval(x.Y, d+1)
								return l + r, ok1 && ok2
							}
						}
						return stringValueOf(p, v)
					}
					for _, ret := range returnsOf(h) {
						if c, ok := res(ret, 0).(*ssa.Call); ok && c.Common().StaticCallee() != nil && p.extName(c.Common().StaticCallee()) == "regexp.MustCompile" {
							return eval(c.Common().Args[0], 0)
						}
					}
				}
			}
		}
	}
	return "", false
}

// decidersOf: the conditions on whose true edge `in` is reached that are pattern tests of the input; `opaque` is set
// when a condition that is neither such a test nor a test of the mode flag takes part (a hand-written matcher).
//
// mode: when the switch is a toggle (`inVerbatim = !inVerbatim`) the conditions are evaluated once for each value of the
// flag; a pattern chosen by the flag (`re := reStart; if l.inVerbatim { re = reEnd }`) is resolved for that value.
func decidersOf(p *Prog, in ssa.Instruction, mode *bool) (ds []verbDecider, opaque string) {
	seen := map[ssa.Value]bool{}
	eachDominatingCond(in, func(c ssa.Value, pol bool) bool {
		if seen[c] {
			return false
		}
		switch x := c.(type) {
		case *ssa.Extract:
			// `w, ok := l.matchTag(re); ok`: a helper of the package that answers whether its pattern parameter matches
			// at the position (FindStringIndex != nil) and how wide the match is
			hc, isCall := x.Tuple.(*ssa.Call)
			if !isCall || !pol || hc.Common().StaticCallee() == nil || !p.InPkg(hc.Common().StaticCallee()) {
				return false
			}
			h := hc.Common().StaticCallee()
			if b, isB := x.Type().Underlying().(*types.Basic); !isB || b.Kind() != types.Bool {
				return false
			}
			if pi := matchHelperPatternParam(p, h, x.Index); pi >= 0 {
				args := callArgs(hc.Common())
				if pi < len(args) {
					if pat, isC := t2PatternUnderMode(p, args[pi], mode, hc, in); isC {
						if re, err := regexp.Compile(pat); err == nil {
							seen[c] = true
							ds = append(ds, verbDecider{"FindStringIndex " + strconv.Quote(pat) + " (in " + h.Name() + ")", func(s string) (int, bool) {
								loc := re.FindStringIndex(s)
								if loc == nil || loc[0] != 0 {
									return 0, false
								}
								return loc[1], true
							}})
							return false
						}
					}
				}
			}
			opaque = "the result of " + h.Name()
			opaqueFns[opaque] = h
		case *ssa.Call:
			cal := x.Common().StaticCallee()
			if cal == nil {
				return false
			}
			switch p.extName(cal) {
			case "strings.HasPrefix":
				if k, isC := constString(x.Common().Args[1]); isC && pol {
					seen[c] = true
					ds = append(ds, verbDecider{"HasPrefix " + strconv.Quote(k), func(s string) (int, bool) {
						if strings.HasPrefix(s, k) {
							return len(k), true
						}
						return 0, false
					}})
				}
			case "(*regexp.Regexp).MatchString":
				if pat, isC := t2PatternUnderMode(p, x.Common().Args[0], mode, x, in); isC && pol {
					if re, err := regexp.Compile(pat); err == nil {
						seen[c] = true
						ds = append(ds, verbDecider{"MatchString " + strconv.Quote(pat), func(s string) (int, bool) { return -1, re.MatchString(s) }})
					}
				}
			default:
				if p.InPkg(cal) && pol {
					opaque = "call of " + cal.Name()
					opaqueFns[opaque] = cal
				}
			}
		case *ssa.BinOp:
			// a comparison of what a package function computed from the input: a hand-written matcher
			var inPkgCall func(v ssa.Value, d int) string
			inPkgCall = func(v ssa.Value, d int) string {
				if d > 3 {
					return ""
				}
				switch y := v.(type) {
				case *ssa.Call:
					if cal := y.Common().StaticCallee(); cal != nil && p.InPkg(cal) {
						opaqueFns["a comparison of the result of "+cal.Name()] = cal
						return cal.Name()
					}
				case *ssa.Extract:
					return inPkgCall(y.Tuple, d+1)
				case *ssa.BinOp:
					if n := inPkgCall(y.X, d+1); n != "" {
						return n
					}
					return inPkgCall(y.Y, d+1)
				case *ssa.UnOp:
					return inPkgCall(y.X, d+1)
				}
				return ""
			}
			if n := inPkgCall(x, 0); n != "" {
				opaque = "a comparison of the result of " + n
				return false
			}
			// loc := re.FindStringIndex(rest); loc != nil
			if x.Op != token.NEQ && x.Op != token.EQL {
				return false
			}
			call, isCall := x.X.(*ssa.Call)
			if !isCall || !isNilConst(x.Y) || call.Common().StaticCallee() == nil {
				return false
			}
			if p.extName(call.Common().StaticCallee()) == "(*regexp.Regexp).FindStringIndex" && (x.Op == token.NEQ) == pol {
				if pat, isC := t2PatternUnderMode(p, call.Common().Args[0], mode, call, in); isC {
					if re, err := regexp.Compile(pat); err == nil {
						seen[c] = true
						ds = append(ds, verbDecider{"FindStringIndex " + strconv.Quote(pat), func(s string) (int, bool) {
							loc := re.FindStringIndex(s)
							if loc == nil || loc[0] != 0 {
								return 0, false
							}
							return loc[1], true
						}})
					}
				}
			}
		}
		return false
	})
	return ds, opaque
}

// ruleC06VerbatimTags: "the body of a verbatim block is emitted literally and never interpreted": the lexer enters the
// mode exactly at a verbatim tag and leaves it exactly at an endverbatim tag, in every spelling a tag may have
// (`{%verbatim%}`, `{%  endverbatim  %}`), and at nothing else. The conditions that guard the two mode switches are
// constant patterns; they are evaluated here on every string of up to 6 items over
// {"{%", "%}", " ", "\t", "verbatim", "endverbatim", "x", "-"} and compared with `{%` blanks* NAME blanks* `%}`.
func ruleC06VerbatimTags(p *Prog, a *Anchors, r *Report) {
	r.Begin("R-C06-VERBTAG", "the conditions under which the lexer enters/leaves verbatim mode, evaluated as constant patterns on all strings of up to 6 items over {{%,%},verbatim,endverbatim,x,-} and the blanks of the tag language (space, tab, CR), hold exactly for `{%` blanks* (end)verbatim blanks* `%}` at the position, and the lexer advances by exactly the tag", 2)
	run := p.Method("lexer", "run")
	if run == nil {
		r.Unk("anchor", "-", "anchor unresolved: (*lexer).run")
		return
	}
	// the blanks of the tag language: the lexer's own set of white space (tokenSpaceChars) without the line feed, which
	// no tag may contain — space, tab and CR on the pinned tree. A verbatim tag is "like any other tag": what may stand
	// around the name of an `if` may stand around `verbatim` ({%\rendverbatim\r%} must end the block)
	blanks := " \t\r"
	if c, ok := p.Pkg.Types.Scope().Lookup("tokenSpaceChars").(*types.Const); ok && c.Val().Kind() == constant.String {
		blanks = strings.ReplaceAll(constant.StringVal(c.Val()), "\n", "")
	}
	blankClass := "[" + regexp.QuoteMeta(blanks) + "]"
	alphabet := []string{"{%", "%}", "verbatim", "endverbatim", "x", "-"}
	for _, b := range blanks {
		alphabet = append(alphabet, string(b))
	}
	var inputs []string
	var gen func(prefix string, left int)
	gen = func(prefix string, left int) {
		inputs = append(inputs, prefix)
		if left == 0 {
			return
		}
		for _, ch := range alphabet {
			gen(prefix+ch, left-1)
		}
	}
	gen("", 6)
	// judge: one switch of the mode (the store `in` of function f, for a toggle under the assumption *mode about the flag
	// before it) against the tag `name`; the deciding conditions are those of the store's own function and, when that is
	// a helper of run(), those at its call sites (one evaluation per call path)
	judge := func(f *ssa.Function, b *ssa.BasicBlock, in ssa.Instruction, name, key string, mode *bool) {
		for _, ctx := range t2DeciderContexts(p, run, in, mode, 2) {
			ds, opaque := ctx.ds, ctx.opaque
			ref := regexp.MustCompile(`^\{%` + blankClass + `*` + name + blankClass + `*%\}`)
			// a tag that carries a block NAME is outside what the property speaks about (the engine may refuse it, or
			// implement Django's named verbatim blocks): not compared
			named := regexp.MustCompile(`^\{%` + blankClass + `*` + name + blankClass + `+[A-Za-z0-9_]+` + blankClass + `*%\}`)
			if opaque != "" {
				// a hand-written matcher is not evaluated — but one that strips white space with a Unicode primitive
				// accepts more than the blanks of the tag language (TrimSpace takes LF, VT, FF, NBSP … as well): a
				// look-alike of the end tag inside the body then ends the block
				if prim := usesUnicodeSpace(p, opaqueFns[opaque], 0); prim != "" {
					r.Bad(key, p.InstrPos(in), "the switch is decided by %s, which strips white space with %s: that takes line feed, VT, FF, NBSP and every other Unicode space as a blank, the tag language only %q — `{%%\\n\\tend"+"verbatim %%}` or `{%% endverbatim\\f%%}` inside the body of a verbatim block ends it, the bytes vanish and what follows is interpreted", opaque, prim, blanks)
					continue
				}
				r.Assume(key, p.InstrPos(in), "the switch is (also) decided by %s, not by constant patterns: what it accepts is not evaluated here", opaque)
				continue
			}
			if len(ds) == 0 {
				r.Unk(key, p.InstrPos(in), "no pattern test of the input guards the switch")
				continue
			}
			bad := ""
			for _, s := range inputs {
				if named.MatchString(s) {
					continue
				}
				all, end := true, -1
				for _, d := range ds {
					e, ok := d.match(s)
					if !ok {
						all = false
						break
					}
					if e >= 0 && e > end {
						end = e
					}
				}
				loc := ref.FindStringIndex(s)
				if all != (loc != nil) {
					bad = fmt.Sprintf("at %q the lexer %s although the text %s", s, map[bool]string{true: "switches", false: "does not switch"}[all], map[bool]string{true: "starts with the tag", false: "does not start with the tag"}[loc != nil])
					break
				}
				if all && end >= 0 && end != loc[1] {
					bad = fmt.Sprintf("at %q the patterns cover %d bytes, the tag has %d", s, end, loc[1])
					break
				}
			}
			var descs []string
			for _, d := range ds {
				descs = append(descs, d.desc)
			}
			if bad != "" {
				r.Bad(key, p.InstrPos(in), "%s (deciders: %s): a tag written without/with more blanks is not recognised — the block does not end, or its body is interpreted", bad, strings.Join(descs, " and "))
			} else {
				r.OK(key, p.InstrPos(in), "%s accept exactly `{%%` blanks* %s blanks* `%%}` on %d strings", strings.Join(descs, " and "), name, len(inputs))
			}
			// the advance: pos is moved by the end of the match (or by the length of the constant that was matched)
			adv := false
			for _, bb := range f.Blocks {
				if !b.Dominates(bb) && bb != b {
					continue
				}
				for _, x := range bb.Instrs {
					s2, isSt := x.(*ssa.Store)
					if !isSt || !isFieldAddrOf(s2.Addr, "lexer", "pos") || bb != b {
						continue
					}
					bo, isBo := s2.Val.(*ssa.BinOp)
					if !isBo || bo.Op != token.ADD {
						continue
					}
					adv = true
					w := bo.Y
					wkey := strings.TrimSuffix(key, ":tag") + ":width"
					switch wv := w.(type) {
					case *ssa.Const:
						n, _ := constInt(wv)
						okW := false
						for _, d := range ds {
							if strings.HasPrefix(d.desc, "HasPrefix ") {
								if uq, err := strconv.Unquote(strings.TrimPrefix(d.desc, "HasPrefix ")); err == nil && int64(len(uq)) == n && ref.MatchString(uq) {
									okW = true
								}
							}
						}
						if okW {
							r.OK(wkey, p.InstrPos(x), "advances by the length of the constant that was matched")
						} else {
							r.Bad(wkey, p.InstrPos(x), "the lexer advances by the constant %d, which is not the length of what was matched: with another spelling of the tag part of it is emitted as text or text is swallowed", n)
						}
					default:
						// loc[1]: a load of index 1 of the FindStringIndex result
						okW := false
						if u, isU := w.(*ssa.UnOp); isU {
							if ia, isIA := u.X.(*ssa.IndexAddr); isIA {
								if idx, isK := constInt(ia.Index); isK && idx == 1 {
									if c, isCall := ia.X.(*ssa.Call); isCall && c.Common().StaticCallee() != nil && p.extName(c.Common().StaticCallee()) == "(*regexp.Regexp).FindStringIndex" {
										okW = true
									}
								}
							}
						}
						if okW {
							r.OK(wkey, p.InstrPos(x), "advances by the end of the match")
						} else {
							r.Assume(wkey, p.InstrPos(x), "the advance %s is not one of the two shapes evaluated here (end of the match, length of the matched constant): not decided", p.VN(w))
						}
					}
				}
			}
			if !adv {
				r.Assume(strings.TrimSuffix(key, ":tag")+":width", p.InstrPos(in), "the position is not advanced in the block of the mode switch: the width is not decided")
			}
		}
	}
	for _, f := range clusterOf(p, run, 2) {
		for _, b := range f.Blocks {
			for _, in := range b.Instrs {
				st, ok := in.(*ssa.Store)
				if !ok || !isFieldAddrOf(st.Addr, "lexer", "inVerbatim") {
					continue
				}
				k, isC := st.Val.(*ssa.Const)
				if !isC || k.Value == nil || k.Value.Kind() != constant.Bool {
					// `inVerbatim = !inVerbatim`: leaves the mode when it is on, enters it when it is off
					if t2IsToggle(p, st) {
						on, off := true, false
						judge(f, b, in, "endverbatim", "run:leave-verbatim:tag", &on)
						judge(f, b, in, "verbatim", "run:enter-verbatim:tag", &off)
						continue
					}
					r.Unk("run:mode-switch", p.InstrPos(in), "verbatim mode is set to a computed value")
					continue
				}
				name, key := "endverbatim", "run:leave-verbatim:tag"
				if constant.BoolVal(k.Value) {
					name, key = "verbatim", "run:enter-verbatim:tag"
				}
				judge(f, b, in, name, key, nil)
			}
		}
	}
}

// eachDominatingCond calls fn for every branch condition that holds (with the given polarity) whenever `in` executes:
// the conditions of the blocks dominating in whose taken successor has that block as its only predecessor and
// dominates in's block. Negations are normalised.
func eachDominatingCond(in ssa.Instruction, fn func(c ssa.Value, pol bool) bool) {
	b := in.Block()
	for _, d := range b.Parent().Blocks {
		if d == b || !d.Dominates(b) || len(d.Instrs) == 0 {
			continue
		}
		iff, ok := d.Instrs[len(d.Instrs)-1].(*ssa.If)
		if !ok {
			continue
		}
		for i, s := range d.Succs {
			if len(s.Preds) == 1 && s.Dominates(b) {
				c, pol := normCond(iff.Cond, i == 0)
				fn(c, pol)
				for _, cj := range expandShortCircuit(c, pol, 0) {
					fn(cj.c, cj.pol)
				}
			}
		}
	}
}

// ruleC06RawSource: a template is rendered from what was compiled, never from its source text: the field of Template that
// holds the source (the one whose content is handed to the lexer) is not read by anything execution can reach. A fast
// path that copies the source of a "static" template to the output renders its `{# #}` comments (and whatever else the
// lexer would have taken out) verbatim.
func ruleC06RawSource(p *Prog, a *Anchors, r *Report) {
	r.Begin("R-C06-RAWSRC", "the source text kept in a Template (the field handed to the lexer) is read only while compiling: no function reachable from execution loads it", 1)
	// the source field: string fields of Template whose load is an argument of a call that (transitively, depth 2)
	// stores a parameter into lexer.input
	tn := p.Named("Template")
	if tn == nil {
		r.Unk("anchor", "-", "anchor unresolved: Template")
		return
	}
	feedsLexer := map[*ssa.Function]map[int]bool{}
	p.EachInstr(func(f *ssa.Function, in ssa.Instruction) {
		st, ok := in.(*ssa.Store)
		if !ok || !isFieldAddrOf(st.Addr, "lexer", "input") {
			return
		}
		v := stripLoad(st.Val)
		if cv, isCv := v.(*ssa.Convert); isCv {
			v = stripLoad(cv.X)
		}
		if pa, isP := v.(*ssa.Parameter); isP {
			if feedsLexer[f] == nil {
				feedsLexer[f] = map[int]bool{}
			}
			feedsLexer[f][indexOfParam(f, pa)] = true
		}
	})
	fields := map[string]bool{}
	p.EachInstr(func(f *ssa.Function, in ssa.Instruction) {
		c, ok := in.(*ssa.Call)
		if !ok || c.Common().StaticCallee() == nil {
			return
		}
		idxs := feedsLexer[c.Common().StaticCallee()]
		args := callArgs(c.Common())
		for i := range idxs {
			if i < len(args) {
				v0 := stripLoad(args[i])
				v := v0
				if cv, isCv := v.(*ssa.Convert); isCv {
					v = stripLoad(cv.X)
				}
				if _, n, fld := fieldLoadBase(v); n != nil && n.Obj().Name() == "Template" {
					fields[fld] = true
				}
				// … or the same value is also kept in the Template under construction
				for _, bb := range f.Blocks {
					for _, x := range bb.Instrs {
						if st, isSt := x.(*ssa.Store); isSt && (stripLoad(st.Val) == v || stripLoad(st.Val) == v0) {
							if fa, isFA := st.Addr.(*ssa.FieldAddr); isFA {
								if n := structOf(fa.X.Type()); n != nil && n.Obj().Name() == "Template" {
									fields[fieldName(fa.X.Type(), fa.Field)] = true
								}
							}
						}
					}
				}
			}
		}
	})
	if len(feedsLexer) == 0 {
		r.Unk("source-field", "-", "anchor unresolved: no function stores a parameter into lexer.input")
		return
	}
	if len(fields) == 0 {
		r.Trivial("source-field", "-", "no field of Template keeps the text that is handed to the lexer")
		return
	}
	reach := a.ExecReach()
	bad := false
	for _, f := range p.inPkgFuncsSorted(p.allFuncSet()) {
		if !reach[f] && !reach[topLevel(f)] {
			continue
		}
		for _, b := range f.Blocks {
			for _, in := range b.Instrs {
				u, ok := in.(*ssa.UnOp)
				if !ok {
					continue
				}
				if _, n, fld := fieldLoadBase(u); n != nil && n.Obj().Name() == "Template" && fields[fld] {
					bad = true
					r.Bad(p.FuncName(f)+":reads Template."+fld, p.InstrPos(in), "execution reads the source text of a template (Template.%s): what is rendered from it has not been through the lexer, so comments, verbatim tags and delimiters in it are copied out as they are", fld)
				}
			}
		}
	}
	if !bad {
		var fs []string
		for f := range fields {
			fs = append(fs, f)
		}
		sort.Strings(fs)
		r.OK("source-field", "-", "Template.%s is read by the lexer's construction only; nothing reachable from execution loads it", strings.Join(fs, "/"))
	}
}

var opaqueFns = map[string]*ssa.Function{}

// usesUnicodeSpace: g (or a function of the package it calls, two levels) strips or tests white space with a primitive
// that knows the Unicode White_Space property: its name.
func usesUnicodeSpace(p *Prog, g *ssa.Function, depth int) string {
	if g == nil || g.Blocks == nil || depth > 2 {
		return ""
	}
	for _, b := range g.Blocks {
		for _, in := range b.Instrs {
			c, ok := in.(*ssa.Call)
			if !ok || c.Common().StaticCallee() == nil {
				// a function value handed on: strings.TrimFunc(s, unicode.IsSpace)
				continue
			}
			cal := c.Common().StaticCallee()
			switch nm := p.extName(cal); nm {
			case "strings.TrimSpace", "strings.Fields", "unicode.IsSpace", "bytes.TrimSpace", "bytes.Fields":
				return nm
			}
			for _, a := range c.Common().Args {
				if fn, isFn := a.(*ssa.Function); isFn && p.extName(fn) == "unicode.IsSpace" {
					return "unicode.IsSpace"
				}
			}
			if p.InPkg(cal) {
				if s := usesUnicodeSpace(p, cal, depth+1); s != "" {
					return s
				}
			}
		}
	}
	return ""
}

// matchHelperPatternParam: h answers through its bool result #bi whether a *regexp.Regexp parameter matches
// (FindStringIndex(...) != nil on the true returns, nil on the false ones): the index of that parameter among the call's
// arguments (receiver included), else -1.
func matchHelperPatternParam(p *Prog, h *ssa.Function, bi int) int {
	if h == nil || h.Blocks == nil {
		return -1
	}
	var find *ssa.Call
	for _, b := range h.Blocks {
		for _, in := range b.Instrs {
			if c, ok := in.(*ssa.Call); ok && c.Common().StaticCallee() != nil && p.extName(c.Common().StaticCallee()) == "(*regexp.Regexp).FindStringIndex" {
				if find != nil {
					return -1
				}
				find = c
			}
		}
	}
	if find == nil {
		return -1
	}
	pa, ok := find.Common().Args[0].(*ssa.Parameter)
	if !ok {
		return -1
	}
	for _, ret := range returnsOf(h) {
		if bi >= len(ret.Results) {
			return -1
		}
		k, isK := constBool(res(ret, bi))
		if !isK {
			return -1
		}
		// true only where the match was found, false only where it was not
		nonNil := Guarded(ret, func(c ssa.Value, pol bool) bool {
			x, eq, isNil := condIsNilTest(c)
			return isNil && x == ssa.Value(find) && eq != pol
		})
		isNilEdge := Guarded(ret, func(c ssa.Value, pol bool) bool {
			x, eq, isNil := condIsNilTest(c)
			return isNil && x == ssa.Value(find) && eq == pol
		})
		if (k && !nonNil) || (!k && !isNilEdge) {
			return -1
		}
	}
	return indexOfParam(h, pa)
}
