package main

// report.go: obligations, known findings, VIOLATION / KNOWN-FINDING lines, evidence files.

import (
	"crypto/sha1"
	"encoding/json"
	"fmt"
	"os"
	"path/filepath"
	"sort"
	"strings"
)

type Verdict string

const (
	Discharged  Verdict = "discharged"  // the rule's condition was established for this construct
	Violated    Verdict = "violated"    // the construct breaks the rule
	Undecided   Verdict = "undecided"   // the checker met an idiom it cannot classify: fails the check
	Assumed     Verdict = "assumed"     // reviewed exception from a table, with reason (never counted as discharged)
	Unreachable Verdict = "unreachable" // construct exists but cannot be reached from the relevant entries
	Info        Verdict = "info"        // informational note, never fails
)

type Oblig struct {
	Rule       string  `json:"rule"`
	Key        string  `json:"construct"` // position-free construct key
	Pos        string  `json:"pos"`
	Verdict    Verdict `json:"verdict"`
	Reason     string  `json:"reason"`
	NonTrivial bool    `json:"nontrivial"`
}

type RuleStat struct {
	Rule      string `json:"rule"`
	What      string `json:"what"`
	Instances int    `json:"instances"`
	Floor     int    `json:"floor"`
}

type Report struct {
	Property string
	Obligs   []Oblig
	Rules    []RuleStat
	Notes    []string
	Extra    map[string]any
	curRule  string
	keyCount map[string]int
}

func NewReport(prop string) *Report {
	return &Report{Property: prop, Extra: map[string]any{}, keyCount: map[string]int{}}
}

// Begin starts a rule; floor is the minimal number of instances below which the rule is considered vacuous.
func (r *Report) Begin(rule, what string, floor int) {
	r.Rules = append(r.Rules, RuleStat{Rule: rule, What: what, Floor: floor})
	r.curRule = rule
}

func (r *Report) add(key, pos string, v Verdict, nontrivial bool, format string, args ...any) {
	must(r.curRule != "", "obligation outside a rule")
	// make keys unique per rule by ordinal (construct keys never contain line numbers)
	full := r.curRule + "|" + key
	r.keyCount[full]++
	if n := r.keyCount[full]; n > 1 {
		key = fmt.Sprintf("%s#%d", key, n)
	}
	r.Obligs = append(r.Obligs, Oblig{Rule: r.curRule, Key: key, Pos: pos, Verdict: v, Reason: fmt.Sprintf(format, args...), NonTrivial: nontrivial})
	// (the placeholder "nothing of the kind in the tree" is no instance: a rule that saw instances when it was written
	// and sees none any more is vacuous, whatever it says about the empty set)
	if v != Info && !(key == "none" && !nontrivial) {
		r.Rules[len(r.Rules)-1].Instances++
	}
}

func (r *Report) OK(key, pos string, format string, args ...any) {
	r.add(key, pos, Discharged, true, format, args...)
}
func (r *Report) Trivial(key, pos string, format string, args ...any) {
	r.add(key, pos, Discharged, false, format, args...)
}
func (r *Report) Bad(key, pos string, format string, args ...any) {
	r.add(key, pos, Violated, true, format, args...)
}
func (r *Report) Unk(key, pos string, format string, args ...any) {
	r.add(key, pos, Undecided, true, format, args...)
}
func (r *Report) Assume(key, pos string, format string, args ...any) {
	r.add(key, pos, Assumed, true, format, args...)
}
func (r *Report) Dead(key, pos string, format string, args ...any) {
	r.add(key, pos, Unreachable, false, format, args...)
}
func (r *Report) Note(format string, args ...any) {
	r.Notes = append(r.Notes, fmt.Sprintf(format, args...))
}

// Known findings --------------------------------------------------------

type KnownFinding struct {
	Property      string `json:"property"`
	Rule          string `json:"rule"`
	Construct     string `json:"construct"`
	WhatFails     string `json:"what_fails"`
	Demonstration string `json:"demonstration"`
}

type KnownFile struct {
	Comment  string         `json:"comment"`
	Findings []KnownFinding `json:"findings"`
	Fixed    []string       `json:"fixed"`
}

func loadKnown(path string) (*KnownFile, error) {
	kf := &KnownFile{}
	b, err := os.ReadFile(path)
	if err != nil {
		if os.IsNotExist(err) {
			return kf, nil
		}
		return nil, err
	}
	if err := json.Unmarshal(b, kf); err != nil {
		return nil, fmt.Errorf("%s: %v", path, err)
	}
	return kf, nil
}

// Finish prints the verdict lines, writes evidence and returns the exit code.
func (r *Report) Finish(o *RunOpts, p *Prog, wall float64) int {
	kf, err := loadKnown(filepath.Join(o.VerifDir, "known_findings.json"))
	if err != nil {
		fmt.Printf("ERROR cannot read known findings: %v\n", err)
		return 2
	}
	known := map[string]KnownFinding{}
	for _, k := range kf.Findings {
		if k.Property == r.Property {
			known[k.Rule+"|"+k.Construct] = k
		}
	}
	// vacuity guards
	for _, rs := range r.Rules {
		if rs.Instances < rs.Floor {
			r.curRule = rs.Rule
			r.Obligs = append(r.Obligs, Oblig{Rule: rs.Rule, Key: "vacuity", Pos: "-", Verdict: Undecided, NonTrivial: true,
				Reason: fmt.Sprintf("rule matched %d instances, floor is %d: the rule no longer sees the code it was written for", rs.Instances, rs.Floor)})
		}
	}
	sort.SliceStable(r.Obligs, func(i, j int) bool {
		a, b := r.Obligs[i], r.Obligs[j]
		if a.Rule != b.Rule {
			return a.Rule < b.Rule
		}
		return a.Key < b.Key
	})
	counts := map[Verdict]int{}
	nontrivial := map[string]bool{}
	var violations, knownHits []Oblig
	for _, ob := range r.Obligs {
		counts[ob.Verdict]++
		if ob.NonTrivial && ob.Verdict != Info {
			nontrivial[ob.Rule+"|"+ob.Key] = true
		}
		if ob.Verdict == Violated || ob.Verdict == Undecided {
			if k, ok := known[ob.Rule+"|"+ob.Key]; ok && ob.Verdict == Violated {
				knownHits = append(knownHits, ob)
				fmt.Printf("KNOWN-FINDING: property=%s %s [%s %s at %s]\n", r.Property, k.WhatFails, ob.Rule, ob.Key, ob.Pos)
			} else {
				violations = append(violations, ob)
			}
		}
	}
	vdir := filepath.Join(o.VerifDir, "evidence", "violations")
	for _, ob := range violations {
		h := sha1.Sum([]byte(ob.Rule + "|" + ob.Key))
		path := filepath.Join(vdir, fmt.Sprintf("%s-%s-%x.json", r.Property, ob.Rule, h[:5]))
		os.MkdirAll(vdir, 0o755)
		rec := map[string]any{
			"property": r.Property, "rule": ob.Rule, "construct": ob.Key, "pos": ob.Pos, "verdict": ob.Verdict, "reason": ob.Reason,
			"repo": o.Repo, "rerun": fmt.Sprintf("cd %s && ./bin/pongocheck -replay %s", o.VerifDir, path),
		}
		b, _ := json.MarshalIndent(rec, "", " ")
		os.WriteFile(path, b, 0o644)
		fmt.Printf("  %s %s: %s at %s: %s\n", strings.ToUpper(string(ob.Verdict)), ob.Rule, ob.Key, ob.Pos, ob.Reason)
		fmt.Printf("VIOLATION property=%s replay=%s\n", r.Property, path)
	}

	// evidence
	var samples []Oblig
	perRule := map[string]int{}
	for _, ob := range r.Obligs {
		if ob.Verdict == Info {
			continue
		}
		if perRule[ob.Rule] < 3 && (ob.NonTrivial || perRule[ob.Rule] == 0) {
			perRule[ob.Rule]++
			samples = append(samples, ob)
		}
	}
	if len(samples) > 60 {
		samples = samples[:60]
	}
	var bad []Oblig
	bad = append(bad, violations...)
	bad = append(bad, knownHits...)
	var assumedList []Oblig
	for _, ob := range r.Obligs {
		if ob.Verdict == Assumed {
			assumedList = append(assumedList, ob)
		}
	}
	total := len(r.Obligs) - counts[Info]
	cov := map[string]any{
		"explanation":         explanationFor(r.Property),
		"rule":                "every obligation is one (rule, construct) pair derived from /repo's current SSA/AST; non-trivial = the verdict needed a guard, provenance, effect or table argument (not discharged by 'constant' or 'unreachable'); distinct = distinct (rule, construct key)",
		"evaluations":         total,
		"distinct_nontrivial": len(nontrivial),
		"obligations":         total,
		"discharged":          counts[Discharged],
		"assumed":             counts[Assumed],
		"unreachable":         counts[Unreachable],
		"undecided":           counts[Undecided],
		"violated":            counts[Violated],
		"known_findings":      len(knownHits),
		"samples":             samples,
		"failing":             bad,
		"assumed_list":        assumedList,
		"rules":               r.Rules,
		"notes":               r.Notes,
		"checker_cmd":         fmt.Sprintf("./bin/pongocheck -property %s -tier %s", r.Property, o.Tier),
		"trusted_base":        trustedBase,
		"exhaustive":          true,
		"declined":            declinedFor(r.Property),
	}
	if p != nil {
		cov["functions_analysed"] = len(p.Funcs)
		cov["configuration"] = p.Config
		cov["timing_s"] = p.Timing
		if p.CG != nil {
			cov["callgraph_nodes"] = len(p.CG.Nodes)
		}
	}
	for k, v := range r.Extra {
		cov[k] = v
	}
	ev := map[string]any{
		"property_id": r.Property,
		"tier":        o.Tier,
		"seed":        o.Seed,
		"level":       "other",
		"coverage":    cov,
		"assumptions": assumptions,
		"wall_s":      wall,
		"violations":  len(violations),
	}
	b, _ := json.MarshalIndent(ev, "", " ")
	os.MkdirAll(filepath.Join(o.VerifDir, "evidence"), 0o755)
	epath := filepath.Join(o.VerifDir, "evidence", r.Property+".json")
	if err := os.WriteFile(epath, b, 0o644); err != nil {
		fmt.Printf("ERROR cannot write evidence: %v\n", err)
		return 2
	}
	fmt.Printf("%s tier=%s obligations=%d discharged=%d assumed=%d unreachable=%d known=%d violations=%d (%.1fs) evidence=%s\n",
		r.Property, o.Tier, total, counts[Discharged], counts[Assumed], counts[Unreachable], len(knownHits), len(violations), wall, epath)
	for _, rs := range r.Rules {
		fmt.Printf("  rule %-14s instances=%-4d floor=%-3d %s\n", rs.Rule, rs.Instances, rs.Floor, rs.What)
	}
	if len(violations) > 0 {
		return 1
	}
	return 0
}

var trustedBase = []string{
	"go/types, go/ssa and callgraph/vta of golang.org/x/tools v0.29.0",
	"the reflect kind table transcribed from the reflect package documentation",
	"the specification tables embedded in the checker (grammar levels, entities, templatetag, reserved sets)",
	"ownership classification of memory by Go type (compiled-tree / per-execution / set state)",
}

var assumptions = []string{
	"no unsafe and no reflect.Value.Set* in the engine package (checked: count 0)",
	"user-supplied Go functions, fmt.Stringers, loaders and writers are outside the engine",
	"exported mutable package variables (TokenSymbols, TokenKeywords) are not reassigned by clients",
	"configuration API (BanTag, BanFilter, AddLoader, Register*, Replace*, SetAutoescape) is not called concurrently with rendering",
	"static verdicts concern structural necessary conditions; the declined behavioural clauses are listed under coverage.declined",
}
