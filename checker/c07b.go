package main

// R-C07-EQKINDS: `==` / `!=` compare what the operands hold. The evaluator's == calls one method of Value; for every
// family of kinds that has a normalising accessor (Integer, Float, String, Bool) that method has to compare through the
// accessor when BOTH operands are of the family — a comparison of the boxed Go values answers false for int8 vs int,
// float32 vs float64, a named string type vs string, *bool vs bool, although `<=` and `>=` (which go through the
// accessors) both hold.

import (
	"go/token"
	"go/types"
	"sort"
	"strings"

	"golang.org/x/tools/go/ssa"
)

func ruleC07EqKinds(p *Prog, a *Anchors, r *Report) {
	r.Begin("R-C07-EQKINDS", "the method `==` is evaluated with compares integers, floats, strings and booleans by the value their accessor yields whenever both operands are of that family (never as boxed Go values of possibly different types)", 4)
	eq := p.Method("Value", "EqualValueTo")
	if eq == nil || len(eq.Params) < 2 {
		r.Unk("method", "-", "anchor unresolved: (*Value).EqualValueTo")
		return
	}
	cluster := clusterOf(p, eq, 1)
	// predicate calls on the receiver / on the other operand
	type side struct{ recv, other bool }
	preds := map[string]*side{}
	isParamOf := func(v ssa.Value, f *ssa.Function, idx int) bool {
		v = unspillParam(v)
		return idx < len(f.Params) && v == ssa.Value(f.Params[idx])
	}
	for _, f := range cluster {
		for _, b := range f.Blocks {
			for _, in := range b.Instrs {
				c, ok := in.(*ssa.Call)
				if !ok || c.Common().StaticCallee() == nil || len(c.Common().Args) == 0 {
					continue
				}
				callee := c.Common().StaticCallee()
				if callee.Signature.Recv() == nil || structOf(callee.Signature.Recv().Type()) != structOf(eq.Signature.Recv().Type()) || !strings.HasPrefix(callee.Name(), "Is") {
					continue
				}
				s := preds[callee.Name()]
				if s == nil {
					s = &side{}
					preds[callee.Name()] = s
				}
				// in the method itself: receiver / parameter; in a helper of the cluster: first / second Value parameter
				if isParamOf(c.Common().Args[0], f, 0) {
					s.recv = true
				}
				if isParamOf(c.Common().Args[0], f, 1) {
					s.other = true
				}
			}
		}
	}
	// a method written over reflect kinds directly is another idiom
	kindSwitch := false
	for _, b := range eq.Blocks {
		for _, in := range b.Instrs {
			if c, ok := in.(*ssa.Call); ok && c.Common().StaticCallee() != nil && c.Common().StaticCallee().Name() == "Kind" && c.Common().StaticCallee().Pkg != nil && c.Common().StaticCallee().Pkg.Pkg.Path() == "reflect" {
				kindSwitch = true
			}
		}
	}
	ruleC07EqExact(p, r, eq)
	ruleC07BoxedLast(p, r, eq)
	families := map[string][]string{
		"integers": {"IsInteger"},
		"floats":   {"IsFloat", "IsNumber"},
		"strings":  {"IsString"},
		"booleans": {"IsBool"},
	}
	var names []string
	for n := range families {
		names = append(names, n)
	}
	sort.Strings(names)
	for _, n := range names {
		found := ""
		for _, pr := range families[n] {
			if s := preds[pr]; s != nil && s.recv && s.other {
				found = pr
			}
		}
		if found == "" && kindSwitch {
			r.Assume(n, p.Pos(eq.Pos()), "%s decides by reflect kinds itself instead of the Is… predicates; the rule cannot relate that shape to the accessor families", p.FuncName(eq))
			continue
		}
		if found != "" {
			r.OK(n, p.Pos(eq.Pos()), "both operands are asked %s(): the family is compared through its accessor", found)
		} else {
			r.Bad(n, p.Pos(eq.Pos()), "%s never asks both operands whether they are %s: they are compared as boxed Go values, so two equal %s held in different Go types (float32 and float64, a named type and its base type, a pointer and a value) are `!=` although `<=` and `>=` both hold", p.FuncName(eq), n, n)
		}
	}
}

// ruleC07EqExact (an obligation of R-C07-EQKINDS): Value.Integer() saturates — every unsigned value no int holds is the
// largest int — so equality of two integers must not be the bare comparison of the two accessor results: two
// different huge unsigned values would be `==` (and ifchanged would not see the change). Where the method returns
// Integer() == Integer() of its operands as its answer, that is reported.
func ruleC07EqExact(p *Prog, r *Report, eq *ssa.Function) {
	defer ruleC07OrderExact(p, r)
	integer := p.Method("Value", "Integer")
	if integer == nil {
		return
	}
	isIntegerOf := func(v ssa.Value) bool {
		c, ok := v.(*ssa.Call)
		return ok && c.Common().StaticCallee() == integer
	}
	bare := func(v ssa.Value) bool {
		bo, ok := v.(*ssa.BinOp)
		return ok && bo.Op == token.EQL && isIntegerOf(bo.X) && isIntegerOf(bo.Y)
	}
	found := false
	var at ssa.Instruction
	for _, f := range clusterOf(p, eq, 1) {
		for _, ret := range returnsOf(f) {
			if len(ret.Results) != 1 {
				continue
			}
			var walk func(v ssa.Value, d int)
			seen := map[ssa.Value]bool{}
			walk = func(v ssa.Value, d int) {
				if v == nil || seen[v] || d > 6 {
					return
				}
				seen[v] = true
				if bare(v) {
					found, at = true, ret
				}
				if phi, ok := v.(*ssa.Phi); ok {
					for _, e := range phi.Edges {
						walk(e, d+1)
					}
				}
			}
			walk(res(ret, 0), 0)
		}
	}
	if found {
		r.Bad("integers:exact", p.InstrPos(at), "%s answers with Integer() == Integer() of its operands: Integer() saturates, so every two unsigned values above the largest int are equal — {{ a == b }} is True for uint64 2^63 and 2^64-1, and {%% ifchanged x %%} does not see x change between them", p.FuncName(eq))
	} else {
		r.OK("integers:exact", p.Pos(eq.Pos()), "equality of integers is not decided by the saturating accessor alone")
	}
}

// R-C07-UNARY: "`^` binds tighter than unary minus/not, then `* / %`": −a * b reads (−a) * b. The two readings differ
// in value: (−0) * 1.5 is 0.000000 where −(0 * 1.5) is −0.000000, and for the smallest int n, (−n) / 2 is negative where
// −(n / 2) is positive. The minus sign matched in front of a term therefore must not end up as a flag of the node of
// the + − level, whose Evaluate applies it to the value of the whole first term: that flag may only be set together
// with the negation flag (`- not x`, which is no number anyway); the sign belongs to the first factor.
func ruleC07Unary(p *Prog, a *Anchors, r *Report) {
	r.Begin("R-C07-UNARY", "the minus sign in front of a term is not applied to the value of the whole term (a flag of the + − level's node that its Evaluate turns into a negation) except together with `not`: −a * b is (−a) * b", 1)
	node := p.Named("simpleExpression")
	ev := p.Method("simpleExpression", "Evaluate")
	parse := p.Method("Parser", "parseSimpleExpression")
	if node == nil || ev == nil || parse == nil {
		r.Unk("anchor", "-", "anchor unresolved: simpleExpression / its Evaluate / parseSimpleExpression")
		return
	}
	st := node.Underlying().(*types.Struct)
	// arithmetic negation: −1 * x, 0 − x, −x — here or in a helper called here
	var negates func(f *ssa.Function, d int) map[ssa.Instruction]bool
	negates = func(f *ssa.Function, d int) map[ssa.Instruction]bool {
		out := map[ssa.Instruction]bool{}
		for _, b := range f.Blocks {
			for _, in := range b.Instrs {
				switch x := in.(type) {
				case *ssa.BinOp:
					if x.Op == token.MUL {
						for _, s := range []ssa.Value{x.X, x.Y} {
							if c, ok := s.(*ssa.Const); ok && c.Value != nil && c.Value.ExactString() == "-1" {
								out[in] = true
							}
						}
					}
					if x.Op == token.SUB {
						if c, ok := x.X.(*ssa.Const); ok && c.Value != nil && c.Value.ExactString() == "0" {
							out[in] = true
						}
					}
				case *ssa.UnOp:
					if x.Op == token.SUB {
						out[in] = true
					}
				case *ssa.Call:
					if callee := x.Common().StaticCallee(); callee != nil && callee.Blocks != nil && p.InPkg(callee) && d < 2 && callee != f {
						if len(negates(callee, d+1)) > 0 {
							out[in] = true
						}
					}
				}
			}
		}
		return out
	}
	negs := negates(ev, 0)
	signField := -1
	for i := 0; i < st.NumFields(); i++ {
		if b, ok := st.Field(i).Type().Underlying().(*types.Basic); !ok || b.Kind() != types.Bool {
			continue
		}
		idx := i
		for in := range negs {
			if Guarded(in, func(c ssa.Value, pol bool) bool {
				u, ok := c.(*ssa.UnOp)
				if !ok || !pol {
					return false
				}
				fa, ok := u.X.(*ssa.FieldAddr)
				return ok && fa.Field == idx && structOf(fa.X.Type()) == node
			}) {
				signField = idx
			}
		}
	}
	if signField < 0 {
		r.OK("simpleExpression:sign", p.Pos(ev.Pos()), "the + − level's node applies no minus sign to its first term")
		return
	}
	// the negation flag: the other bool field
	notField := -1
	for i := 0; i < st.NumFields(); i++ {
		if b, ok := st.Field(i).Type().Underlying().(*types.Basic); ok && b.Kind() == types.Bool && i != signField {
			notField = i
		}
	}
	isNotLoad := func(v ssa.Value) bool {
		u, ok := v.(*ssa.UnOp)
		if !ok {
			return false
		}
		fa, ok := u.X.(*ssa.FieldAddr)
		return ok && notField >= 0 && fa.Field == notField && structOf(fa.X.Type()) == node
	}
	n := 0
	for _, f := range withClosures(parse) {
		for _, b := range f.Blocks {
			for _, in := range b.Instrs {
				s, ok := in.(*ssa.Store)
				if !ok {
					continue
				}
				fa, ok := s.Addr.(*ssa.FieldAddr)
				if !ok || fa.Field != signField || structOf(fa.X.Type()) != node {
					continue
				}
				n++
				key := "parseSimpleExpression:sign-on-term"
				if n > 1 {
					key += "#" + itoa(int64(n))
				}
				var onlyWithNot func(v ssa.Value, d int) bool
				onlyWithNot = func(v ssa.Value, d int) bool {
					if d > 4 {
						return false
					}
					if c, ok := v.(*ssa.Const); ok {
						return c.Value != nil && c.Value.ExactString() == "false"
					}
					if isNotLoad(v) {
						return true
					}
					if bo, ok := v.(*ssa.BinOp); ok && bo.Op == token.AND {
						return onlyWithNot(bo.X, d+1) || onlyWithNot(bo.Y, d+1)
					}
					if phi, ok := v.(*ssa.Phi); ok {
						for _, e := range phi.Edges {
							if !onlyWithNot(e, d+1) {
								return false
							}
						}
						return true
					}
					return false
				}
				guarded := Guarded(in, func(c ssa.Value, pol bool) bool { return pol && isNotLoad(c) })
				if onlyWithNot(s.Val, 0) || guarded {
					r.OK(key, p.InstrPos(in), "the flag that negates the whole first term is set only together with the negation flag")
				} else {
					r.Bad(key, p.InstrPos(in), "the minus sign in front of a term is stored as simpleExpression.%s, which Evaluate applies to the value of the whole first term: −a * b is evaluated as −(a * b), which differs from (−a) * b for a zero (−0 * 1.5 prints −0.000000) and for the smallest int (−n / 2 has the wrong sign)", st.Field(signField).Name())
				}
			}
		}
	}
	if n == 0 {
		r.OK("parseSimpleExpression:sign-on-term", p.Pos(parse.Pos()), "the parser never sets the flag")
	}
	ruleC07SignOnFirstFactor(p, r)
}

// ruleC07SignOnFirstFactor (an obligation of R-C07-UNARY): at the `* / %` level the sign belongs to the FIRST factor. The
// loop of that level nests to the left — the node built first ends up innermost —, so a sign flag of that level's
// node has to be set on the node made before the loop, not on the node the function returns after it (the outermost
// one: -a * b * c would be (-(a * b)) * c).
func ruleC07SignOnFirstFactor(p *Prog, r *Report) {
	node := p.Named("term")
	parse := p.Method("Parser", "parseTerm")
	if node == nil || parse == nil {
		return
	}
	st, ok := node.Underlying().(*types.Struct)
	if !ok {
		return
	}
	n := 0
	for _, f := range withClosures(parse) {
		for _, b := range f.Blocks {
			for _, in := range b.Instrs {
				s, ok := in.(*ssa.Store)
				if !ok {
					continue
				}
				fa, ok := s.Addr.(*ssa.FieldAddr)
				if !ok || structOf(fa.X.Type()) != node {
					continue
				}
				if bt, isB := st.Field(fa.Field).Type().Underlying().(*types.Basic); !isB || bt.Kind() != types.Bool {
					continue
				}
				if c, isC := s.Val.(*ssa.Const); isC && c.Value != nil && c.Value.ExactString() == "false" {
					continue
				}
				n++
				key := "parseTerm:sign-on-first-factor"
				if n > 1 {
					key += "#" + itoa(int64(n))
				}
				base := stripLoad(fa.X)
				_, isAlloc := base.(*ssa.Alloc)
				if isAlloc && innermostLoopHeader(base.(*ssa.Alloc).Block()) == nil {
					r.OK(key, p.InstrPos(in), "the flag is set on the node made before the loop (the innermost one, which holds the first factor)")
				} else {
					r.Bad(key, p.InstrPos(in), "term.%s is set on %s, not on the node made before the loop: the loop wraps earlier nodes into later ones, so with three factors the flag lands on the outermost node and -a * b * c is evaluated as (-(a * b)) * c", st.Field(fa.Field).Name(), p.VN(base))
				}
			}
		}
	}
}

// ruleC07BoxedLast (an obligation of R-C07-EQKINDS): the comparison of the boxed Go values (Interface() == Interface())
// is the last resort. It is reached only after every family predicate was asked: an early exit to it — "two values of
// one type: nothing to normalise" — compares two *int pointing to equal numbers by address.
func ruleC07BoxedLast(p *Prog, r *Report, eq *ssa.Function) {
	iface := p.Method("Value", "Interface")
	if iface == nil {
		return
	}
	valueT := structOf(eq.Signature.Recv().Type())
	cluster := clusterOf(p, eq, 1)
	// functions of the cluster that compare Interface() results
	boxedIn := map[*ssa.Function]ssa.Instruction{}
	for _, f := range cluster {
		for _, b := range f.Blocks {
			for _, in := range b.Instrs {
				bo, ok := in.(*ssa.BinOp)
				if !ok || bo.Op != token.EQL {
					continue
				}
				isIface := func(v ssa.Value) bool {
					c, ok := v.(*ssa.Call)
					return ok && c.Common().StaticCallee() == iface
				}
				if isIface(bo.X) && isIface(bo.Y) {
					boxedIn[f] = in
				}
			}
		}
	}
	if len(boxedIn) == 0 {
		return
	}
	isFamilyTest := func(in ssa.Instruction) bool {
		c, ok := in.(*ssa.Call)
		if !ok || c.Common().StaticCallee() == nil || c.Common().StaticCallee().Signature.Recv() == nil {
			return false
		}
		n := c.Common().StaticCallee().Name()
		return structOf(c.Common().StaticCallee().Signature.Recv().Type()) == valueT && (n == "IsInteger" || n == "IsFloat" || n == "IsString" || n == "IsBool" || n == "IsNumber")
	}
	// the sites in eq itself from which the boxed comparison is reached
	var sites []ssa.Instruction
	if in, here := boxedIn[eq]; here {
		sites = append(sites, in)
	}
	for _, b := range eq.Blocks {
		for _, in := range b.Instrs {
			if c, ok := in.(*ssa.Call); ok && c.Common().StaticCallee() != nil {
				if _, is := boxedIn[c.Common().StaticCallee()]; is && c.Common().StaticCallee() != eq {
					sites = append(sites, in)
				}
			}
		}
	}
	// how many distinct family predicates the method asks at all
	asked := map[string]bool{}
	for _, b := range eq.Blocks {
		for _, in := range b.Instrs {
			if isFamilyTest(in) {
				asked[in.(*ssa.Call).Common().StaticCallee().Name()] = true
			}
		}
	}
	for i, site := range sites {
		key := "boxed-comparison:last"
		if i > 0 {
			key += "#" + itoa(int64(i+1))
		}
		missing := ""
		for name := range asked {
			nm := name
			if !MustPass(site, func(x ssa.Instruction) bool {
				return isFamilyTest(x) && x.(*ssa.Call).Common().StaticCallee().Name() == nm
			}) {
				missing = nm
			}
		}
		if missing == "" {
			r.OK(key, p.InstrPos(site), "the comparison of the boxed values is reached only after every family predicate was asked")
		} else {
			r.Bad(key, p.InstrPos(site), "the comparison of the boxed Go values can be reached without %s() having been asked: two operands of one pointer type that point to equal numbers, strings or booleans are compared by address (a == b is False where a <= b and a >= b hold)", missing)
		}
	}
}

// R-C07-UINTPTR: "expressions over integers": uintptr is an integer kind like the other unsigned ones
// (reflect.Value.Uint() accepts it). A function of the value layer that tells kinds apart and has a case for
// reflect.Uint64 has one for reflect.Uintptr as well — otherwise a uintptr counts as 0, is not a number, is false and
// prints as <uintptr Value>.
func ruleC07Uintptr(p *Prog, a *Anchors, r *Report) {
	r.Begin("R-C07-UINTPTR", "wherever the value layer has a case for kind Uint64 it has one for Uintptr on the same value: uintptr is an integer like the other unsigned kinds", 3)
	n := 0
	for _, f := range p.inPkgFuncsSorted(p.allFuncSet()) {
		has64 := map[string]ssa.Instruction{}
		hasPtr := map[string]bool{}
		for _, b := range f.Blocks {
			for _, in := range b.Instrs {
				bo, ok := in.(*ssa.BinOp)
				if !ok || (bo.Op != token.EQL && bo.Op != token.NEQ) {
					continue
				}
				k, isK := kindConst(bo.Y)
				if !isK {
					continue
				}
				subj := p.VN(bo.X)
				if k == 11 { // reflect.Uint64
					has64[subj] = in
				}
				if k == 12 { // reflect.Uintptr
					hasPtr[subj] = true
				}
			}
		}
		for subj, at := range has64 {
			// only lists of unsigned kinds: the same value is also compared with Uint32 (10)
			n++
			key := p.FuncName(f) + ":unsigned-kinds"
			if hasPtr[subj] {
				r.OK(key, p.InstrPos(at), "Uintptr stands next to Uint64")
			} else {
				r.Bad(key, p.InstrPos(at), "%s has a case for reflect.Uint64 but none for reflect.Uintptr: a uintptr in the context is not an integer for it ({{ n + 1 }} is 1, {{ n > 0 }} is False, {{ n }} prints <uintptr Value>)", p.FuncName(f))
			}
		}
	}
	if n == 0 {
		r.Unk("none", "-", "no kind list with Uint64 found")
	}
}

// ruleC07OrderExact (an obligation of R-C07-EQKINDS, `ordering:exact`): the ordering operators on integers. A comparison
// Integer() <op> Integer() of the two operands saturates like the equality did — for uint64 2^63 and 2^64-1 none of
// <, ==, > holds. Wherever the evaluation of a relational operator (the cluster of relationalExpression.Evaluate)
// compares two Integer() results with an ordering operator, the comparison stands behind a test that not both operands
// are integers (the exact comparison took the integers).
func ruleC07OrderExact(p *Prog, r *Report) {
	ev := p.Method("relationalExpression", "Evaluate")
	integer := p.Method("Value", "Integer")
	isInteger := p.Method("Value", "IsInteger")
	if ev == nil || integer == nil {
		return
	}
	isIntegerOf := func(v ssa.Value) bool {
		v = stripLoad(v)
		c, ok := v.(*ssa.Call)
		return ok && c.Common().StaticCallee() == integer
	}
	n, bad := 0, 0
	var at ssa.Instruction
	for _, f := range clusterOf(p, ev, 2) {
		for _, b := range f.Blocks {
			for _, in := range b.Instrs {
				bo, ok := in.(*ssa.BinOp)
				if !ok || (bo.Op != token.LSS && bo.Op != token.LEQ && bo.Op != token.GTR && bo.Op != token.GEQ) || !isIntegerOf(bo.X) || !isIntegerOf(bo.Y) {
					continue
				}
				n++
				notBoth := func(c ssa.Value, pol bool) bool {
					cc, ok := c.(*ssa.Call)
					return ok && !pol && cc.Common().StaticCallee() == isInteger
				}
				// … here, or — the comparison through Integer() being a helper of its own — at every call of that helper
				var under func(at ssa.Instruction, d int) bool
				under = func(at ssa.Instruction, d int) bool {
					if Guarded(at, notBoth) {
						return true
					}
					h := at.Parent()
					if h == ev || d > 2 || h.Parent() != nil || (h.Object() != nil && h.Object().Exported()) || !p.staticOnly(h, nil) {
						return false
					}
					node := p.CG.Nodes[h]
					if node == nil || len(node.In) == 0 {
						return false
					}
					for _, e := range node.In {
						if e.Site == nil || !under(e.Site.(ssa.Instruction), d+1) {
							return false
						}
					}
					return true
				}
				guarded := isInteger != nil && under(in, 0)
				if !guarded {
					bad++
					at = in
				}
			}
		}
	}
	switch {
	case bad > 0:
		r.Bad("ordering:exact", p.InstrPos(at), "%d of %d ordering comparisons of relational operators compare Integer() with Integer() of the operands without a test that not both are integers: Integer() saturates, so for uint64 2^63 and 2^64-1 (and the largest int next to 2^63) none of <, ==, > holds — {{ a < b }} is False and {{ a >= b }} True although a is the smaller one", bad, n)
	case n > 0:
		r.OK("ordering:exact", p.Pos(ev.Pos()), "%d comparisons of Integer() results stand behind a test that not both operands are integers (those are compared exactly)", n)
	default:
		r.OK("ordering:exact", p.Pos(ev.Pos()), "no ordering operator compares the saturating Integer() of both operands")
	}
}
