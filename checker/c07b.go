package main

// R-C07-EQKINDS: `==` / `!=` compare what the operands hold. The evaluator's == calls one method of Value; for every
// family of kinds that has a normalising accessor (Integer, Float, String, Bool) that method has to compare through the
// accessor when BOTH operands are of the family — a comparison of the boxed Go values answers false for int8 vs int,
// float32 vs float64, a named string type vs string, *bool vs bool, although `<=` and `>=` (which go through the
// accessors) both hold.

import (
	"go/token"
	"go/types"
	"sort"
	"strings"

	"golang.org/x/tools/go/ssa"
)

func ruleC07EqKinds(p *Prog, a *Anchors, r *Report) {
	r.Begin("R-C07-EQKINDS", "the method `==` is evaluated with compares integers, floats, strings and booleans by the value their accessor yields whenever both operands are of that family (never as boxed Go values of possibly different types)", 4)
	eq := p.Method("Value", "EqualValueTo")
	if eq == nil || len(eq.Params) < 2 {
		r.Unk("method", "-", "anchor unresolved: (*Value).EqualValueTo")
		return
	}
	cluster := clusterOf(p, eq, 1)
	// predicate calls on the receiver / on the other operand
	type side struct{ recv, other bool }
	preds := map[string]*side{}
	isParamOf := func(v ssa.Value, f *ssa.Function, idx int) bool {
		v = unspillParam(v)
		return idx < len(f.Params) && v == ssa.Value(f.Params[idx])
	}
	for _, f := range cluster {
		for _, b := range f.Blocks {
			for _, in := range b.Instrs {
				c, ok := in.(*ssa.Call)
				if !ok || c.Common().StaticCallee() == nil || len(c.Common().Args) == 0 {
					continue
				}
				callee := c.Common().StaticCallee()
				if callee.Signature.Recv() == nil || structOf(callee.Signature.Recv().Type()) != structOf(eq.Signature.Recv().Type()) || !strings.HasPrefix(callee.Name(), "Is") {
					continue
				}
				s := preds[callee.Name()]
				if s == nil {
					s = &side{}
					preds[callee.Name()] = s
				}
				// in the method itself: receiver / parameter; in a helper of the cluster: first / second Value parameter
				if isParamOf(c.Common().Args[0], f, 0) {
					s.recv = true
				}
				if isParamOf(c.Common().Args[0], f, 1) {
					s.other = true
				}
			}
		}
	}
	// a method written over reflect kinds directly is another idiom
	kindSwitch := false
	for _, b := range eq.Blocks {
		for _, in := range b.Instrs {
			if c, ok := in.(*ssa.Call); ok && c.Common().StaticCallee() != nil && c.Common().StaticCallee().Name() == "Kind" && c.Common().StaticCallee().Pkg != nil && c.Common().StaticCallee().Pkg.Pkg.Path() == "reflect" {
				kindSwitch = true
			}
		}
	}
	families := map[string][]string{
		"integers": {"IsInteger"},
		"floats":   {"IsFloat", "IsNumber"},
		"strings":  {"IsString"},
		"booleans": {"IsBool"},
	}
	var names []string
	for n := range families {
		names = append(names, n)
	}
	sort.Strings(names)
	for _, n := range names {
		found := ""
		for _, pr := range families[n] {
			if s := preds[pr]; s != nil && s.recv && s.other {
				found = pr
			}
		}
		if found == "" && kindSwitch {
			r.Assume(n, p.Pos(eq.Pos()), "%s decides by reflect kinds itself instead of the Is… predicates; the rule cannot relate that shape to the accessor families", p.FuncName(eq))
			continue
		}
		if found != "" {
			r.OK(n, p.Pos(eq.Pos()), "both operands are asked %s(): the family is compared through its accessor", found)
		} else {
			r.Bad(n, p.Pos(eq.Pos()), "%s never asks both operands whether they are %s: they are compared as boxed Go values, so two equal %s held in different Go types (float32 and float64, a named type and its base type, a pointer and a value) are `!=` although `<=` and `>=` both hold", p.FuncName(eq), n, n)
		}
	}
}

// R-C07-UNARY: "`^` binds tighter than unary minus/not, then `* / %`": −a * b reads (−a) * b. The two readings differ
// in value: (−0) * 1.5 is 0.000000 where −(0 * 1.5) is −0.000000, and for the smallest int n, (−n) / 2 is negative where
// −(n / 2) is positive. The minus sign matched in front of a term therefore must not end up as a flag of the node of
// the + − level, whose Evaluate applies it to the value of the whole first term: that flag may only be set together
// with the negation flag (`- not x`, which is no number anyway); the sign belongs to the first factor.
func ruleC07Unary(p *Prog, a *Anchors, r *Report) {
	r.Begin("R-C07-UNARY", "the minus sign in front of a term is not applied to the value of the whole term (a flag of the + − level's node that its Evaluate turns into a negation) except together with `not`: −a * b is (−a) * b", 1)
	node := p.Named("simpleExpression")
	ev := p.Method("simpleExpression", "Evaluate")
	parse := p.Method("Parser", "parseSimpleExpression")
	if node == nil || ev == nil || parse == nil {
		r.Unk("anchor", "-", "anchor unresolved: simpleExpression / its Evaluate / parseSimpleExpression")
		return
	}
	st := node.Underlying().(*types.Struct)
	// arithmetic negation: −1 * x, 0 − x, −x — here or in a helper called here
	var negates func(f *ssa.Function, d int) map[ssa.Instruction]bool
	negates = func(f *ssa.Function, d int) map[ssa.Instruction]bool {
		out := map[ssa.Instruction]bool{}
		for _, b := range f.Blocks {
			for _, in := range b.Instrs {
				switch x := in.(type) {
				case *ssa.BinOp:
					if x.Op == token.MUL {
						for _, s := range []ssa.Value{x.X, x.Y} {
							if c, ok := s.(*ssa.Const); ok && c.Value != nil && c.Value.ExactString() == "-1" {
								out[in] = true
							}
						}
					}
					if x.Op == token.SUB {
						if c, ok := x.X.(*ssa.Const); ok && c.Value != nil && c.Value.ExactString() == "0" {
							out[in] = true
						}
					}
				case *ssa.UnOp:
					if x.Op == token.SUB {
						out[in] = true
					}
				case *ssa.Call:
					if callee := x.Common().StaticCallee(); callee != nil && callee.Blocks != nil && p.InPkg(callee) && d < 2 && callee != f {
						if len(negates(callee, d+1)) > 0 {
							out[in] = true
						}
					}
				}
			}
		}
		return out
	}
	negs := negates(ev, 0)
	signField := -1
	for i := 0; i < st.NumFields(); i++ {
		if b, ok := st.Field(i).Type().Underlying().(*types.Basic); !ok || b.Kind() != types.Bool {
			continue
		}
		idx := i
		for in := range negs {
			if Guarded(in, func(c ssa.Value, pol bool) bool {
				u, ok := c.(*ssa.UnOp)
				if !ok || !pol {
					return false
				}
				fa, ok := u.X.(*ssa.FieldAddr)
				return ok && fa.Field == idx && structOf(fa.X.Type()) == node
			}) {
				signField = idx
			}
		}
	}
	if signField < 0 {
		r.OK("simpleExpression:sign", p.Pos(ev.Pos()), "the + − level's node applies no minus sign to its first term")
		return
	}
	// the negation flag: the other bool field
	notField := -1
	for i := 0; i < st.NumFields(); i++ {
		if b, ok := st.Field(i).Type().Underlying().(*types.Basic); ok && b.Kind() == types.Bool && i != signField {
			notField = i
		}
	}
	isNotLoad := func(v ssa.Value) bool {
		u, ok := v.(*ssa.UnOp)
		if !ok {
			return false
		}
		fa, ok := u.X.(*ssa.FieldAddr)
		return ok && notField >= 0 && fa.Field == notField && structOf(fa.X.Type()) == node
	}
	n := 0
	for _, f := range withClosures(parse) {
		for _, b := range f.Blocks {
			for _, in := range b.Instrs {
				s, ok := in.(*ssa.Store)
				if !ok {
					continue
				}
				fa, ok := s.Addr.(*ssa.FieldAddr)
				if !ok || fa.Field != signField || structOf(fa.X.Type()) != node {
					continue
				}
				n++
				key := "parseSimpleExpression:sign-on-term"
				if n > 1 {
					key += "#" + itoa(int64(n))
				}
				var onlyWithNot func(v ssa.Value, d int) bool
				onlyWithNot = func(v ssa.Value, d int) bool {
					if d > 4 {
						return false
					}
					if c, ok := v.(*ssa.Const); ok {
						return c.Value != nil && c.Value.ExactString() == "false"
					}
					if isNotLoad(v) {
						return true
					}
					if bo, ok := v.(*ssa.BinOp); ok && bo.Op == token.AND {
						return onlyWithNot(bo.X, d+1) || onlyWithNot(bo.Y, d+1)
					}
					if phi, ok := v.(*ssa.Phi); ok {
						for _, e := range phi.Edges {
							if !onlyWithNot(e, d+1) {
								return false
							}
						}
						return true
					}
					return false
				}
				guarded := Guarded(in, func(c ssa.Value, pol bool) bool { return pol && isNotLoad(c) })
				if onlyWithNot(s.Val, 0) || guarded {
					r.OK(key, p.InstrPos(in), "the flag that negates the whole first term is set only together with the negation flag")
				} else {
					r.Bad(key, p.InstrPos(in), "the minus sign in front of a term is stored as simpleExpression.%s, which Evaluate applies to the value of the whole first term: −a * b is evaluated as −(a * b), which differs from (−a) * b for a zero (−0 * 1.5 prints −0.000000) and for the smallest int (−n / 2 has the wrong sign)", st.Field(signField).Name())
				}
			}
		}
	}
	if n == 0 {
		r.OK("parseSimpleExpression:sign-on-term", p.Pos(parse.Pos()), "the parser never sets the flag")
	}
}
