package main

// R-C07-EQKINDS: `==` / `!=` compare what the operands hold. The evaluator's == calls one method of Value; for every
// family of kinds that has a normalising accessor (Integer, Float, String, Bool) that method has to compare through the
// accessor when BOTH operands are of the family — a comparison of the boxed Go values answers false for int8 vs int,
// float32 vs float64, a named string type vs string, *bool vs bool, although `<=` and `>=` (which go through the
// accessors) both hold.

import (
	"sort"
	"strings"

	"golang.org/x/tools/go/ssa"
)

func ruleC07EqKinds(p *Prog, a *Anchors, r *Report) {
	r.Begin("R-C07-EQKINDS", "the method `==` is evaluated with compares integers, floats, strings and booleans by the value their accessor yields whenever both operands are of that family (never as boxed Go values of possibly different types)", 4)
	eq := p.Method("Value", "EqualValueTo")
	if eq == nil || len(eq.Params) < 2 {
		r.Unk("method", "-", "anchor unresolved: (*Value).EqualValueTo")
		return
	}
	cluster := clusterOf(p, eq, 1)
	// predicate calls on the receiver / on the other operand
	type side struct{ recv, other bool }
	preds := map[string]*side{}
	isParamOf := func(v ssa.Value, f *ssa.Function, idx int) bool {
		v = unspillParam(v)
		return idx < len(f.Params) && v == ssa.Value(f.Params[idx])
	}
	for _, f := range cluster {
		for _, b := range f.Blocks {
			for _, in := range b.Instrs {
				c, ok := in.(*ssa.Call)
				if !ok || c.Common().StaticCallee() == nil || len(c.Common().Args) == 0 {
					continue
				}
				callee := c.Common().StaticCallee()
				if callee.Signature.Recv() == nil || structOf(callee.Signature.Recv().Type()) != structOf(eq.Signature.Recv().Type()) || !strings.HasPrefix(callee.Name(), "Is") {
					continue
				}
				s := preds[callee.Name()]
				if s == nil {
					s = &side{}
					preds[callee.Name()] = s
				}
				// in the method itself: receiver / parameter; in a helper of the cluster: first / second Value parameter
				if isParamOf(c.Common().Args[0], f, 0) {
					s.recv = true
				}
				if isParamOf(c.Common().Args[0], f, 1) {
					s.other = true
				}
			}
		}
	}
	// a method written over reflect kinds directly is another idiom
	kindSwitch := false
	for _, b := range eq.Blocks {
		for _, in := range b.Instrs {
			if c, ok := in.(*ssa.Call); ok && c.Common().StaticCallee() != nil && c.Common().StaticCallee().Name() == "Kind" && c.Common().StaticCallee().Pkg != nil && c.Common().StaticCallee().Pkg.Pkg.Path() == "reflect" {
				kindSwitch = true
			}
		}
	}
	families := map[string][]string{
		"integers": {"IsInteger"},
		"floats":   {"IsFloat", "IsNumber"},
		"strings":  {"IsString"},
		"booleans": {"IsBool"},
	}
	var names []string
	for n := range families {
		names = append(names, n)
	}
	sort.Strings(names)
	for _, n := range names {
		found := ""
		for _, pr := range families[n] {
			if s := preds[pr]; s != nil && s.recv && s.other {
				found = pr
			}
		}
		if found == "" && kindSwitch {
			r.Assume(n, p.Pos(eq.Pos()), "%s decides by reflect kinds itself instead of the Is… predicates; the rule cannot relate that shape to the accessor families", p.FuncName(eq))
			continue
		}
		if found != "" {
			r.OK(n, p.Pos(eq.Pos()), "both operands are asked %s(): the family is compared through its accessor", found)
		} else {
			r.Bad(n, p.Pos(eq.Pos()), "%s never asks both operands whether they are %s: they are compared as boxed Go values, so two equal %s held in different Go types (float32 and float64, a named type and its base type, a pointer and a value) are `!=` although `<=` and `>=` both hold", p.FuncName(eq), n, n)
		}
	}
}
