package main

// lock.go: engine L — lock regions of sync.Mutex/RWMutex fields inside one function.

import (
	"go/types"
	"strings"

	"golang.org/x/tools/go/ssa"
)

type lockOp struct {
	In       ssa.Instruction
	Lock     bool // Lock/RLock vs Unlock/RUnlock
	Deferred bool
	MuKey    string // VN key of the mutex address
	Field    string // "Type.field" if the mutex is a struct field
}

func isMutexType(T types.Type) bool {
	if pt, ok := T.(*types.Pointer); ok {
		T = pt.Elem()
	}
	n, ok := T.(*types.Named)
	if !ok || n.Obj().Pkg() == nil || n.Obj().Pkg().Path() != "sync" {
		return false
	}
	return n.Obj().Name() == "Mutex" || n.Obj().Name() == "RWMutex"
}

// lockOps lists the Lock/Unlock operations of f (deferred closures that unlock are followed one level).
func (p *Prog) lockOps(f *ssa.Function) []lockOp {
	var out []lockOp
	for _, b := range f.Blocks {
		for _, in := range b.Instrs {
			ci, ok := in.(ssa.CallInstruction)
			if !ok {
				continue
			}
			cc := ci.Common()
			callee := cc.StaticCallee()
			_, deferred := in.(*ssa.Defer)
			if callee == nil {
				continue
			}
			if callee.Pkg != nil && callee.Pkg.Pkg.Path() == "sync" && len(cc.Args) > 0 && isMutexType(cc.Args[0].Type()) {
				op := lockOp{In: in, Deferred: deferred, MuKey: p.VN(cc.Args[0])}
				switch callee.Name() {
				case "Lock", "RLock":
					op.Lock = true
				case "Unlock", "RUnlock":
				default:
					continue
				}
				if fa, ok := cc.Args[0].(*ssa.FieldAddr); ok {
					if n := structOf(fa.X.Type()); n != nil {
						op.Field = n.Obj().Name() + "." + fieldName(fa.X.Type(), fa.Field)
					}
				}
				out = append(out, op)
			} else if deferred && p.InPkg(callee) && callee.Parent() == f {
				// defer func() { mu.Unlock() }()
				for _, inner := range p.lockOps(callee) {
					if !inner.Lock {
						inner.In = in
						inner.Deferred = true
						// the key inside the closure is expressed over free variables; match by field only
						out = append(out, inner)
					}
				}
			}
		}
	}
	return out
}

// heldAt computes, for mutex field `field` (Type.field), the set of instructions of f before which the
// mutex is certainly held (forward must-dataflow; a deferred Unlock releases only at exit).
func (p *Prog) heldAt(f *ssa.Function, field string) func(ssa.Instruction) bool {
	ops := map[ssa.Instruction]lockOp{}
	for _, op := range p.lockOps(f) {
		if op.Field == field {
			ops[op.In] = op
		}
	}
	// an unexported function that is only called (statically) from places where the lock is held runs under the
	// caller's lock (`loadIntoCache(key, name)`, called by FromCache between Lock and the deferred Unlock)
	entryHeld := p.heldByCallers(f, field, 0)
	if len(ops) == 0 {
		return func(ssa.Instruction) bool { return entryHeld }
	}
	// block-level fixpoint: out[b] = state after b; in[b] = AND of preds' out (entry: false)
	in := map[*ssa.BasicBlock]bool{}
	out := map[*ssa.BasicBlock]bool{}
	for _, b := range f.Blocks {
		in[b], out[b] = true, true // optimistic start for must-analysis
	}
	in[f.Blocks[0]] = entryHeld
	transfer := func(b *ssa.BasicBlock, st bool, visit func(ssa.Instruction, bool)) bool {
		for _, x := range b.Instrs {
			if visit != nil {
				visit(x, st)
			}
			if op, ok := ops[x]; ok && !op.Deferred {
				st = op.Lock
			}
		}
		return st
	}
	for changed := true; changed; {
		changed = false
		for _, b := range f.Blocks {
			st := b != f.Blocks[0]
			if b == f.Blocks[0] {
				st = entryHeld
			} else {
				for _, pr := range b.Preds {
					st = st && out[pr]
				}
				if len(b.Preds) == 0 {
					st = false
				}
			}
			o := transfer(b, st, nil)
			if st != in[b] || o != out[b] {
				in[b], out[b] = st, o
				changed = true
			}
		}
	}
	held := map[ssa.Instruction]bool{}
	for _, b := range f.Blocks {
		transfer(b, in[b], func(x ssa.Instruction, st bool) { held[x] = st })
	}
	return func(i ssa.Instruction) bool { return held[i] }
}

// mutexFieldsOf returns "Type.field" for each sync.Mutex/RWMutex field of the named struct.
func mutexFieldsOf(n *types.Named) []string {
	st, ok := n.Underlying().(*types.Struct)
	if !ok {
		return nil
	}
	var out []string
	for i := 0; i < st.NumFields(); i++ {
		if isMutexType(st.Field(i).Type()) {
			out = append(out, n.Obj().Name()+"."+st.Field(i).Name())
		}
	}
	return out
}

func fieldOfKey(k string) string {
	if i := strings.LastIndex(k, "."); i >= 0 {
		return k[i+1:]
	}
	return k
}

var heldByCallersBusy = map[*ssa.Function]bool{}

// heldByCallers: f is an unexported function of the package, called only statically, and at every one of its call
// sites the caller holds the lock `field` (two levels up at most).
func (p *Prog) heldByCallers(f *ssa.Function, field string, depth int) bool {
	if f == nil || f.Parent() != nil || depth > 2 || heldByCallersBusy[f] || !p.InPkg(f) || (f.Object() != nil && f.Object().Exported()) || !p.staticOnly(f, nil) {
		return false
	}
	node := p.CG.Nodes[f]
	if node == nil || len(node.In) == 0 {
		return false
	}
	heldByCallersBusy[f] = true
	defer delete(heldByCallersBusy, f)
	for _, e := range node.In {
		caller := e.Caller.Func
		if caller == nil || caller.Blocks == nil || !p.InPkg(caller) || e.Site == nil {
			return false
		}
		if _, isDefer := e.Site.(*ssa.Defer); isDefer {
			return false
		}
		if _, isGo := e.Site.(*ssa.Go); isGo {
			return false
		}
		if !p.heldAt(caller, field)(e.Site.(ssa.Instruction)) {
			return false
		}
	}
	return true
}
