package main

// R-C08-UNWRAP: "a path denotes exactly the value obtained by following its steps". The engine's own *Value may stand
// anywhere a value can: in the context directly, but also behind an interface — an entry of a map[string]any, an item
// of a []any, the result of a func() any. The resolver unwraps a *Value and it opens interfaces; if it opens an
// interface AFTER it looked for a *Value, the *Value the interface held goes on as a pointer to the engine's struct
// (|length 0, == false, the next step walks into Value's fields). Every value obtained by opening an interface in the
// resolver is therefore tested for being a *Value before the step ends.

import (
	"go/token"
	"reflect"

	"golang.org/x/tools/go/ssa"
)

func ruleC08Unwrap(p *Prog, a *Anchors, r *Report) {
	r.Begin("R-C08-UNWRAP", "in the resolver every value obtained by opening an interface (reflect.ValueOf(x.Interface())) is tested for being the engine's *Value later in the same step: a *Value held by an interface is unwrapped like one that stands in the context directly", 1)
	res := p.Method("variableResolver", "resolve")
	if res == nil {
		r.Unk("anchor", "-", "anchor unresolved: (*variableResolver).resolve")
		return
	}
	// the global that holds reflect.TypeOf(new(Value))
	var valT *ssa.Global
	for _, f := range p.inPkgFuncsSorted(p.allFuncSet()) {
		if f.Name() != "init" {
			continue
		}
		for _, b := range f.Blocks {
			for _, in := range b.Instrs {
				st, ok := in.(*ssa.Store)
				if !ok {
					continue
				}
				g, isG := st.Addr.(*ssa.Global)
				c, isC := st.Val.(*ssa.Call)
				if !isG || !isC || c.Common().StaticCallee() == nil || p.extName(c.Common().StaticCallee()) != "reflect.TypeOf" {
					continue
				}
				if mi, isMI := c.Common().Args[0].(*ssa.MakeInterface); isMI {
					if n := structOf(mi.X.Type()); n == a.Value {
						valT = g
					}
				}
			}
		}
	}
	if valT == nil {
		r.Unk("anchor", "-", "no package variable holds reflect.TypeOf(new(Value))")
		return
	}
	isValueTest := func(in ssa.Instruction, vs map[ssa.Value]bool) bool {
		bo, ok := in.(*ssa.BinOp)
		if !ok || (bo.Op != token.EQL && bo.Op != token.NEQ) {
			return false
		}
		side := func(v ssa.Value) (typeOf, global bool) {
			if mi, isMI := v.(*ssa.MakeInterface); isMI {
				v = mi.X
			}
			if isLoadOfGlobal(v, valT) {
				return false, true
			}
			if c, isC := v.(*ssa.Call); isC && c.Common().StaticCallee() != nil && p.extName(c.Common().StaticCallee()) == "(reflect.Value).Type" && vs[c.Common().Args[0]] {
				return true, false
			}
			return false, false
		}
		tx, gx := side(bo.X)
		ty, gy := side(bo.Y)
		return (tx && gy) || (ty && gx)
	}
	n := 0
	for _, b := range res.Blocks {
		for i, in := range b.Instrs {
			c, ok := in.(*ssa.Call)
			if !ok || c.Common().StaticCallee() == nil || p.extName(c.Common().StaticCallee()) != "reflect.ValueOf" {
				continue
			}
			arg := c.Common().Args[0]
			ic, isIC := arg.(*ssa.Call)
			if !isIC || ic.Common().StaticCallee() == nil || p.extName(ic.Common().StaticCallee()) != "(reflect.Value).Interface" {
				continue
			}
			n++
			key := "resolve:opened-interface"
			if n > 1 {
				key += "#" + itoa(int64(n))
			}
			// forward within the same pass of the loop over the parts: the opened value and the phis it flows into
			vs := map[ssa.Value]bool{c: true}
			found := false
			seenB := map[*ssa.BasicBlock]bool{}
			var walk func(blk *ssa.BasicBlock, from int)
			walk = func(blk *ssa.BasicBlock, from int) {
				for _, y := range blk.Instrs[from:] {
					if phi, isPhi := y.(*ssa.Phi); isPhi {
						for _, e := range phi.Edges {
							if vs[e] {
								vs[phi] = true
							}
						}
					}
					if isValueTest(y, vs) {
						found = true
					}
				}
				for _, sb := range blk.Succs {
					if seenB[sb] || sb.Dominates(b) {
						continue
					}
					seenB[sb] = true
					walk(sb, 0)
				}
			}
			walk(b, i+1)
			if found {
				r.OK(key, p.InstrPos(in), "the opened value is tested for *Value before the step ends")
			} else {
				r.Bad(key, p.InstrPos(in), "the resolver opens an interface here and does not look whether it held a *Value (the test for *Value stands before, or only on another path): {{ m.text|length }} is 0 and {{ m.user.name }} empty for a map[string]any that holds AsValue(…), while the same *Value placed in the context directly resolves")
			}
		}
	}
	if n == 0 {
		r.Trivial("none", "-", "the resolver opens no interface by reflect.ValueOf(x.Interface())")
	}
}

// R-C08-DEREF: "pointers (to pointers, to interfaces …) are followed". A loop of the resolver that replaces the value
// it walks by its Elem() for as long as it is a pointer arrives, for a pointer to an interface value (*any, an
// optional *SomeInterface field), at a value of kind Interface — which no step knows how to look into. Such a loop
// therefore goes on for kind Interface as well as for kind Ptr: its Elem() call is reachable on the Interface edge,
// not only on the Ptr edge.
func ruleC08Deref(p *Prog, a *Anchors, r *Report) {
	r.Begin("R-C08-DEREF", "a loop of the resolver that follows pointers by Elem() follows what an interface holds as well (the loop continues for Kind() == Interface, not only for Kind() == Ptr)", 1)
	resFn := p.Method("variableResolver", "resolve")
	if resFn == nil {
		r.Unk("anchor", "-", "anchor unresolved: (*variableResolver).resolve")
		return
	}
	kindTest := func(c ssa.Value, subject string) (int, bool) {
		bo, ok := c.(*ssa.BinOp)
		if !ok || bo.Op != token.EQL {
			return 0, false
		}
		for _, pr := range [][2]ssa.Value{{bo.X, bo.Y}, {bo.Y, bo.X}} {
			k, isK := kindConst(pr[1])
			call, isC := pr[0].(*ssa.Call)
			if !isK || !isC || call.Common().StaticCallee() == nil || p.extName(call.Common().StaticCallee()) != "(reflect.Value).Kind" {
				continue
			}
			if p.VN(stripLoad(call.Common().Args[0])) == subject || cellOf(call.Common().Args[0]) == subject {
				return k, true
			}
		}
		return 0, false
	}
	n := 0
	for _, f := range clusterOf(p, resFn, 2) {
		for _, b := range f.Blocks {
			for _, in := range b.Instrs {
				call, ok := in.(*ssa.Call)
				if !ok || call.Common().StaticCallee() == nil || p.extName(call.Common().StaticCallee()) != "(reflect.Value).Elem" {
					continue
				}
				if innermostLoopHeader(b) == nil {
					continue
				}
				recv := call.Common().Args[0]
				subject := cellOf(recv)
				// the result goes back to where the receiver came from (a local cell, or a phi)
				back := false
				if subject != "" {
					for _, u := range refs(call) {
						if st, ok := u.(*ssa.Store); ok && st.Val == ssa.Value(call) && cellOf2(st.Addr) == subject {
							back = true
						}
					}
				} else if phi, ok := recv.(*ssa.Phi); ok {
					for _, e := range phi.Edges {
						if e == ssa.Value(call) {
							back = true
							subject = p.VN(phi)
						}
					}
				}
				if !back {
					continue
				}
				n++
				key := p.FuncName(topLevel(f)) + ":deref-loop"
				ptrOnly := Guarded(in, func(c ssa.Value, pol bool) bool {
					k, ok := kindTest(c, subject)
					return ok && pol && k == int(reflect.Ptr)
				})
				either := Guarded(in, func(c ssa.Value, pol bool) bool {
					k, ok := kindTest(c, subject)
					return ok && pol && (k == int(reflect.Ptr) || k == int(reflect.Interface))
				})
				switch {
				case ptrOnly:
					r.Bad(key, p.InstrPos(in), "the loop follows pointers only: for a pointer to an interface value (*any, a *SomeInterface field) it stops at a value of kind Interface, and the step fails with \"can't access … on type interface\" instead of looking into what the interface holds")
				case either:
					r.OK(key, p.InstrPos(in), "Elem() is taken for Kind() == Ptr and for Kind() == Interface")
				default:
					r.Assume(key, p.InstrPos(in), "the kind tests guarding the loop were not recognised")
				}
			}
		}
	}
	if n == 0 {
		r.Unk("none", "-", "no loop that follows pointers by Elem() found in the resolver")
	}
}

// cellOf: the name of the local cell v is loaded from ("" if it is not a load of an Alloc).
func cellOf(v ssa.Value) string {
	if u, ok := v.(*ssa.UnOp); ok && u.Op == token.MUL {
		return cellOf2(u.X)
	}
	return ""
}

func cellOf2(addr ssa.Value) string {
	if al, ok := addr.(*ssa.Alloc); ok {
		return "cell:" + al.Name() + "@" + al.Parent().Name()
	}
	if fv, ok := addr.(*ssa.FreeVar); ok {
		return "cell:" + fv.Name() + "@" + fv.Parent().Name()
	}
	return ""
}
