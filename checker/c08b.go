package main

// R-C08-UNWRAP: "a path denotes exactly the value obtained by following its steps". The engine's own *Value may stand
// anywhere a value can: in the context directly, but also behind an interface — an entry of a map[string]any, an item
// of a []any, the result of a func() any. The resolver unwraps a *Value and it opens interfaces; if it opens an
// interface AFTER it looked for a *Value, the *Value the interface held goes on as a pointer to the engine's struct
// (|length 0, == false, the next step walks into Value's fields). Every value obtained by opening an interface in the
// resolver is therefore tested for being a *Value before the step ends.

import (
	"go/token"

	"golang.org/x/tools/go/ssa"
)

func ruleC08Unwrap(p *Prog, a *Anchors, r *Report) {
	r.Begin("R-C08-UNWRAP", "in the resolver every value obtained by opening an interface (reflect.ValueOf(x.Interface())) is tested for being the engine's *Value later in the same step: a *Value held by an interface is unwrapped like one that stands in the context directly", 1)
	res := p.Method("variableResolver", "resolve")
	if res == nil {
		r.Unk("anchor", "-", "anchor unresolved: (*variableResolver).resolve")
		return
	}
	// the global that holds reflect.TypeOf(new(Value))
	var valT *ssa.Global
	for _, f := range p.inPkgFuncsSorted(p.allFuncSet()) {
		if f.Name() != "init" {
			continue
		}
		for _, b := range f.Blocks {
			for _, in := range b.Instrs {
				st, ok := in.(*ssa.Store)
				if !ok {
					continue
				}
				g, isG := st.Addr.(*ssa.Global)
				c, isC := st.Val.(*ssa.Call)
				if !isG || !isC || c.Common().StaticCallee() == nil || p.extName(c.Common().StaticCallee()) != "reflect.TypeOf" {
					continue
				}
				if mi, isMI := c.Common().Args[0].(*ssa.MakeInterface); isMI {
					if n := structOf(mi.X.Type()); n == a.Value {
						valT = g
					}
				}
			}
		}
	}
	if valT == nil {
		r.Unk("anchor", "-", "no package variable holds reflect.TypeOf(new(Value))")
		return
	}
	isValueTest := func(in ssa.Instruction, vs map[ssa.Value]bool) bool {
		bo, ok := in.(*ssa.BinOp)
		if !ok || (bo.Op != token.EQL && bo.Op != token.NEQ) {
			return false
		}
		side := func(v ssa.Value) (typeOf, global bool) {
			if mi, isMI := v.(*ssa.MakeInterface); isMI {
				v = mi.X
			}
			if isLoadOfGlobal(v, valT) {
				return false, true
			}
			if c, isC := v.(*ssa.Call); isC && c.Common().StaticCallee() != nil && p.extName(c.Common().StaticCallee()) == "(reflect.Value).Type" && vs[c.Common().Args[0]] {
				return true, false
			}
			return false, false
		}
		tx, gx := side(bo.X)
		ty, gy := side(bo.Y)
		return (tx && gy) || (ty && gx)
	}
	n := 0
	for _, b := range res.Blocks {
		for i, in := range b.Instrs {
			c, ok := in.(*ssa.Call)
			if !ok || c.Common().StaticCallee() == nil || p.extName(c.Common().StaticCallee()) != "reflect.ValueOf" {
				continue
			}
			arg := c.Common().Args[0]
			ic, isIC := arg.(*ssa.Call)
			if !isIC || ic.Common().StaticCallee() == nil || p.extName(ic.Common().StaticCallee()) != "(reflect.Value).Interface" {
				continue
			}
			n++
			key := "resolve:opened-interface"
			if n > 1 {
				key += "#" + itoa(int64(n))
			}
			// forward within the same pass of the loop over the parts: the opened value and the phis it flows into
			vs := map[ssa.Value]bool{c: true}
			found := false
			seenB := map[*ssa.BasicBlock]bool{}
			var walk func(blk *ssa.BasicBlock, from int)
			walk = func(blk *ssa.BasicBlock, from int) {
				for _, y := range blk.Instrs[from:] {
					if phi, isPhi := y.(*ssa.Phi); isPhi {
						for _, e := range phi.Edges {
							if vs[e] {
								vs[phi] = true
							}
						}
					}
					if isValueTest(y, vs) {
						found = true
					}
				}
				for _, sb := range blk.Succs {
					if seenB[sb] || sb.Dominates(b) {
						continue
					}
					seenB[sb] = true
					walk(sb, 0)
				}
			}
			walk(b, i+1)
			if found {
				r.OK(key, p.InstrPos(in), "the opened value is tested for *Value before the step ends")
			} else {
				r.Bad(key, p.InstrPos(in), "the resolver opens an interface here and does not look whether it held a *Value (the test for *Value stands before, or only on another path): {{ m.text|length }} is 0 and {{ m.user.name }} empty for a map[string]any that holds AsValue(…), while the same *Value placed in the context directly resolves")
			}
		}
	}
	if n == 0 {
		r.Trivial("none", "-", "the resolver opens no interface by reflect.ValueOf(x.Interface())")
	}
}
