package main

// R-C08-UNWRAP: "a path denotes exactly the value obtained by following its steps". The engine's own *Value may stand
// anywhere a value can: in the context directly, but also behind an interface — an entry of a map[string]any, an item
// of a []any, the result of a func() any. The resolver unwraps a *Value and it opens interfaces; if it opens an
// interface AFTER it looked for a *Value, the *Value the interface held goes on as a pointer to the engine's struct
// (|length 0, == false, the next step walks into Value's fields). Every value obtained by opening an interface in the
// resolver is therefore tested for being a *Value before the step ends.

import (
	"go/token"
	"go/types"
	"reflect"

	"golang.org/x/tools/go/ssa"
)

func ruleC08Unwrap(p *Prog, a *Anchors, r *Report) {
	r.Begin("R-C08-UNWRAP", "in the resolver every value obtained by opening an interface (reflect.ValueOf(x.Interface())) is tested for being the engine's *Value later in the same step: a *Value held by an interface is unwrapped like one that stands in the context directly", 1)
	res := p.Method("variableResolver", "resolve")
	if res == nil {
		r.Unk("anchor", "-", "anchor unresolved: (*variableResolver).resolve")
		return
	}
	// the global that holds reflect.TypeOf(new(Value))
	var valT *ssa.Global
	for _, f := range p.inPkgFuncsSorted(p.allFuncSet()) {
		if f.Name() != "init" {
			continue
		}
		for _, b := range f.Blocks {
			for _, in := range b.Instrs {
				st, ok := in.(*ssa.Store)
				if !ok {
					continue
				}
				g, isG := st.Addr.(*ssa.Global)
				c, isC := st.Val.(*ssa.Call)
				if !isG || !isC || c.Common().StaticCallee() == nil || p.extName(c.Common().StaticCallee()) != "reflect.TypeOf" {
					continue
				}
				if mi, isMI := c.Common().Args[0].(*ssa.MakeInterface); isMI {
					if n := structOf(mi.X.Type()); n == a.Value {
						valT = g
					}
				}
			}
		}
	}
	if valT == nil {
		r.Unk("anchor", "-", "no package variable holds reflect.TypeOf(new(Value))")
		return
	}
	isValueTest := func(in ssa.Instruction, vs map[ssa.Value]bool) bool {
		bo, ok := in.(*ssa.BinOp)
		if !ok || (bo.Op != token.EQL && bo.Op != token.NEQ) {
			return false
		}
		side := func(v ssa.Value) (typeOf, global bool) {
			if mi, isMI := v.(*ssa.MakeInterface); isMI {
				v = mi.X
			}
			if isLoadOfGlobal(v, valT) {
				return false, true
			}
			if c, isC := v.(*ssa.Call); isC && c.Common().StaticCallee() != nil && p.extName(c.Common().StaticCallee()) == "(reflect.Value).Type" && vs[c.Common().Args[0]] {
				return true, false
			}
			return false, false
		}
		tx, gx := side(bo.X)
		ty, gy := side(bo.Y)
		return (tx && gy) || (ty && gx)
	}
	n := 0
	for _, b := range res.Blocks {
		for i, in := range b.Instrs {
			c, ok := in.(*ssa.Call)
			if !ok || c.Common().StaticCallee() == nil || p.extName(c.Common().StaticCallee()) != "reflect.ValueOf" {
				continue
			}
			arg := c.Common().Args[0]
			ic, isIC := arg.(*ssa.Call)
			if !isIC || ic.Common().StaticCallee() == nil || p.extName(ic.Common().StaticCallee()) != "(reflect.Value).Interface" {
				continue
			}
			n++
			key := "resolve:opened-interface"
			if n > 1 {
				key += "#" + itoa(int64(n))
			}
			// forward within the same pass of the loop over the parts: the opened value and the phis it flows into
			vs := map[ssa.Value]bool{c: true}
			found := false
			seenB := map[*ssa.BasicBlock]bool{}
			var walk func(blk *ssa.BasicBlock, from int)
			walk = func(blk *ssa.BasicBlock, from int) {
				for _, y := range blk.Instrs[from:] {
					if phi, isPhi := y.(*ssa.Phi); isPhi {
						for _, e := range phi.Edges {
							if vs[e] {
								vs[phi] = true
							}
						}
					}
					if isValueTest(y, vs) {
						found = true
					}
				}
				for _, sb := range blk.Succs {
					if seenB[sb] || sb.Dominates(b) {
						continue
					}
					seenB[sb] = true
					walk(sb, 0)
				}
			}
			walk(b, i+1)
			if found {
				r.OK(key, p.InstrPos(in), "the opened value is tested for *Value before the step ends")
			} else {
				r.Bad(key, p.InstrPos(in), "the resolver opens an interface here and does not look whether it held a *Value (the test for *Value stands before, or only on another path): {{ m.text|length }} is 0 and {{ m.user.name }} empty for a map[string]any that holds AsValue(…), while the same *Value placed in the context directly resolves")
			}
		}
	}
	if n == 0 {
		r.Trivial("none", "-", "the resolver opens no interface by reflect.ValueOf(x.Interface())")
	}
}

// R-C08-DEREF: "pointers (to pointers, to interfaces …) are followed". A loop of the resolver that replaces the value
// it walks by its Elem() for as long as it is a pointer arrives, for a pointer to an interface value (*any, an
// optional *SomeInterface field), at a value of kind Interface — which no step knows how to look into. Such a loop
// therefore goes on for kind Interface as well as for kind Ptr: its Elem() call is reachable on the Interface edge,
// not only on the Ptr edge.
func ruleC08Deref(p *Prog, a *Anchors, r *Report) {
	r.Begin("R-C08-DEREF", "a loop of the resolver that follows pointers by Elem() follows what an interface holds as well (the loop continues for Kind() == Interface, not only for Kind() == Ptr)", 1)
	resFn := p.Method("variableResolver", "resolve")
	if resFn == nil {
		r.Unk("anchor", "-", "anchor unresolved: (*variableResolver).resolve")
		return
	}
	kindTest := func(c ssa.Value, subject string) (int, bool) {
		bo, ok := c.(*ssa.BinOp)
		if !ok || bo.Op != token.EQL {
			return 0, false
		}
		for _, pr := range [][2]ssa.Value{{bo.X, bo.Y}, {bo.Y, bo.X}} {
			k, isK := kindConst(pr[1])
			call, isC := pr[0].(*ssa.Call)
			if !isK || !isC || call.Common().StaticCallee() == nil || p.extName(call.Common().StaticCallee()) != "(reflect.Value).Kind" {
				continue
			}
			if p.VN(stripLoad(call.Common().Args[0])) == subject || cellOf(call.Common().Args[0]) == subject {
				return k, true
			}
		}
		return 0, false
	}
	n := 0
	for _, f := range clusterOf(p, resFn, 2) {
		for _, b := range f.Blocks {
			for _, in := range b.Instrs {
				call, ok := in.(*ssa.Call)
				if !ok || call.Common().StaticCallee() == nil || p.extName(call.Common().StaticCallee()) != "(reflect.Value).Elem" {
					continue
				}
				if innermostLoopHeader(b) == nil {
					continue
				}
				recv := call.Common().Args[0]
				subject := cellOf(recv)
				// the result goes back to where the receiver came from (a local cell, or a phi)
				back := false
				if subject != "" {
					for _, u := range refs(call) {
						if st, ok := u.(*ssa.Store); ok && st.Val == ssa.Value(call) && cellOf2(st.Addr) == subject {
							back = true
						}
					}
				} else if phi, ok := recv.(*ssa.Phi); ok {
					for _, e := range phi.Edges {
						if e == ssa.Value(call) {
							back = true
							subject = p.VN(phi)
						}
					}
				}
				if !back {
					continue
				}
				n++
				key := p.FuncName(topLevel(f)) + ":deref-loop"
				ptrOnly := Guarded(in, func(c ssa.Value, pol bool) bool {
					k, ok := kindTest(c, subject)
					return ok && pol && k == int(reflect.Ptr)
				})
				either := Guarded(in, func(c ssa.Value, pol bool) bool {
					k, ok := kindTest(c, subject)
					return ok && pol && (k == int(reflect.Ptr) || k == int(reflect.Interface))
				})
				switch {
				case ptrOnly:
					r.Bad(key, p.InstrPos(in), "the loop follows pointers only: for a pointer to an interface value (*any, a *SomeInterface field) it stops at a value of kind Interface, and the step fails with \"can't access … on type interface\" instead of looking into what the interface holds")
				case either:
					r.OK(key, p.InstrPos(in), "Elem() is taken for Kind() == Ptr and for Kind() == Interface")
				default:
					r.Assume(key, p.InstrPos(in), "the kind tests guarding the loop were not recognised")
				}
			}
		}
	}
	if n == 0 {
		r.Unk("none", "-", "no loop that follows pointers by Elem() found in the resolver")
	}
}

// cellOf: the name of the local cell v is loaded from ("" if it is not a load of an Alloc).
func cellOf(v ssa.Value) string {
	if u, ok := v.(*ssa.UnOp); ok && u.Op == token.MUL {
		return cellOf2(u.X)
	}
	return ""
}

func cellOf2(addr ssa.Value) string {
	if al, ok := addr.(*ssa.Alloc); ok {
		return "cell:" + al.Name() + "@" + al.Parent().Name()
	}
	if fv, ok := addr.(*ssa.FreeVar); ok {
		return "cell:" + fv.Name() + "@" + fv.Parent().Name()
	}
	return ""
}

// R-C08-ITEMS: "names set by tags (loop variables) denote exactly the value …". The Value a loop variable is bound to is
// made from a reflect.Value the iteration took out of the list or map. An item that is the engine's own *Value (a
// []*Value, a *Value in a []any) must not be wrapped a second time — the wrapper is a pointer to the engine's struct,
// on which `v.foo`, `v|length` and `{% if v %}` answer about the struct, not about what the item holds. Every Value the
// iteration makes from an item is made only after the item's type was compared with *Value (or the item is invalid).
func ruleC08Items(p *Prog, a *Anchors, r *Report) {
	r.Begin("R-C08-ITEMS", "the iteration (IterateOrder) makes a Value from an item only after comparing the item's type with the engine's *Value: a *Value item is bound as it is, not wrapped again", 1)
	it := p.Method("Value", "IterateOrder")
	if it == nil {
		r.Unk("anchor", "-", "anchor unresolved: (*Value).IterateOrder")
		return
	}
	var valT *ssa.Global
	for _, f := range p.inPkgFuncsSorted(p.allFuncSet()) {
		if f.Name() != "init" {
			continue
		}
		for _, b := range f.Blocks {
			for _, in := range b.Instrs {
				st, ok := in.(*ssa.Store)
				if !ok {
					continue
				}
				g, isG := st.Addr.(*ssa.Global)
				c, isC := st.Val.(*ssa.Call)
				if !isG || !isC || c.Common().StaticCallee() == nil || p.extName(c.Common().StaticCallee()) != "reflect.TypeOf" {
					continue
				}
				if mi, isMI := c.Common().Args[0].(*ssa.MakeInterface); isMI {
					if n := structOf(mi.X.Type()); n == a.Value {
						valT = g
					}
				}
			}
		}
	}
	if valT == nil {
		r.Unk("anchor", "-", "no package variable holds reflect.TypeOf(new(Value))")
		return
	}
	// an item: the result of Index / MapIndex / an element of MapKeys / MapRange's Key/Value — also through the
	// interface-opening helper and through parameters of helpers of the iteration
	var isItem func(v ssa.Value, d int) bool
	isItem = func(v ssa.Value, d int) bool {
		if v == nil || d > 6 {
			return false
		}
		v = stripLoad(v)
		switch x := v.(type) {
		case *ssa.Call:
			callee := x.Common().StaticCallee()
			if callee == nil {
				return false
			}
			switch p.extName(callee) {
			case "(reflect.Value).Index", "(reflect.Value).MapIndex", "(*reflect.MapIter).Key", "(*reflect.MapIter).Value":
				return true
			}
			if p.InPkg(callee) && callee.Blocks != nil && len(x.Common().Args) > 0 {
				for _, arg := range x.Common().Args {
					if isItem(arg, d+1) {
						return true
					}
				}
			}
		case *ssa.UnOp:
			if ia, ok := x.X.(*ssa.IndexAddr); ok {
				// an element of the key list
				return isReflectValue(ia.X.Type().Underlying().(interface{ Elem() types.Type }).Elem())
			}
		case *ssa.Phi:
			for _, e := range x.Edges {
				if isItem(e, d+1) {
					return true
				}
			}
		case *ssa.Parameter:
			for _, s := range paramActualSites(p, x) {
				if isItem(s.val, d+1) {
					return true
				}
			}
		case *ssa.Extract:
			return isItem(x.Tuple, d+1)
		}
		return false
	}
	n := 0
	for _, f := range clusterOf(p, it, 2) {
		if f.Signature.Recv() != nil && f != it && structOf(f.Signature.Recv().Type()) != nil && structOf(f.Signature.Recv().Type()).Obj().Name() != "Value" {
			continue // orderings over the keys compare, they bind nothing
		}
		for _, b := range f.Blocks {
			for _, in := range b.Instrs {
				st, ok := in.(*ssa.Store)
				if !ok || !isFieldAddrOf(st.Addr, "Value", "val") {
					continue
				}
				if len(p.directAllocs(st.Addr.(*ssa.FieldAddr).X, 0)) == 0 || !isItem(st.Val, 0) {
					continue
				}
				n++
				key := p.FuncName(topLevel(f)) + ":item"
				if n > 1 {
					key += "#" + itoa(int64(n))
				}
				tested := Guarded(in, func(c ssa.Value, pol bool) bool {
					// item.Type() == typeOfValuePtr on its false edge …
					if bo, ok := c.(*ssa.BinOp); ok && (bo.Op == token.EQL || bo.Op == token.NEQ) {
						for _, pr := range [][2]ssa.Value{{bo.X, bo.Y}, {bo.Y, bo.X}} {
							tc, isCall := stripConvIface(pr[0]).(*ssa.Call)
							if !isCall || tc.Common().StaticCallee() == nil || p.extName(tc.Common().StaticCallee()) != "(reflect.Value).Type" {
								continue
							}
							if u, isU := stripConvIface(pr[1]).(*ssa.UnOp); isU && u.X == ssa.Value(valT) {
								return (bo.Op == token.EQL) != pol
							}
						}
					}
					// … or the item is invalid
					if cc, ok := c.(*ssa.Call); ok && cc.Common().StaticCallee() != nil && p.extName(cc.Common().StaticCallee()) == "(reflect.Value).IsValid" {
						return !pol
					}
					return false
				})
				if tested {
					r.OK(key, p.InstrPos(in), "the item's type was compared with *Value before it is wrapped")
				} else {
					r.Bad(key, p.InstrPos(in), "%s wraps an item of the list or map into a new Value without looking whether the item is a *Value itself: {%% for v in values %%} over a []*Value (or a []any holding one) binds v to a pointer to the engine's struct — {{ v.foo }} is empty, {{ v|length }} is 0 and {%% if v %%} is true whatever the item holds, while {{ values.0.foo }} resolves correctly", p.FuncName(f))
				}
			}
		}
	}
	if n == 0 {
		r.Unk("none", "-", "no Value made from an item found in the iteration")
	}
}

// stripConvIface: v without MakeInterface / ChangeInterface conversions.
func stripConvIface(v ssa.Value) ssa.Value {
	for i := 0; i < 4; i++ {
		switch x := v.(type) {
		case *ssa.MakeInterface:
			v = x.X
		case *ssa.ChangeInterface:
			v = x.X
		default:
			return v
		}
	}
	return v
}

// ruleC08CallNil (obligations of R-C08-CALL): "function call with the evaluated arguments … never a wrong value".
//   - the nil of the parameter's type (reflect.Zero) stands in only for the argument that has no type at all — the
//     untyped nil. A nil *T handed to an interface parameter keeps its type in Go (a nil-safe method can be called on
//     it, %T prints it); Value.IsNil() answers true for every nil pointer, so a substitution behind it loses the type.
//   - what is called may stand behind pointers like everything else a step works on: the "is not a function" refusal
//     is reached only after a loop that follows pointers and interfaces.
func ruleC08CallNil(p *Prog, a *Anchors, r *Report) {
	res := p.Method("variableResolver", "resolve")
	isNil := p.Method("Value", "IsNil")
	if res == nil {
		return
	}
	for _, f := range clusterOf(p, res, 2) {
		for _, b := range f.Blocks {
			for _, in := range b.Instrs {
				c, ok := in.(*ssa.Call)
				if !ok || c.Common().StaticCallee() == nil || p.extName(c.Common().StaticCallee()) != "reflect.Zero" {
					continue
				}
				key := p.FuncName(topLevel(f)) + ":zero-argument"
				byIsNil := isNil != nil && Guarded(in, func(cond ssa.Value, pol bool) bool {
					cc, isC := cond.(*ssa.Call)
					return isC && pol && cc.Common().StaticCallee() == isNil
				})
				byType := Guarded(in, func(cond ssa.Value, pol bool) bool {
					x, eq, isNilTest := condIsNilTest(cond)
					if !isNilTest || eq != pol {
						return false
					}
					tc, isC := stripLoad(x).(*ssa.Call)
					return isC && tc.Common().StaticCallee() != nil && p.extName(tc.Common().StaticCallee()) == "reflect.TypeOf"
				})
				switch {
				case byType && !byIsNil:
					r.OK(key, p.InstrPos(in), "the parameter type's nil stands in only for an argument without a type (the untyped nil)")
				case byIsNil:
					r.Bad(key, p.InstrPos(in), "the nil of the parameter's type is substituted whenever Value.IsNil() holds — which it does for every nil pointer: a nil *T handed to an interface parameter arrives as the nil interface (s == nil is true, a nil-safe method is never called, %%T prints <nil>) although Go passes the typed nil")
				default:
					r.Assume(key, p.InstrPos(in), "the condition under which the zero value stands in was not recognised")
				}
			}
		}
	}
	// the refusal "is not a function"
	for _, b := range res.Blocks {
		iff, ok := b.Instrs[len(b.Instrs)-1].(*ssa.If)
		if !ok {
			continue
		}
		c, pol := normCond(iff.Cond, true)
		bo, ok := c.(*ssa.BinOp)
		if !ok || (bo.Op != token.EQL && bo.Op != token.NEQ) {
			continue
		}
		k, isK := kindConst(bo.Y)
		kc, isCall := bo.X.(*ssa.Call)
		if !isK || k != int(reflect.Func) || !isCall || kc.Common().StaticCallee() == nil || p.extName(kc.Common().StaticCallee()) != "(reflect.Value).Kind" {
			continue
		}
		// the edge on which the kind is NOT Func, if it only returns errors
		notFunc := 1
		if (bo.Op == token.NEQ) == pol {
			notFunc = 0
		}
		if !errorReturnsOnly(res, b.Succs[notFunc]) || len(b.Succs[notFunc].Instrs) == 0 {
			continue
		}
		key := "resolve:call-follows-pointers"
		follows := mustPassFromFlags(res.Blocks[0], b.Succs[notFunc].Instrs[0], func(x ssa.Instruction) bool {
			// (the loop as a helper of the package: `current, ok = followPointers(current)`)
			if hc, isCall := x.(*ssa.Call); isCall && hc.Common().StaticCallee() != nil && len(hc.Common().Args) > 0 && c08FollowsPointersHelper(p, hc.Common().StaticCallee()) {
				if cellOf(hc.Common().Args[0]) != "" && cellOf(hc.Common().Args[0]) == cellOf(kc.Common().Args[0]) {
					return true
				}
				// what the refusal asks the kind of is what the helper handed back
				seen := map[ssa.Value]bool{}
				var from func(v ssa.Value) bool
				from = func(v ssa.Value) bool {
					if v == nil || seen[v] {
						return false
					}
					seen[v] = true
					switch y := v.(type) {
					case *ssa.Extract:
						return y.Tuple == ssa.Value(hc)
					case *ssa.Call:
						return y == hc
					case *ssa.Phi:
						for _, e := range y.Edges {
							if from(e) {
								return true
							}
						}
					case *ssa.UnOp:
						if sv := stripLoad(y); sv != ssa.Value(y) {
							return from(sv)
						}
					}
					return false
				}
				if from(kc.Common().Args[0]) {
					return true
				}
			}
			cmp, isCmp := x.(*ssa.BinOp)
			if !isCmp || cmp.Op != token.EQL {
				return false
			}
			kk, isKK := kindConst(cmp.Y)
			if !isKK || kk != int(reflect.Ptr) || innermostLoopHeader(x.Block()) == nil {
				return false
			}
			cc, isC := cmp.X.(*ssa.Call)
			return isC && cc.Common().StaticCallee() != nil && p.extName(cc.Common().StaticCallee()) == "(reflect.Value).Kind" && cellOf(cc.Common().Args[0]) == cellOf(kc.Common().Args[0])
		})
		if follows {
			r.OK(key, p.InstrPos(iff), "the \"is not a function\" refusal comes after a loop that follows pointers")
		} else {
			r.Bad(key, p.InstrPos(iff), "a call step refuses whatever is not of kind Func without following pointers first: {{ hooks.OnSave(x) }} with OnSave a *func(…) — or a func behind an interface holding a pointer — fails with \"is not a function (it is ptr)\", and a nil pointer is an error instead of the empty value, although every other kind of step follows pointers")
		}
	}
}

// ruleC08InterfaceNil (an obligation of R-C08-CALL): Value.Interface() is what the call protocol takes an argument's
// type from. It answers nil only for a Value that holds nothing (the invalid reflect.Value); a nil result for every
// value IsNil() is true for turns a typed nil pointer into the untyped nil, and the parameter-type tests see <nil>.
func ruleC08InterfaceNil(p *Prog, a *Anchors, r *Report) {
	f := p.Method("Value", "Interface")
	if f == nil {
		return
	}
	ok := true
	var at ssa.Instruction
	for _, ret := range returnsOf(f) {
		if len(ret.Results) != 1 || !isNilConst(res(ret, 0)) {
			continue
		}
		invalidOnly := Guarded(ret, func(c ssa.Value, pol bool) bool {
			cc, isC := c.(*ssa.Call)
			return isC && !pol && cc.Common().StaticCallee() != nil && p.extName(cc.Common().StaticCallee()) == "(reflect.Value).IsValid"
		})
		if !invalidOnly {
			ok, at = false, ret
		}
	}
	if ok {
		r.OK("(*Value).Interface:nil-only-when-invalid", p.Pos(f.Pos()), "nil is handed back only for the invalid value")
	} else {
		r.Bad("(*Value).Interface:nil-only-when-invalid", p.InstrPos(at), "Value.Interface() answers nil on a path that is not the !IsValid() edge of its reflect.Value: a typed nil pointer comes out as the untyped nil — handed to func(fmt.Stringer) it is the nil interface, handed to func(*T) the call is refused with \"(not <nil>)\"")
	}
}

// ruleC01DerefBound (R-C01-LOOPS family, reported under R-C01-DEREFBOUND): "never loops forever". A loop that follows
// pointers and interfaces with Elem() until it reaches something else terminates only if the chain does: Go lets a
// pointer lead back to itself (`var x any; x = &x`, `type P *P`), and the loop then spins without allocating — no
// limit ends it. Every such loop counts its steps and leaves at a constant bound.
func ruleC01DerefBound(p *Prog, a *Anchors, r *Report) {
	r.Begin("R-C01-DEREFBOUND", "a loop that follows pointers/interfaces by Elem() counts its steps and leaves at a constant bound: a pointer that leads back to itself does not make the engine spin forever", 1)
	reach := a.ExecReach()
	n := 0
	for _, f := range p.inPkgFuncsSorted(p.allFuncSet()) {
		if !reach[f] && !reach[topLevel(f)] {
			continue
		}
		for _, b := range f.Blocks {
			for _, in := range b.Instrs {
				call, ok := in.(*ssa.Call)
				if !ok || call.Common().StaticCallee() == nil || p.extName(call.Common().StaticCallee()) != "(reflect.Value).Elem" {
					continue
				}
				hdr := innermostLoopHeader(b)
				if hdr == nil {
					continue
				}
				// the result goes back to where the receiver came from (a phi of the loop, or a local cell)
				recv := call.Common().Args[0]
				back := false
				if phi, isPhi := recv.(*ssa.Phi); isPhi {
					for _, e := range phi.Edges {
						if e == ssa.Value(call) {
							back = true
						}
					}
				}
				if cell := cellOf(recv); cell != "" {
					for _, u := range refs(call) {
						if st, isSt := u.(*ssa.Store); isSt && st.Val == ssa.Value(call) && cellOf2(st.Addr) == cell {
							back = true
						}
					}
				}
				if !back {
					continue
				}
				n++
				key := p.FuncName(topLevel(f)) + ":elem-loop"
				if n > 1 {
					key += "#" + itoa(int64(n))
				}
				// a counter: an int phi of the loop header stepped by +k inside the loop (or a cell), compared with a constant
				bounded := false
				for _, lb := range f.Blocks {
					if !hdr.Dominates(lb) || !ReachableBlocks(lb)[hdr] {
						continue
					}
					iff, isIf := lb.Instrs[len(lb.Instrs)-1].(*ssa.If)
					if !isIf {
						continue
					}
					c, _ := normCond(iff.Cond, true)
					bo, isBo := c.(*ssa.BinOp)
					if !isBo {
						continue
					}
					for _, pr := range [][2]ssa.Value{{bo.X, bo.Y}, {bo.Y, bo.X}} {
						if _, isK := constInt(pr[1]); !isK || !isIntType(pr[0].Type()) {
							continue
						}
						v := pr[0]
						if add, isAdd := v.(*ssa.BinOp); isAdd && add.Op == token.ADD {
							v = add.X
						}
						if phi, isPhi := v.(*ssa.Phi); isPhi && phi.Block() == hdr {
							startsConst := false
							for _, e := range phi.Edges {
								if _, isK := constInt(e); isK {
									startsConst = true
								}
							}
							for _, e := range phi.Edges {
								if add, isAdd := e.(*ssa.BinOp); isAdd && add.Op == token.ADD && add.X == ssa.Value(phi) {
									bounded = true
								}
								// (counting down from a constant: `for left := max; …; left-- { if left <= 0 {`)
								if sub, isSub := e.(*ssa.BinOp); isSub && sub.Op == token.SUB && sub.X == ssa.Value(phi) && startsConst {
									if k, isK := constInt(sub.Y); isK && k > 0 {
										bounded = true
									}
								}
							}
						}
						if cell := cellOf(v); cell != "" {
							bounded = true
						}
					}
					// one of the edges leaves the loop
					leaves := false
					for _, s := range lb.Succs {
						if !hdr.Dominates(s) || !ReachableBlocks(s)[hdr] {
							leaves = true
						}
					}
					if bounded && !leaves {
						bounded = false
					}
					if bounded {
						break
					}
				}
				if bounded {
					r.OK(key, p.InstrPos(in), "the loop counts its steps against a constant")
				} else {
					r.Bad(key, p.InstrPos(in), "%s follows pointers and interfaces with Elem() for as long as there are any: a pointer that leads back to itself (`var x any; x = &x` in the context) makes {{ x.name }} spin forever at full CPU — no allocation, no stack growth, nothing ends it", p.FuncName(f))
				}
			}
		}
	}
	if n == 0 {
		r.Unk("none", "-", "no pointer-following loop found")
	}
}

// c08FollowsPointersHelper: g (of the package) loops over Elem() of its reflect.Value parameter for as long as the
// kind is Ptr.
func c08FollowsPointersHelper(p *Prog, g *ssa.Function) bool {
	if g == nil || g.Blocks == nil || !p.InPkg(g) {
		return false
	}
	elem, cmpPtr := false, false
	for _, b := range g.Blocks {
		if innermostLoopHeader(b) == nil {
			continue
		}
		for _, in := range b.Instrs {
			if c, ok := in.(*ssa.Call); ok && c.Common().StaticCallee() != nil && p.extName(c.Common().StaticCallee()) == "(reflect.Value).Elem" {
				elem = true
			}
			if cmp, ok := in.(*ssa.BinOp); ok && cmp.Op == token.EQL {
				if kk, isK := kindConst(cmp.Y); isK && kk == int(reflect.Ptr) {
					cmpPtr = true
				}
			}
		}
	}
	return elem && cmpPtr
}
