package main

import (
	"fmt"
	"os"
	"sort"
	"strings"
)

func sortStrings(s []string) { sort.Strings(s) }

// What each check decides (structural necessary conditions) and what it declines; repeated in the evidence.
var propText = map[string][2]string{}

func explanationFor(id string) string {
	if t, ok := propText[id]; ok {
		return t[0]
	}
	return "static rules over /repo's type-checked AST, go/ssa form and VTA call graph; see DESIGN.md"
}

func declinedFor(id string) string {
	if t, ok := propText[id]; ok {
		return t[1]
	}
	return ""
}

// runControls (quick tier): two positive controls per property — known-bad in-memory variants of /repo's current
// sources (the first two mutants of the property in mutants.json). The rule they target must fire. Results are
// recorded in the evidence; they say something about the checker, not about /repo, so they never raise a VIOLATION.
func runControls(o *RunOpts, r *Report) {
	if o.Tier != "quick" || os.Getenv("VERIF_NO_CONTROLS") != "" {
		return
	}
	oc := runMutantsLimit(o, r, 2)
	fired := 0
	for _, m := range oc {
		if m.Status == "killed" || m.Status == "killed-by-other-rule" {
			fired++
		}
	}
	r.Extra["positive_controls"] = oc
	r.Extra["positive_controls_fired"] = fired
	r.Extra["positive_controls_total"] = len(oc)
	if len(oc) > 0 {
		fmt.Printf("positive controls: %d of %d known-bad variants reported\n", fired, len(oc))
	}
}

// thorough adds configurations, the CHA superset and mutation self-validation.
func thorough(o *RunOpts, p *Prog, r *Report, fn ruleFn) {
	// (a) other build configurations: the same rules must hold for every file any build covers
	base := map[string]bool{}
	for _, k := range failingKeys(r) {
		base[k] = true
	}
	type cfgRes struct {
		Config  string   `json:"config"`
		Files   int      `json:"go_files"`
		NewFail []string `json:"new_failing"`
		Error   string   `json:"error,omitempty"`
	}
	var cfgs []cfgRes
	for _, c := range []LoadOpts{
		{Dir: o.Repo, Env: []string{"GOOS=windows", "GOARCH=amd64"}},
		{Dir: o.Repo, Env: []string{"GOOS=linux", "GOARCH=386"}},
		{Dir: o.Repo, Tags: "verif"},
	} {
		delete(anchorsMemo, p)
		p2, err := Load(c)
		cr := cfgRes{Config: strings.TrimSpace(strings.Join(c.Env, " ") + " tags=" + c.Tags)}
		if err != nil {
			cr.Error = err.Error()
			r.Begin("R-CONFIG", "tree loads under "+cr.Config, 0)
			r.Unk("load:"+cr.Config, "-", "%v", err)
			cfgs = append(cfgs, cr)
			continue
		}
		cr.Files = len(p2.Pkg.GoFiles)
		r2 := NewReport(o.Property)
		fn(p2, r2)
		for _, ob := range r2.Obligs {
			if (ob.Verdict == Violated || ob.Verdict == Undecided) && !base[ob.Rule+"|"+ob.Key] {
				cr.NewFail = append(cr.NewFail, ob.Rule+"|"+ob.Key)
				// a violation that exists only under another configuration is a violation
				r.Begin(ob.Rule, "under "+cr.Config, 0)
				r.add(ob.Key+" ["+cr.Config+"]", ob.Pos, ob.Verdict, true, "%s", ob.Reason)
			}
		}
		delete(anchorsMemo, p2)
		cfgs = append(cfgs, cr)
	}
	r.Extra["configurations"] = cfgs
	// (b) mutation self-validation
	oc := runMutants(o, r)
	killed, survived, skipped := 0, 0, 0
	for _, m := range oc {
		switch m.Status {
		case "killed", "killed-by-other-rule":
			killed++
		case "survived":
			survived++
		default:
			skipped++
		}
	}
	r.Extra["mutants"] = oc
	r.Extra["mutants_applied"] = killed + survived
	r.Extra["mutants_killed"] = killed
	r.Extra["mutants_survived"] = survived
	r.Extra["mutants_skipped"] = skipped
	fmt.Printf("self-validation: %d mutants applied, %d killed, %d survived, %d skipped\n", killed+survived, killed, survived, skipped)
	for _, m := range oc {
		if m.Status != "killed" {
			fmt.Printf("  mutant %s: %s (expected %s) %v %s\n", m.ID, m.Status, m.Expect, m.NewFail, m.Note)
		}
	}
}
