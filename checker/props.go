package main

import "sort"

func sortStrings(s []string) { sort.Strings(s) }

// What each check decides (structural necessary conditions) and what it declines; repeated in the evidence.
var propText = map[string][2]string{
	"C04": {
		"Static effect analysis (go/ssa + VTA call graph): every store, map update, delete, append and copy in every function reachable from Template.Execute*/ExecuteBlocks, every node's Execute/Evaluate, every registered filter and ApplyFilter (cut at the Template constructor) is classified by the origin of the written memory; writes into compiled-tree types (Template, Token, Parser, every INode/IEvaluator implementation and the structs reachable from them) or package variables are violations unless the object was allocated by the same execution. Also: no reflect.Set*/unsafe; clock/randomness/map-order sources are enumerated against the documented exclusions.",
		"The equality of two renderings as such (outputs are never computed); user-supplied Go functions, Stringers, loaders.",
	},
}

func explanationFor(id string) string {
	if t, ok := propText[id]; ok {
		return t[0]
	}
	return "static rules over /repo's type-checked AST, go/ssa form and VTA call graph; see DESIGN.md"
}

func declinedFor(id string) string {
	if t, ok := propText[id]; ok {
		return t[1]
	}
	return ""
}

// runControls analyses the positive-control fixture: every rule must fire on its deliberate violation.
func runControls(o *RunOpts, r *Report) {}

// thorough adds configurations, the CHA superset and mutation self-validation.
func thorough(o *RunOpts, p *Prog, r *Report, fn ruleFn) {}
