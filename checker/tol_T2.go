package main

// tol_T2.go — shape tolerance for the C06 rules (R-C06-HTMLNODE, COMMENT, VBODY, REDISPATCH, VERBTAG): the constructs
// these rules look for may have been moved out of (*lexer).run / (*nodeHTML).Execute into helper methods. The helpers
// here relate a helper's body to its call sites (guards, "happens after"), a helper's bool result to the branch its
// caller takes on it, and a text parameter of a node method to the argument of the call.

import (
	"go/token"
	"go/types"
	"strconv"

	"golang.org/x/tools/go/ssa"
)

// ---- text of the HTML node through methods of the node ------------------------------------------------------------

// t2TextEnv: the chain of calls of nodeHTML methods htmlTextProvenance is currently inside of.
type t2TextEnv struct {
	call  *ssa.Call              // the call whose callee is being followed (nil at the top: Execute itself)
	outer *t2TextEnv             // the environment of the function that contains `call`
	seen  map[*ssa.Function]bool // every method followed so far (shared by the whole chain)
}

// enter: x calls, statically, a method of nodeHTML with one string result: returns the environment for following the
// method's results (nil when x is no such call, or the method is already being followed).
func (e *t2TextEnv) enter(p *Prog, x *ssa.Call) *t2TextEnv {
	if e == nil {
		return nil
	}
	callee := x.Common().StaticCallee()
	if callee == nil || callee.Blocks == nil || !p.InPkg(callee) {
		return nil
	}
	if callee.Signature.Recv() == nil {
		// a plain helper that is given the text (`trimFirstNewline(s string) string`)
		hasText := false
		for _, pa := range callee.Params {
			if bt, ok := pa.Type().Underlying().(*types.Basic); ok && bt.Kind() == types.String {
				hasText = true
			}
		}
		if !hasText {
			return nil
		}
	} else if n := structOf(callee.Signature.Recv().Type()); n == nil || n.Obj().Name() != "nodeHTML" {
		return nil
	}
	rs := callee.Signature.Results()
	if rs.Len() != 1 {
		return nil
	}
	if bt, ok := rs.At(0).Type().Underlying().(*types.Basic); !ok || bt.Kind() != types.String {
		return nil
	}
	for c := e; c != nil; c = c.outer {
		if c.call != nil && c.call.Common().StaticCallee() == callee {
			return nil // recursion
		}
	}
	e.seen[callee] = true
	return &t2TextEnv{call: x, outer: e, seen: e.seen}
}

// actual: pa is a (non-receiver) parameter of the method being followed: the argument passed for it and the
// environment in which that argument lives.
func (e *t2TextEnv) actual(pa *ssa.Parameter) (ssa.Value, *t2TextEnv) {
	if e == nil || e.call == nil {
		return nil, nil
	}
	callee := e.call.Common().StaticCallee()
	if pa.Parent() != callee {
		return nil, nil
	}
	idx := indexOfParam(callee, pa)
	args := callArgs(e.call.Common())
	if (idx == 0 && callee.Signature.Recv() != nil) || idx >= len(args) { // 0 is the receiver of a method
		return nil, nil
	}
	return args[idx], e.outer
}

// t2TextFuncs: Execute and the node methods the written text went through, in a stable order.
func t2TextFuncs(exec *ssa.Function, e *t2TextEnv) []*ssa.Function {
	out := []*ssa.Function{exec}
	var rest []*ssa.Function
	for f := range e.seen {
		if f != exec {
			rest = append(rest, f)
		}
	}
	for i := range rest {
		for j := i + 1; j < len(rest); j++ {
			if rest[j].Name() < rest[i].Name() {
				rest[i], rest[j] = rest[j], rest[i]
			}
		}
	}
	return append(out, rest...)
}

// ---- helpers of run(): call sites, guards, order ------------------------------------------------------------------

// t2HelperSites: f is an unexported package function (other than root) that is only ever called statically from
// package code: its call sites. nil when f can be entered in a way the checker does not see.
func t2HelperSites(p *Prog, root, f *ssa.Function) []ssa.Instruction {
	if f == nil || f == root || f.Parent() != nil || !p.InPkg(f) || (f.Object() != nil && f.Object().Exported()) || !p.staticOnly(f, nil) {
		return nil
	}
	node := p.CG.Nodes[f]
	if node == nil {
		return nil
	}
	var out []ssa.Instruction
	for _, e := range node.In {
		in, ok := e.Site.(ssa.Instruction)
		if !ok || !p.InPkg(e.Caller.Func) {
			return nil
		}
		out = append(out, in)
	}
	return out
}

// t2GuardedIP: `in` executes only after an edge satisfying pred was taken — on every path through its own function,
// or, when that function is a helper, on every path to each of its call sites (transitively, `depth` levels).
func t2GuardedIP(p *Prog, root *ssa.Function, in ssa.Instruction, pred EdgePred, depth int) bool {
	if Guarded(in, pred) {
		return true
	}
	if depth <= 0 {
		return false
	}
	sites := t2HelperSites(p, root, in.Parent())
	if len(sites) == 0 {
		return false
	}
	for _, s := range sites {
		if !t2GuardedIP(p, root, s, pred, depth-1) {
			return false
		}
	}
	return true
}

// t2AlwaysExecutes: every return of f is preceded by ev on every path (f performs ev whenever it returns).
func t2AlwaysExecutes(f *ssa.Function, ev ssa.Instruction) bool {
	if f == nil || ev.Parent() != f {
		return false
	}
	rets := returnsOf(f)
	if len(rets) == 0 {
		return false
	}
	for _, ret := range rets {
		if !MustPass(ret, func(x ssa.Instruction) bool { return x == ev }) {
			return false
		}
	}
	return true
}

// t2AlwaysAfter: whenever `at` executes, `ev` has been executed before it in the same activation of the code around it:
// every path from the entry of at's function passes ev (or a call of the function that always performs ev); when at's
// function is a helper that does not contain it, the same is asked of each call site of the helper.
func t2AlwaysAfter(p *Prog, root *ssa.Function, ev, at ssa.Instruction, depth int) bool {
	f := at.Parent()
	barrier := func(x ssa.Instruction) bool {
		if x == ev {
			return true
		}
		if c, ok := x.(ssa.CallInstruction); ok && ev.Parent() != f {
			if _, isGo := x.(*ssa.Go); isGo {
				return false
			}
			if _, isDefer := x.(*ssa.Defer); isDefer {
				return false
			}
			return c.Common().StaticCallee() == ev.Parent() && t2AlwaysExecutes(ev.Parent(), ev)
		}
		return false
	}
	if ReachesInstr(f.Blocks[0], at) && MustPass(at, barrier) {
		return true
	}
	if depth <= 0 || ev.Parent() == f {
		return false
	}
	sites := t2HelperSites(p, root, f)
	if len(sites) == 0 {
		return false
	}
	for _, s := range sites {
		if !t2AlwaysAfter(p, root, ev, s, depth-1) {
			return false
		}
	}
	return true
}

// t2MustPassFromEdges: MustPassFrom that does not follow the edges on which prune holds (paths the question is not
// about): every remaining path from (start, from) to target executes a barrier first.
func t2MustPassFromEdges(start *ssa.BasicBlock, from int, target ssa.Instruction, barrier func(ssa.Instruction) bool, prune EdgePred) bool {
	tb, ti := target.Block(), instrIndex(target)
	reached := false
	scan := func(b *ssa.BasicBlock, i int) bool {
		for ; i < len(b.Instrs); i++ {
			if b == tb && i == ti {
				reached = true
				return false
			}
			if barrier(b.Instrs[i]) {
				return false
			}
		}
		return true
	}
	seen := map[*ssa.BasicBlock]bool{}
	var work []*ssa.BasicBlock
	push := func(b *ssa.BasicBlock) {
		for i, s := range b.Succs {
			if prune != nil && edgeEstablishes(b, i, prune) {
				continue
			}
			if !seen[s] {
				seen[s] = true
				work = append(work, s)
			}
		}
	}
	if scan(start, from) {
		push(start)
	}
	for len(work) > 0 && !reached {
		b := work[len(work)-1]
		work = work[:len(work)-1]
		if scan(b, 0) {
			push(b)
		}
	}
	return !reached
}

// ---- the verbatim mode flag -----------------------------------------------------------------------------------------

func t2IsModeStore(in ssa.Instruction) bool {
	st, ok := in.(*ssa.Store)
	return ok && isFieldAddrOf(st.Addr, "lexer", "inVerbatim")
}

// t2StoresMode: f (or a package function it calls statically, `depth` levels) stores the verbatim flag.
func t2StoresMode(p *Prog, f *ssa.Function, depth int) bool {
	if f == nil || f.Blocks == nil || !p.InPkg(f) {
		return false
	}
	for _, b := range f.Blocks {
		for _, in := range b.Instrs {
			if t2IsModeStore(in) {
				return true
			}
			if c, ok := in.(ssa.CallInstruction); ok && depth > 0 && c.Common().StaticCallee() != f {
				if t2StoresMode(p, c.Common().StaticCallee(), depth-1) {
					return true
				}
			}
		}
	}
	return false
}

// t2FreshModeLoad: v is a load of lexer.inVerbatim in the block of `use`, before it, and nothing between the load and
// `use` can change the flag (no store of it, no call of a package function that stores it, no dynamic call).
func t2FreshModeLoad(p *Prog, v ssa.Value, use ssa.Instruction) bool {
	ld, ok := v.(*ssa.UnOp)
	if !ok || ld.Op != token.MUL || !isFieldAddrOf(ld.X, "lexer", "inVerbatim") || ld.Block() != use.Block() {
		return false
	}
	i, j := instrIndex(ld), instrIndex(use)
	if i < 0 || j < 0 || i > j {
		return false
	}
	for _, x := range use.Block().Instrs[i+1 : j] {
		if t2IsModeStore(x) {
			return false
		}
		if c, isCall := x.(ssa.CallInstruction); isCall {
			if _, isBuiltin := c.Common().Value.(*ssa.Builtin); isBuiltin {
				continue
			}
			callee := c.Common().StaticCallee()
			if callee == nil || t2StoresMode(p, callee, 2) {
				return false
			}
		}
	}
	return true
}

// t2IsToggle: st is `l.inVerbatim = !l.inVerbatim`.
func t2IsToggle(p *Prog, st *ssa.Store) bool {
	if !t2IsModeStore(st) {
		return false
	}
	u, ok := st.Val.(*ssa.UnOp)
	return ok && u.Op == token.NOT && t2FreshModeLoad(p, u.X, st)
}

// ---- R-C06-REDISPATCH through a helper that reports the switch ------------------------------------------------------

// t2BoolResultsAfter: the constants a bool function can return on paths that executed s. known=false when some such
// return yields a value that is not a constant (directly or as the operand of a phi).
func t2BoolResultsAfter(h *ssa.Function, s ssa.Instruction) (vals map[bool]bool, known bool) {
	vals = map[bool]bool{}
	for _, ret := range returnsOf(h) {
		if len(ret.Results) != 1 || !ReachesFromInstr(s, ret) {
			continue
		}
		switch x := res(ret, 0).(type) {
		case *ssa.Const:
			bv, isB := constBool(x)
			if !isB {
				return vals, false
			}
			vals[bv] = true
		case *ssa.Phi:
			for i, e := range x.Edges {
				pred := x.Block().Preds[i]
				if len(pred.Instrs) == 0 || !ReachesFromInstr(s, pred.Instrs[len(pred.Instrs)-1]) {
					continue
				}
				bv, isB := constBool(e)
				if !isB {
					return vals, false
				}
				vals[bv] = true
			}
		default:
			return vals, false
		}
	}
	return vals, true
}

// t2InnermostLoopHeader: the header of the innermost natural loop of in's function that contains in (nil if none).
func t2InnermostLoopHeader(in ssa.Instruction) *ssa.BasicBlock {
	var hdr *ssa.BasicBlock
	for _, h := range in.Parent().Blocks {
		if !h.Dominates(in.Block()) {
			continue
		}
		back := false
		for _, pr := range h.Preds {
			if h.Dominates(pr) && ReachableBlocks(in.Block())[pr] {
				back = true
			}
		}
		if back && (hdr == nil || hdr.Dominates(h)) {
			hdr = h
		}
	}
	return hdr
}

// t2RedispatchViaHelper judges a call of run() to a helper that switches the verbatim mode and tells so by its bool
// result (`if l.lexVerbatimTag() { continue }`). For every store of the flag inside the helper:
//   - no rune is consumed inside the helper after the store,
//   - the helper's result after the store is one constant K,
//   - in run(), no rune is consumed between the call and the branch(es) on its result, and from the K edge of each such
//     branch control returns to the head of the scanning loop (`first`) before a rune is consumed.
//
// Returns false (nothing reported) when the shape is not this one: the caller then judges the call as a whole, i.e.
// as if the mode was switched on every path leaving it.
func t2RedispatchViaHelper(p *Prog, r *Report, next *ssa.Function, call ssa.CallInstruction, first ssa.Instruction, consumes []ssa.Instruction) bool {
	h := call.Common().StaticCallee()
	cv, isVal := call.(*ssa.Call)
	if h == nil || !isVal || h.Blocks == nil || h.Signature.Results().Len() != 1 {
		return false
	}
	if bt, ok := h.Signature.Results().At(0).Type().Underlying().(*types.Basic); !ok || bt.Kind() != types.Bool {
		return false
	}
	var stores []*ssa.Store
	var hConsumes []ssa.Instruction
	for _, b := range h.Blocks {
		for _, in := range b.Instrs {
			if t2IsModeStore(in) {
				stores = append(stores, in.(*ssa.Store))
				continue
			}
			if c, ok := in.(ssa.CallInstruction); ok {
				callee := c.Common().StaticCallee()
				if callee == next {
					hConsumes = append(hConsumes, in)
				} else if callee != nil && callee != h && t2StoresMode(p, callee, 2) {
					return false // the switch is nested deeper: not related here
				}
			}
		}
	}
	if len(stores) == 0 || cv.Referrers() == nil {
		return false
	}
	// the branches of run() on the result (possibly negated); any other use of the result: not this shape
	var ifs []*ssa.If
	var collect func(v ssa.Value, d int) bool
	collect = func(v ssa.Value, d int) bool {
		var rs []ssa.Instruction
		switch x := v.(type) {
		case *ssa.Call:
			rs = *x.Referrers()
		case *ssa.UnOp:
			rs = *x.Referrers()
		}
		for _, u := range rs {
			switch u := u.(type) {
			case *ssa.If:
				ifs = append(ifs, u)
			case *ssa.DebugRef:
			case *ssa.UnOp:
				if u.Op != token.NOT || d > 2 || !collect(u, d+1) {
					return false
				}
			default:
				return false
			}
		}
		return true
	}
	if !collect(cv, 0) || len(ifs) == 0 {
		return false
	}
	for _, iff := range ifs {
		b := iff.Block()
		if c, _ := normCond(iff.Cond, true); c != ssa.Value(cv) || len(b.Succs) != 2 || b.Succs[0] == b.Succs[1] {
			return false
		}
	}
	type judged struct {
		st *ssa.Store
		k  bool
	}
	var js []judged
	for _, st := range stores {
		vals, known := t2BoolResultsAfter(h, st)
		if !known || len(vals) != 1 {
			return false
		}
		for k := range vals {
			js = append(js, judged{st, k})
		}
	}
	isIf := func(x ssa.Instruction) bool {
		for _, iff := range ifs {
			if x == ssa.Instruction(iff) {
				return true
			}
		}
		return false
	}
	for i, j := range js {
		bad := ""
		// inside the helper
		for _, c := range hConsumes {
			if !ReachesFromInstr(j.st, c) {
				continue
			}
			hh := t2InnermostLoopHeader(j.st)
			if hh == nil || !MustPassFrom(j.st.Block(), instrIndex(j.st)+1, c, func(x ssa.Instruction) bool { return x == hh.Instrs[0] }) {
				bad = p.InstrPos(c)
			}
		}
		// in run(): up to the test of the result …
		for _, c := range consumes {
			if bad == "" && !MustPassFrom(cv.Block(), instrIndex(cv)+1, c, func(x ssa.Instruction) bool { return x == first || isIf(x) }) {
				bad = p.InstrPos(c)
			}
		}
		// … and from the edge on which the helper reported the switch
		for _, iff := range ifs {
			b := iff.Block()
			_, pol := normCond(iff.Cond, true) // on Succs[0] the call's value is pol
			succ := b.Succs[1]
			if pol == j.k {
				succ = b.Succs[0]
			}
			for _, cons := range consumes {
				if bad == "" && !MustPassFrom(succ, 0, cons, func(x ssa.Instruction) bool { return x == first }) {
					bad = p.InstrPos(cons)
				}
			}
		}
		var keys []string
		if bv, isC := constBool(j.st.Val); isC {
			keys = []string{map[bool]string{true: "run:enter-verbatim", false: "run:leave-verbatim"}[bv]}
		} else if t2IsToggle(p, j.st) {
			keys = []string{"run:leave-verbatim", "run:enter-verbatim"} // a toggle is both switches
		} else {
			keys = []string{"run:mode-switch#" + strconv.Itoa(i) + " via " + h.Name()}
		}
		for _, key := range keys {
			if bad != "" {
				r.Bad(key, p.InstrPos(j.st), "after this switch of verbatim mode (in %s, called at %s) the loop goes on to consume a rune (next() at %s) without re-examining the input at the new position: an end/start tag directly behind it is missed (empty or adjacent verbatim blocks fail to compile)", h.Name(), p.InstrPos(cv), bad)
			} else {
				r.OK(key, p.InstrPos(j.st), "%s returns %v after the switch, and on that result run() returns to the head of the scanning loop before the next rune is consumed", h.Name(), j.k)
			}
		}
	}
	return true
}

// ---- R-C06-VERBTAG: patterns chosen by the mode, deciders at the call sites of a helper ------------------------------

// t2EdgeFeasibleUnderMode: can the i-th incoming edge of blk be taken when lexer.inVerbatim == m (the flag being
// unchanged since the function was entered)?
func t2EdgeFeasibleUnderMode(blk *ssa.BasicBlock, i int, m bool) bool {
	pr := blk.Preds[i]
	isMode := func(c ssa.Value) bool { return loadsField(c, "lexer", "inVerbatim") }
	if n := len(pr.Instrs); n > 0 {
		if iff, ok := pr.Instrs[n-1].(*ssa.If); ok && len(pr.Succs) == 2 && pr.Succs[0] != pr.Succs[1] {
			if c, pol := normCond(iff.Cond, true); isMode(c) {
				val := pol // the flag's value on Succs[0]
				if pr.Succs[1] == blk {
					val = !pol
				}
				return val == m
			}
		}
	}
	// pr itself is reached only when the flag has the other value
	if GuardedFrom(blk.Parent().Blocks[0], pr, func(c ssa.Value, pol bool) bool { return isMode(c) && pol == !m }) {
		return false
	}
	return true
}

// t2PatternUnderMode: the constant pattern of the regexp value v used at `at`; when v is a phi (a local variable
// assigned under `if l.inVerbatim`) and the switch `sw` is judged under an assumption about the flag (mode != nil),
// the one operand whose edge is feasible under that assumption. The flag must not change between the function entry
// and `at`/`sw` (no store of it reaches them).
func t2PatternUnderMode(p *Prog, v ssa.Value, mode *bool, at, sw ssa.Instruction) (string, bool) {
	return t2PatternUnderModeD(p, v, mode, at, sw, 0)
}

func t2PatternUnderModeD(p *Prog, v ssa.Value, mode *bool, at, sw ssa.Instruction, depth int) (string, bool) {
	if pat, ok := constPatternOf(p, v); ok {
		return pat, true
	}
	if depth > 4 {
		return "", false
	}
	if u, ok := v.(*ssa.UnOp); ok {
		if sv := localLoadValue(u); sv != nil {
			return t2PatternUnderModeD(p, sv, mode, at, sw, depth+1)
		}
		return "", false
	}
	phi, ok := v.(*ssa.Phi)
	if !ok || mode == nil {
		return "", false
	}
	f := phi.Parent()
	for _, b := range f.Blocks {
		for _, x := range b.Instrs {
			if !t2IsModeStore(x) {
				continue
			}
			if (at.Parent() == f && ReachesFromInstr(x, at)) || (sw.Parent() == f && ReachesFromInstr(x, sw)) {
				return "", false
			}
		}
	}
	pats := map[string]bool{}
	one := ""
	for i, e := range phi.Edges {
		if !t2EdgeFeasibleUnderMode(phi.Block(), i, *mode) {
			continue
		}
		pat, ok := t2PatternUnderModeD(p, e, mode, at, sw, depth+1)
		if !ok {
			return "", false
		}
		pats[pat], one = true, pat
	}
	if len(pats) != 1 {
		return "", false
	}
	return one, true
}

// t2DeciderCtx: the deciding conditions of one switch along one call path from run().
type t2DeciderCtx struct {
	ds     []verbDecider
	opaque string
}

// t2DeciderContexts: the deciders of `in` in its own function; when that function is a helper of run(), joined with the
// deciders at each of its call sites (one context per call path, `depth` levels up).
func t2DeciderContexts(p *Prog, run *ssa.Function, in ssa.Instruction, mode *bool, depth int) []t2DeciderCtx {
	ds, opaque := decidersOf(p, in, mode)
	local := t2DeciderCtx{ds, opaque}
	if depth <= 0 {
		return []t2DeciderCtx{local}
	}
	sites := t2HelperSites(p, run, in.Parent())
	if len(sites) == 0 {
		return []t2DeciderCtx{local}
	}
	var out []t2DeciderCtx
	for _, s := range sites {
		for _, up := range t2DeciderContexts(p, run, s, mode, depth-1) {
			c := t2DeciderCtx{append(append([]verbDecider{}, ds...), up.ds...), opaque}
			if c.opaque == "" {
				c.opaque = up.opaque
			}
			out = append(out, c)
		}
	}
	return out
}
