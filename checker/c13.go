package main

// C13 — macros: R-C13-GUARD (depth guard on every route), PAIR, ARGS, SAFE.

import (
	"go/token"
	"go/types"

	"golang.org/x/tools/go/ssa"
)

func init() { register("C13", checkC13) }

// depthHolder: the struct that holds the macro depth counter (ExecutionContext itself, or the per-rendering record it
// points to); set by resolveMacroAnchors.
var depthHolder = "ExecutionContext"

type macroAnchors struct {
	depthField string
	bodies     []*ssa.Function // functions that execute a macro's wrapper
}

func resolveMacroAnchors(p *Prog, a *Anchors, r *Report) *macroAnchors {
	ma := &macroAnchors{}
	// depth counter: an int field of ExecutionContext, or of a record the context points to (what all contexts of a
	// rendering share)
	type hf struct{ holder, field string }
	var ints []hf
	intFields := func(n *types.Named) {
		st, ok := n.Underlying().(*types.Struct)
		if !ok {
			return
		}
		for i := 0; i < st.NumFields(); i++ {
			if b, ok := st.Field(i).Type().Underlying().(*types.Basic); ok && b.Info()&types.IsInteger != 0 {
				ints = append(ints, hf{n.Obj().Name(), st.Field(i).Name()})
			}
		}
	}
	intFields(a.ExecCtx)
	st := a.ExecCtx.Underlying().(*types.Struct)
	for i := 0; i < st.NumFields(); i++ {
		if pt, ok := st.Field(i).Type().(*types.Pointer); ok {
			if n, ok := pt.Elem().(*types.Named); ok && n.Obj().Pkg() == a.ExecCtx.Obj().Pkg() && n != a.Template {
				intFields(n)
			}
		}
	}
	if p.Named("tagMacroNode") == nil {
		r.Unk("anchor", "-", "anchor unresolved: type tagMacroNode")
		return nil
	}
	if len(ints) > 1 {
		// several counters: the macro depth is the one that is incremented (x = x + 1) in a function that executes
		// a macro's body
		var cands []hf
		p.EachInstr(func(f *ssa.Function, in ssa.Instruction) {
			st, ok := in.(*ssa.Store)
			if !ok {
				return
			}
			fa, ok := st.Addr.(*ssa.FieldAddr)
			if !ok || structOf(fa.X.Type()) == nil {
				return
			}
			cand := hf{structOf(fa.X.Type()).Obj().Name(), fieldName(fa.X.Type(), fa.Field)}
			known := false
			for _, c := range ints {
				if c == cand {
					known = true
				}
			}
			if !known {
				return
			}
			bo, ok := st.Val.(*ssa.BinOp)
			if !ok || bo.Op != token.ADD {
				return
			}
			// … in a function that runs a macro's body (or calls, one hop, the function that does), or in a step helper
			// (enterMacroCall) that such a function calls
			depthHolder = cand.holder
			execsBody := macroBodyExecutor(p, f) || steppedByExecutor(p, st, cand.field)
			if execsBody {
				dup := false
				for _, c := range cands {
					if c == cand {
						dup = true
					}
				}
				if !dup {
					cands = append(cands, cand)
				}
			}
		})
		ints = cands
	}
	if len(ints) != 1 {
		depthHolder = "ExecutionContext"
		r.Unk("anchor", "-", "anchor unresolved: macro depth counter (exactly one integer field of ExecutionContext, or of a record it points to, that the macro body executor increments expected, found %v)", ints)
		return nil
	}
	depthHolder = ints[0].holder
	ma.depthField = ints[0].field
	p.EachInstr(func(f *ssa.Function, in ssa.Instruction) {
		ci, ok := in.(ssa.CallInstruction)
		if !ok {
			return
		}
		cc := ci.Common()
		callee := cc.StaticCallee()
		if callee == nil || callee.Name() != "Execute" || len(cc.Args) == 0 {
			return
		}
		if loadsField(cc.Args[0], "tagMacroNode", "wrapper") {
			for _, b := range ma.bodies {
				if b == f {
					return
				}
			}
			ma.bodies = append(ma.bodies, f)
		}
	})
	if len(ma.bodies) == 0 {
		r.Unk("anchor", "-", "anchor unresolved: no function executes tagMacroNode.wrapper")
		return nil
	}
	return ma
}

// depthCmp: cond compares the depth counter with a constant; returns the polarity under which depth is WITHIN the cap.
func depthCmp(c ssa.Value, field string) (withinWhen bool, capv int64, ok bool) {
	b, isBin := c.(*ssa.BinOp)
	if !isBin {
		return false, 0, false
	}
	ld, k := b.X, b.Y
	op := b.Op
	if _, isConst := constInt(ld); isConst {
		ld, k = k, ld
		switch op {
		case token.GTR:
			op = token.LSS
		case token.LSS:
			op = token.GTR
		case token.GEQ:
			op = token.LEQ
		case token.LEQ:
			op = token.GEQ
		}
	}
	kv, isConst := constInt(k)
	if !isConst || !loadsField(ld, depthHolder, field) {
		return false, 0, false
	}
	switch op {
	case token.GTR, token.GEQ:
		return false, kv, true // depth > cap is the exceeding edge; within on the false edge
	case token.LSS, token.LEQ:
		return true, kv, true
	}
	return false, 0, false
}

func isDepthStore(in ssa.Instruction, field string, op token.Token) bool {
	st, ok := in.(*ssa.Store)
	if !ok || !isFieldAddrOf(st.Addr, depthHolder, field) {
		return false
	}
	b, ok := st.Val.(*ssa.BinOp)
	if !ok || b.Op != op {
		return false
	}
	k, isConst := constInt(b.Y)
	return isConst && k == 1 && loadsField(b.X, depthHolder, field)
}

// guardedSite: instruction `site` in function g is preceded on every path by an increment of the depth counter
// and reached only on the within-cap edge of a comparison with a constant, whose exceeding edge returns an error.
func guardedSite(p *Prog, g *ssa.Function, site ssa.Instruction, field string) (bool, string) {
	inc := MustPass(site, func(x ssa.Instruction) bool { return isDepthStep(p, x, field, token.ADD) })
	if !inc {
		return false, "no increment of " + depthHolder + "." + field + " on every path to it"
	}
	var capv int64
	cmp := Guarded(site, func(c ssa.Value, pol bool) bool {
		if kv, ok := depthWithin(p, c, pol, field); ok {
			capv = kv
			return true
		}
		return false
	})
	if !cmp {
		return false, "not restricted to the within-cap edge of a comparison of " + depthHolder + "." + field + " with a constant"
	}
	// find the comparison's exceeding edge and check that it returns an error
	cmpBlock, cmpIdx := depthExceedingEdge(p, g, field)
	if cmpBlock == nil || !errorReturnsOnly(g, cmpBlock.Succs[cmpIdx]) {
		return false, "the exceeding edge of the depth comparison does not end in an error return"
	}
	if capv <= 0 || capv > 100000 {
		return false, "depth cap constant out of a sane range"
	}
	return true, ""
}

func checkC13(p *Prog, r *Report) {
	a := ResolveAnchors(p)
	if !anchorCheck(a, r) {
		return
	}
	r.Begin("R-C13-ANCHORS", "depth counter and macro body executors found by role", 1)
	ma := resolveMacroAnchors(p, a, r)
	if ma == nil {
		return
	}
	r.Trivial("anchors", "-", "depth counter %s.%s; %d function(s) execute a macro body", depthHolder, ma.depthField, len(ma.bodies))

	ruleC13Guard(p, a, ma, r, "R-C13-GUARD")

	r.Begin("R-C13-PAIR", "every increment of the depth counter is undone on every exit (defer or all paths)", 1)
	p.EachInstr(func(f *ssa.Function, in ssa.Instruction) {
		if !isDepthStore(in, ma.depthField, token.ADD) {
			return
		}
		// an increment that stands in a step helper (enterMacroCall) is undone where the helper is called: at every
		// call site, or the increment is reported where it stands
		key := p.FuncName(f) + ":inc"
		sites := depthIncSites(p, in, ma.depthField, 2)
		if len(sites) == 1 && sites[0] == in {
			if ok, how, off := depthUndone(p, in, ma.depthField); ok {
				r.OK(key, p.InstrPos(in), "%s", how)
			} else {
				r.Bad(key, p.InstrPos(in), "the depth counter is incremented but a return at %s is reachable without the decrement: legitimate call sequences accumulate depth and hit the cap", p.InstrPos(off))
			}
			return
		}
		for _, site := range sites {
			if ok, _, off := depthUndone(p, site, ma.depthField); !ok {
				r.Bad(key, p.InstrPos(in), "the depth counter is incremented (on behalf of %s, at %s) but a return at %s is reachable without the decrement: legitimate call sequences accumulate depth and hit the cap", p.FuncName(site.Parent()), p.InstrPos(site), p.InstrPos(off))
				return
			}
		}
		for _, site := range sites {
			_, how, _ := depthUndone(p, site, ma.depthField)
			r.OK(p.FuncName(site.Parent())+":inc", p.InstrPos(site), "%s (the increment stands in %s)", how, p.FuncName(f))
		}
	})

	r.Begin("R-C13-ARGS", "positional binding is reached only when len(args) <= len(parameter names); the other edge returns an error", 1)
	for _, f := range ma.bodies {
		n := 0
		for _, b := range f.Blocks {
			for _, in := range b.Instrs {
				ia, ok := in.(*ssa.IndexAddr)
				if !ok || !loadsField(ia.X, "tagMacroNode", "argsOrder") {
					continue
				}
				// the index of a loop that walks argsOrder itself is bounded by its own length
				if hdr := loopHeaderOf(ia.Index); hdr != nil && ascendingIndex(ia.Index) && loopBoundIsLenOf(p, hdr, ia.X) {
					continue
				}
				n++
				key := p.FuncName(f) + ":argsOrder[idx]"
				var cmpIf *ssa.If
				g := Guarded(in, func(c ssa.Value, pol bool) bool {
					bo, ok := c.(*ssa.BinOp)
					if !ok {
						return false
					}
					lx, ly := lenOperand(bo.X), lenOperand(bo.Y)
					if lx == nil || ly == nil {
						return false
					}
					argsLeft := isVariadicParam(f, lx) && loadsField(ly, "tagMacroNode", "argsOrder")
					argsRight := isVariadicParam(f, ly) && loadsField(lx, "tagMacroNode", "argsOrder")
					switch {
					case argsLeft && bo.Op == token.GTR && !pol, argsLeft && bo.Op == token.LEQ && pol,
						argsRight && bo.Op == token.LSS && !pol, argsRight && bo.Op == token.GEQ && pol:
						return true
					}
					return false
				})
				_ = cmpIf
				if !g {
					r.Bad(key, p.InstrPos(in), "argsOrder is indexed by the argument position without a preceding len(args) > len(argsOrder) test: too many arguments panic (index out of range) instead of an execution error")
					continue
				}
				// the too-many edge returns an error
				okErr := false
				for _, bb := range f.Blocks {
					if len(bb.Instrs) == 0 {
						continue
					}
					if iff, ok := bb.Instrs[len(bb.Instrs)-1].(*ssa.If); ok {
						c, pol := normCond(iff.Cond, true)
						if bo, ok := c.(*ssa.BinOp); ok && lenOperand(bo.X) != nil && lenOperand(bo.Y) != nil && (isVariadicParam(f, lenOperand(bo.X)) || isVariadicParam(f, lenOperand(bo.Y))) {
							idx := 0
							tooMany := (isVariadicParam(f, lenOperand(bo.X)) && (bo.Op == token.GTR)) || (isVariadicParam(f, lenOperand(bo.Y)) && bo.Op == token.LSS)
							if tooMany != pol {
								idx = 1
							}
							if errorReturnsOnly(f, bb.Succs[idx]) {
								okErr = true
							}
						}
					}
				}
				if okErr {
					r.OK(key, p.InstrPos(in), "guarded by len(args) <= len(argsOrder); the too-many edge returns a non-nil error")
				} else {
					r.Bad(key, p.InstrPos(in), "the too-many-arguments edge does not return an error")
				}
			}
		}
		if n == 0 {
			r.Unk(p.FuncName(f)+":argsOrder", p.Pos(f.Pos()), "no positional binding through argsOrder found in the macro body executor")
		}
	}

	ruleMacroBindAll(p, ma, r, "R-C13-BINDALL")
	ruleC13LazyDefaults(p, ma, r)
	ruleC13Self(p, a, ma, r)
	ruleStateScope(p, a, r, "R-C13-STATESCOPE")

	r.Begin("R-C13-POS", "the i-th argument is bound to the i-th parameter name, after (so overriding) the defaults", 1)
	update := p.Method("Context", "Update")
	for _, f := range ma.bodies {
		for _, b := range f.Blocks {
			for _, in := range b.Instrs {
				mu, ok := in.(*ssa.MapUpdate)
				if !ok || !loadsField(mu.Map, "ExecutionContext", "Private") {
					continue
				}
				ku, ok := mu.Key.(*ssa.UnOp)
				if !ok || ku.Op != token.MUL {
					continue
				}
				kia, ok := ku.X.(*ssa.IndexAddr)
				if !ok || !loadsField(kia.X, "tagMacroNode", "argsOrder") {
					continue
				}
				key := p.FuncName(f) + ":bind"
				// value: derived from args[J]
				var vidx ssa.Value
				var walk func(v ssa.Value, d int)
				walk = func(v ssa.Value, d int) {
					if d > 6 || vidx != nil {
						return
					}
					switch x := v.(type) {
					case *ssa.UnOp:
						if ia, ok := x.X.(*ssa.IndexAddr); ok && isVariadicParam(f, ia.X) {
							vidx = ia.Index
							return
						}
						walk(x.X, d+1)
					case *ssa.Call:
						for _, a := range callArgs(x.Common()) {
							walk(a, d+1)
						}
					case *ssa.MakeInterface:
						walk(x.X, d+1)
					case *ssa.ChangeType:
						walk(x.X, d+1)
					}
				}
				walk(mu.Value, 0)
				if vidx == nil {
					r.Bad(key, p.InstrPos(in), "the value bound to argsOrder[i] is not derived from args[i] (%s)", p.VN(mu.Value))
				} else if vidx != kia.Index {
					r.Bad(key, p.InstrPos(in), "parameter name index %s and argument index %s differ: arguments are bound to the wrong parameters", p.VN(kia.Index), p.VN(vidx))
				} else {
					r.OK(key, p.InstrPos(in), "name and value use the same position index")
					// the value is bound as it arrived (the *Value with its safe mark), not stripped through Interface():
					// a macro's (already escaped) result handed to another macro must not be escaped a second time
					stripped := false
					if mi, isMI := mu.Value.(*ssa.MakeInterface); isMI {
						if c, isCall := mi.X.(*ssa.Call); isCall && c.Common().StaticCallee() != nil && c.Common().StaticCallee().Name() == "Interface" {
							stripped = true
						}
					}
					if c, isCall := mu.Value.(*ssa.Call); isCall && c.Common().StaticCallee() != nil && c.Common().StaticCallee().Name() == "Interface" {
						stripped = true
					}
					if stripped {
						r.Bad(key+":as-value", p.InstrPos(in), "the argument is bound as Interface() of the *Value it arrived in: its safe mark is lost, so {{ outer(inner(x)) }} escapes the inner macro's output again while a default or a with/set binding of the same value keeps the mark")
					} else {
						r.OK(key+":as-value", p.InstrPos(in), "the argument is bound as the *Value it arrived in")
					}
				}
				// defaults first
				dom := false
				if update != nil {
					for _, c := range callsTo(f, update) {
						if loadsField(c.Common().Args[0], "ExecutionContext", "Private") && Dominates(c.(ssa.Instruction), in) {
							dom = true
						}
					}
				}
				if dom {
					r.OK(key+":after-defaults", p.InstrPos(in), "defaults are merged into the macro context before the positional arguments")
				} else {
					r.Bad(key+":after-defaults", p.InstrPos(in), "positional arguments are not bound after the defaults were merged: defaults can override given arguments (or are missing)")
				}
			}
		}
	}

	r.Begin("R-C13-SAFE", "a macro call returns already-escaped markup: AsSafeValue of its rendered body (or of a constant)", 2)
	asSafe := p.Func("AsSafeValue")
	for _, f := range ma.bodies {
		for _, ret := range returnsOf(f) {
			if len(ret.Results) == 0 {
				continue
			}
			v := res(ret, 0)
			if u, ok := v.(*ssa.UnOp); ok {
				if sv := localLoadValue(u); sv != nil {
					v = sv
				}
			}
			key := p.FuncName(f) + ":return"
			c, ok := v.(*ssa.Call)
			if !ok || c.Common().StaticCallee() != asSafe {
				if isNilConst(v) {
					r.Trivial(key, p.InstrPos(ret), "nil result with an error")
					continue
				}
				r.Bad(key, p.InstrPos(ret), "the macro's result %s is not AsSafeValue(...): the rendered body would be escaped a second time (or unrendered data returned)", p.VN(v))
				continue
			}
			arg := stripConv(c.Common().Args[0])
			if _, isConst := constString(arg); isConst {
				r.OK(key, p.InstrPos(ret), "safe constant")
			} else if isRenderedBuffer(p, arg) {
				r.OK(key, p.InstrPos(ret), "safe rendered body (content of a local buffer written only by the body's Execute)")
			} else {
				r.Bad(key, p.InstrPos(ret), "AsSafeValue(%s): the value marked safe is not the rendered body of the macro", p.VN(arg))
			}
		}
	}
}

func lenOperand(v ssa.Value) ssa.Value {
	c, ok := v.(*ssa.Call)
	if !ok {
		return nil
	}
	if b, ok := c.Common().Value.(*ssa.Builtin); ok && b.Name() == "len" {
		return c.Common().Args[0]
	}
	return nil
}

func isVariadicParam(f *ssa.Function, v ssa.Value) bool {
	if u, ok := v.(*ssa.UnOp); ok {
		if sv := localLoadValue(u); sv != nil {
			v = sv
		}
	}
	pa, ok := v.(*ssa.Parameter)
	if !ok || !f.Signature.Variadic() {
		return false
	}
	return pa == f.Params[len(f.Params)-1]
}

// isRenderedBuffer: v is buf.String()/Bytes() of a buffer allocated in this function.
func isRenderedBuffer(p *Prog, v ssa.Value) bool {
	c, ok := v.(*ssa.Call)
	if !ok {
		return false
	}
	callee := c.Common().StaticCallee()
	if callee == nil {
		return false
	}
	n := p.extName(callee)
	if n != "(*bytes.Buffer).String" && n != "(*bytes.Buffer).Bytes" && n != "(*strings.Builder).String" {
		return false
	}
	return allFresh(p.Roots(c.Common().Args[0]))
}

// ruleC13Guard: every route into a macro body passes the depth guard.
func ruleC13Guard(p *Prog, a *Anchors, ma *macroAnchors, r *Report, rule string) {
	r.Begin(rule, "every route into a macro body increments the depth counter and is reached only on the within-cap edge of a comparison with a constant whose other edge returns an error", 1)
	for _, body := range ma.bodies {
		// does the body executor guard itself? every call in it that can run template code (the body, default
		// expressions, helpers doing either) must come after the increment and on the within-cap edge
		selfOK := true
		why := ""
		nSites := 0
		for _, b := range body.Blocks {
			for _, in := range b.Instrs {
				ci, ok := in.(ssa.CallInstruction)
				if !ok {
					continue
				}
				if _, isDefer := in.(*ssa.Defer); isDefer {
					continue
				}
				if !runsTemplateCode(p, ci, 3) {
					continue
				}
				nSites++
				if ok, w := guardedSite(p, body, in, ma.depthField); !ok {
					selfOK = false
					why = w + " (at " + p.InstrPos(in) + ": " + p.calleeName(ci.Common()) + ")"
				}
			}
		}
		if nSites == 0 {
			selfOK = false
			why = "no template-code call found"
		}
		if selfOK {
			r.OK(p.FuncName(body)+":self-guarded", p.Pos(body.Pos()), "the body executor checks the depth itself before any of its %d template-code calls: every caller is covered", nSites)
		}
		// otherwise every call site must be guarded in its function
		callers := p.Callers(p.CG, body)
		if len(callers) == 0 && !selfOK {
			r.Bad(p.FuncName(body)+":no-callers", p.Pos(body.Pos()), "macro body executor neither guards itself (%s) nor has analysable callers", why)
		}
		for _, e := range callers {
			g := e.Site.Parent()
			key := p.FuncName(g) + "→" + p.FuncName(body)
			// arguments are forwarded unchanged (imported macros behave like local ones)
			if args := e.Site.Common().Args; len(args) > 0 && body.Signature.Variadic() {
				last := args[len(args)-1]
				if !isVariadicParam(g, last) {
					r.Bad(key+":forward", p.InstrPos(e.Site), "the macro wrapper does not forward its own argument list unchanged to the macro body (%s)", p.VN(last))
				} else {
					r.OK(key+":forward", p.InstrPos(e.Site), "argument list forwarded unchanged")
				}
			}
			// the depth must be counted on a context that outlives the call (the one the macro was registered
			// in): a context created per call starts at depth 0 every time
			for _, arg := range e.Site.Common().Args {
				if types.Identical(arg.Type(), types.NewPointer(a.ExecCtx)) {
					rs := p.Roots(arg)
					if allFresh(rs) {
						r.Bad(key+":ctx", p.InstrPos(e.Site), "the macro body is run on an execution context created for this very call (%s): its depth counter starts at 0 on every call, so recursion through this route is unbounded", rootsString(rs))
					} else {
						r.OK(key+":ctx", p.InstrPos(e.Site), "depth is counted on the registering context (%s)", rootsString(rs))
					}
				}
			}
			if selfOK {
				continue
			}
			if ok, w := guardedSite(p, g, e.Site, ma.depthField); ok {
				r.OK(key, p.InstrPos(e.Site), "call site passes the depth guard")
			} else {
				r.Bad(key, p.InstrPos(e.Site), "this route into a macro body bypasses the recursion guard (%s): a macro recursing through it exhausts the stack and kills the process", w)
			}
		}
	}
}

// runsTemplateCode: the call can execute template-supplied code: an interface call of Evaluate/Execute, a call of
// (*NodeWrapper).Execute, or a static in-package callee that (transitively, bounded) contains one.
func runsTemplateCode(p *Prog, ci ssa.CallInstruction, depth int) bool {
	cc := ci.Common()
	if cc.IsInvoke() {
		return cc.Method.Name() == "Evaluate" || cc.Method.Name() == "Execute"
	}
	callee := cc.StaticCallee()
	if callee == nil || !p.InPkg(callee) || callee.Blocks == nil {
		return false
	}
	if callee.Name() == "Execute" || callee.Name() == "Evaluate" {
		return true
	}
	if depth == 0 {
		return false
	}
	for _, b := range callee.Blocks {
		for _, in := range b.Instrs {
			if c2, ok := in.(ssa.CallInstruction); ok && runsTemplateCode(p, c2, depth-1) {
				return true
			}
		}
	}
	return false
}

// ruleMacroBindAll: every declared macro parameter gets an entry in the macro context on every call.
func ruleMacroBindAll(p *Prog, ma *macroAnchors, r *Report, rule string) {
	r.Begin(rule, "every declared parameter is bound in the macro context on every call (default value, or nil when there is none), so it shadows outer names", 1)
	for _, body := range ma.bodies {
		found := false
		f := body
		for _, fn := range clusterOf(p, body, 2) {
			f = fn
			for _, b := range f.Blocks {
				for _, in := range b.Instrs {
					rg, ok := in.(*ssa.Range)
					if !ok || !loadsField(rg.X, "tagMacroNode", "args") {
						continue
					}
					found = true
					var next *ssa.Next
					for _, u := range refs(rg) {
						if nx, ok := u.(*ssa.Next); ok {
							next = nx
						}
					}
					key := p.FuncName(f) + ":range args"
					if next == nil || len(next.Block().Succs) != 2 {
						r.Unk(key, p.InstrPos(in), "loop shape not recognised")
						continue
					}
					var kex ssa.Value
					for _, u := range refs(next) {
						if ex, ok := u.(*ssa.Extract); ok && ex.Index == 1 {
							kex = ex
						}
					}
					header := next.Block()
					ok2 := kex != nil && MustPassFrom(header.Succs[0], 0, header.Instrs[0], func(x ssa.Instruction) bool {
						mu, isMu := x.(*ssa.MapUpdate)
						return isMu && mu.Key == kex
					})
					if ok2 {
						r.OK(key, p.InstrPos(in), "every iteration stores an entry under the parameter's name (or returns an error)")
					} else {
						r.Bad(key, p.InstrPos(in), "a declared parameter can stay unbound (no entry stored for it on some path): an omitted parameter without default would resolve to a same-named outer variable instead of being empty")
					}
				}
			}
		}
		// the same walk in declaration order: a loop over the name list (argsOrder), each name bound in every iteration
		if !found {
			for _, fn := range clusterOf(p, body, 2) {
				for _, b := range fn.Blocks {
					for i, in := range b.Instrs {
						u, ok := in.(*ssa.UnOp)
						if !ok || u.Op != token.MUL {
							continue
						}
						ia, ok := u.X.(*ssa.IndexAddr)
						if !ok || !loadsField(ia.X, "tagMacroNode", "argsOrder") {
							continue
						}
						hdr := loopHeaderOf(ia.Index)
						if hdr == nil || !ascendingIndex(ia.Index) {
							continue // argsOrder[idx] for a positional argument, not the walk
						}
						// the loop must run over all of argsOrder: bound len(argsOrder)
						found = true
						key := p.FuncName(fn) + ":range args"
						ok2 := MustPassFrom(b, i+1, hdr.Instrs[0], func(x ssa.Instruction) bool {
							mu, isMu := x.(*ssa.MapUpdate)
							return isMu && mu.Key == ssa.Value(u)
						})
						if ok2 {
							r.OK(key, p.InstrPos(in), "every iteration over the declared names stores an entry under the parameter's name (or returns an error)")
						} else {
							r.Bad(key, p.InstrPos(in), "a declared parameter can stay unbound (no entry stored for it on some path): an omitted parameter without default would resolve to a same-named outer variable instead of being empty")
						}
					}
				}
			}
		}
		if !found {
			r.Bad(p.FuncName(body)+":range args", p.Pos(body.Pos()), "the macro body executor does not walk the declared parameters (tagMacroNode.args / argsOrder) to bind them")
		}
	}

}

// loopBoundIsLenOf: the loop headed at hdr continues on `i < len(sl)` (the shape of `for … range sl`).
func loopBoundIsLenOf(p *Prog, hdr *ssa.BasicBlock, sl ssa.Value) bool {
	for _, b := range []*ssa.BasicBlock{hdr} {
		iff, ok := b.Instrs[len(b.Instrs)-1].(*ssa.If)
		if !ok {
			continue
		}
		bo, ok := iff.Cond.(*ssa.BinOp)
		if !ok || bo.Op != token.LSS {
			continue
		}
		if l := lenOperand(bo.Y); l != nil && p.VN(l) == p.VN(sl) {
			return true
		}
	}
	return false
}

// ruleC13LazyDefaults: a parameter's default expression is evaluated only when the call does not supply that parameter
// ("omitted parameters bound to their default expression"): the evaluation of a default sits behind a comparison of the
// parameter's position with the number of arguments. An eager default fails the call (or recurses) for nothing.
func ruleC13LazyDefaults(p *Prog, ma *macroAnchors, r *Report) {
	r.Begin("R-C13-LAZYDEF", "a default expression is evaluated only for a parameter the call omits: its Evaluate is guarded by position >= number of arguments", 1)
	n := 0
	for _, body := range ma.bodies {
		for _, fn := range clusterOf(p, body, 2) {
			for _, b := range fn.Blocks {
				for _, in := range b.Instrs {
					c, ok := in.(*ssa.Call)
					if !ok || !c.Common().IsInvoke() || c.Common().Method.Name() != "Evaluate" {
						continue
					}
					// receiver: an element of tagMacroNode.args
					recv := c.Common().Value
					isDefault := false
					if ex, isEx := recv.(*ssa.Extract); isEx {
						if lk, isLk := ex.Tuple.(*ssa.Lookup); isLk && loadsField(lk.X, "tagMacroNode", "args") {
							isDefault = true
						}
						if nx, isNx := ex.Tuple.(*ssa.Next); isNx {
							if rg, isRg := nx.Iter.(*ssa.Range); isRg && loadsField(rg.X, "tagMacroNode", "args") {
								isDefault = true
							}
						}
					}
					if lk, isLk := recv.(*ssa.Lookup); isLk && loadsField(lk.X, "tagMacroNode", "args") {
						isDefault = true
					}
					if !isDefault {
						continue
					}
					n++
					key := p.FuncName(fn) + ":default"
					g := Guarded(in, func(cond ssa.Value, pol bool) bool {
						bo, ok := cond.(*ssa.BinOp)
						if !ok {
							return false
						}
						argsX := isArgCount(p, bo.X)
						argsY := isArgCount(p, bo.Y)
						switch {
						case argsY && bo.Op == token.LSS && !pol: // !(i < len(args))
							return true
						case argsY && bo.Op == token.GEQ && pol: // i >= len(args)
							return true
						case argsX && bo.Op == token.GTR && !pol: // !(len(args) > i)
							return true
						case argsX && bo.Op == token.LEQ && pol: // len(args) <= i
							return true
						}
						return false
					})
					if g {
						r.OK(key, p.InstrPos(in), "evaluated only when the parameter's position is not covered by the call's arguments")
					} else {
						r.Bad(key, p.InstrPos(in), "a default expression is evaluated although the call may supply the parameter: {%% macro m(a=lookup()) %%} … {{ m(1) }} fails when lookup() fails, and a default that calls the macro itself recurses to the depth limit")
					}
				}
			}
		}
	}
	if n == 0 {
		r.Bad("none", "-", "no evaluation of a default expression (an element of tagMacroNode.args) found: omitted parameters are not bound to their defaults")
	}
}

// isArgCount: v is len(args) of a variadic/slice parameter of *Value, or an int parameter of an extracted helper
// that receives exactly that at every call site.
func isArgCount(p *Prog, v ssa.Value) bool {
	if l := lenOperand(v); l != nil {
		return isVariadicParamAny(l)
	}
	if u, ok := v.(*ssa.UnOp); ok {
		if sv := localLoadValue(u); sv != nil {
			v = sv
		}
	}
	pa, ok := v.(*ssa.Parameter)
	if !ok || !isIntType(pa.Type()) {
		return false
	}
	acts := paramActuals(p, pa)
	if len(acts) == 0 {
		return false
	}
	for _, a := range acts {
		l := lenOperand(a)
		if l == nil || !isVariadicParamAny(l) {
			return false
		}
	}
	return true
}

// isVariadicParamAny: v is (a load of) a variadic/slice parameter of *Value elements of its function.
func isVariadicParamAny(v ssa.Value) bool {
	if u, ok := v.(*ssa.UnOp); ok {
		if sv := localLoadValue(u); sv != nil {
			v = sv
		}
	}
	pa, ok := v.(*ssa.Parameter)
	if !ok {
		return false
	}
	_, isSlice := pa.Type().Underlying().(*types.Slice)
	return isSlice
}

// ruleC13Self: a macro behaves the same however it was bound outside — locally, imported, imported under an alias.
// Its body refers to the macro by the name it was defined with (recursion), so that name is bound in the body's own
// context on every call; otherwise an aliased import silently renders the recursive call as nothing.
func ruleC13Self(p *Prog, a *Anchors, ma *macroAnchors, r *Report) {
	r.Begin("R-C13-SELF", "the macro's defined name is bound (to the macro) in the context its body runs in, on every call: recursion works the same for a local, an imported and an aliased macro", 1)
	for _, f := range ma.bodies {
		// the body execution: (*NodeWrapper).Execute on the macro's wrapper
		for _, b := range f.Blocks {
			for _, in := range b.Instrs {
				ci, ok := in.(ssa.CallInstruction)
				if !ok || ci.Common().StaticCallee() == nil || ci.Common().StaticCallee().Name() != "Execute" || len(ci.Common().Args) < 2 {
					continue
				}
				if !loadsField(ci.Common().Args[0], "tagMacroNode", "wrapper") {
					continue
				}
				ctxArg := ci.Common().Args[1]
				key := p.FuncName(f) + ":self-name"
				bound := MustPass(in, func(x ssa.Instruction) bool {
					mu, ok := x.(*ssa.MapUpdate)
					if !ok || !loadsField(stripConv(mu.Key), "tagMacroNode", "name") || !loadsField(mu.Map, "ExecutionContext", "Private") {
						return false
					}
					base, _, _ := fieldLoadBase(mu.Map)
					return base == ctxArg || p.VN(base) == p.VN(ctxArg)
				})
				if bound {
					r.OK(key, p.InstrPos(in), "the defined name is bound in the body's context before the body runs")
				} else {
					r.Bad(key, p.InstrPos(in), "the body runs in a context in which the macro's own name is bound only if the caller happens to have it: {%% import \"lib\" count as c %%}{{ c(3) }} renders the recursive call count(n-1) as nothing (and an endless recursion through an alias meets no depth limit because it never happens)")
				}
			}
		}
	}
}
