package main

// tol_U7.go — shapes in which the cache rules of C20 recognise their conditions when the locked lookup-or-load of
// the caching entry point has been moved into an unexported helper method (FromCache → cachedOrLoaded(key, name)):
//   * a cache key that is a parameter of the helper is judged at the helper's call sites (u7NormKey),
//   * the !Debug guard may stand in front of every call of the helper instead of in the helper (u7DebugBypassed),
//   * "the exported method looks up and fills the cache" may hold through one unexported helper (u7CacheEntries), and a
//     name handed to the loaders in the helper is followed to what the entry point passes for it (u7LoadedName).
// Everything is decided over ALL call sites of the helper (paramActualSites: unexported, only called statically, from
// the package); a helper whose callers cannot be enumerated is judged as before, in its own body only.

import (
	"go/types"

	"golang.org/x/tools/go/ssa"
)

const u7MaxLift = 3

// u7NormKey: v is a normalised cache key: is(v) — or v is a parameter of an unexported helper and at every call site
// of the helper the value passed for it is a normalised key. `via` names the helper chain (for the report).
func u7NormKey(p *Prog, v ssa.Value, is func(ssa.Value) bool, depth int) (ok bool, via string) {
	if is(v) {
		return true, ""
	}
	pa, isParam := v.(*ssa.Parameter)
	if !isParam || depth >= u7MaxLift {
		return false, ""
	}
	sites := paramActualSites(p, pa)
	if len(sites) == 0 {
		return false, ""
	}
	for _, s := range sites {
		if okS, _ := u7NormKey(p, s.val, is, depth+1); !okS {
			return false, ""
		}
	}
	return true, " at every call of " + p.FuncName(pa.Parent())
}

// u7SameSet: a and b denote the same *TemplateSet inside one function (the same SSA value, or equal value numbers).
func u7SameSet(p *Prog, a, b ssa.Value) bool {
	if a == nil || b == nil {
		return false
	}
	return a == b || p.VN(a) == p.VN(b)
}

// u7DebugBypassed: instruction `in` is reached only while Debug is unset. Either an edge with !Debug lies on every
// path to it in its own function, or its function is an unexported method that is only called statically and every
// one of the calls is reached only on the !Debug edge of the set the method is called on (transitively).
func u7DebugBypassed(p *Prog, in ssa.Instruction, debugField string) (ok bool, via string) {
	if Guarded(in, func(c ssa.Value, pol bool) bool {
		return !pol && loadsField(c, "TemplateSet", debugField)
	}) {
		return true, ""
	}
	if u7DebugBypassedAtCalls(p, in.Parent(), debugField, 0) {
		return true, " at every call of " + p.FuncName(in.Parent())
	}
	return false, ""
}

// u7DebugBypassedAtCalls: f is an unexported method of TemplateSet, called only statically from the package, and every
// call is reached only on the !Debug edge of the very set it is made on — in the caller, or (the caller being such a
// method of the same set again) at every call of the caller.
func u7DebugBypassedAtCalls(p *Prog, f *ssa.Function, debugField string, depth int) bool {
	if depth >= u7MaxLift || f == nil || f.Parent() != nil || f.Signature.Recv() == nil || len(f.Params) == 0 {
		return false
	}
	if n := structOf(f.Signature.Recv().Type()); n == nil || n.Obj().Name() != "TemplateSet" {
		return false
	}
	sites := paramActualSites(p, f.Params[0]) // nil for an exported method / one with callers we do not see
	if len(sites) == 0 {
		return false
	}
	for _, s := range sites {
		recv := s.val
		here := Guarded(s.site, func(c ssa.Value, pol bool) bool {
			if pol || !loadsField(c, "TemplateSet", debugField) {
				return false
			}
			base, _, _ := fieldLoadBase(c)
			return u7SameSet(p, base, recv)
		})
		if here {
			continue
		}
		sf := s.site.Parent()
		if sf == nil || len(sf.Params) == 0 || recv != ssa.Value(sf.Params[0]) {
			return false
		}
		if !u7DebugBypassedAtCalls(p, sf, debugField, depth+1) {
			return false
		}
	}
	return true
}

// u7Entry: an exported method of TemplateSet through which the cache is looked up and filled; helper is nil when the
// method does both itself, else the unexported method of TemplateSet it calls that does.
type u7Entry struct {
	entry, helper *ssa.Function
}

func u7LooksUpAndFills(p *Prog, f *ssa.Function, cacheField string) bool {
	hasLookup, hasUpdate := false, false
	for _, fn := range withClosures(f) {
		for _, acc := range cacheAccesses(p, fn, cacheField) {
			if acc.Kind == "lookup" {
				hasLookup = true
			}
			if acc.Kind == "update" {
				hasUpdate = true
			}
		}
	}
	return hasLookup && hasUpdate
}

// u7CacheEntries: the exported methods of TemplateSet that look up and fill the cache themselves, or by calling (on
// the same set) one unexported method of TemplateSet that does.
func u7CacheEntries(p *Prog, a *Anchors, ca *cacheAnchors) []u7Entry {
	var out []u7Entry
	for _, f := range p.Methods(a.TemplateSet) {
		if f.Object() == nil || !f.Object().Exported() || f.Blocks == nil {
			continue
		}
		// as before: a method that touches the cache entries itself must do both itself
		hasLookup, hasUpdate := false, false
		var via *ssa.Function // (a part of it extracted into a helper that is called from here only)
		for _, acc := range cacheAccesses(p, f, ca.cacheField) {
			hasLookup = hasLookup || acc.Kind == "lookup"
			hasUpdate = hasUpdate || acc.Kind == "update"
			if acc.Site != nil {
				if c, ok := acc.Site.(ssa.CallInstruction); ok {
					via = c.Common().StaticCallee()
				}
			}
		}
		if hasLookup || hasUpdate {
			if hasLookup && hasUpdate {
				out = append(out, u7Entry{f, via})
			}
			continue
		}
		seen := map[*ssa.Function]bool{}
		for _, fn := range withClosures(f) {
			for _, b := range fn.Blocks {
				for _, in := range b.Instrs {
					ci, ok := in.(ssa.CallInstruction)
					if !ok {
						continue
					}
					h := ci.Common().StaticCallee()
					if h == nil || seen[h] || h.Blocks == nil || !p.InPkg(h) || h.Parent() != nil || h.Signature.Recv() == nil {
						continue
					}
					if h.Object() == nil || h.Object().Exported() {
						continue
					}
					if n := structOf(h.Signature.Recv().Type()); n == nil || !types.Identical(n, a.TemplateSet) {
						continue
					}
					seen[h] = true
					if u7LooksUpAndFills(p, h, ca.cacheField) {
						out = append(out, u7Entry{f, h})
					}
				}
			}
		}
	}
	return out
}

// u7LoadedName: what is handed to FromFile, related to the entry point: the value itself inside the entry point; for a
// parameter of the entry's helper, the values the entry point passes for it. ok=false when the helper is (also) called
// from somewhere that is not a caching entry point, or its callers cannot be enumerated: `why` says so.
func u7LoadedName(p *Prog, e u7Entry, entries []u7Entry, v ssa.Value) (vals []ssa.Value, ok bool, why string) {
	pa, isParam := v.(*ssa.Parameter)
	if !isParam || e.helper == nil || pa.Parent() != e.helper {
		return []ssa.Value{v}, true, ""
	}
	sites := paramActualSites(p, pa)
	if len(sites) == 0 {
		return nil, false, "the callers of " + p.FuncName(e.helper) + " cannot be enumerated"
	}
	for _, s := range sites {
		caller := topLevel(s.site.Parent())
		if caller == e.entry {
			vals = append(vals, s.val)
			continue
		}
		other := false
		for _, o := range entries {
			if o.entry == caller && o.helper == e.helper {
				other = true // judged as an entry point of its own
			}
		}
		if !other {
			return nil, false, p.FuncName(e.helper) + " is also called from " + p.FuncName(caller) + ", which is not a caching entry point"
		}
	}
	if len(vals) == 0 {
		return nil, false, p.FuncName(e.entry) + " does not call " + p.FuncName(e.helper) + " statically"
	}
	return vals, true, ""
}
