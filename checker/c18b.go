package main

// R-C18-U2I: the unsigned counterpart of R-C18-F2I. An unsigned 64-bit number of the context (reflect.Value.Uint())
// that no int can hold must saturate like a float does, not wrap: int(uint64(1e19)) is negative, so `big > 0` was
// False and the `add`, `divisibleby`, `get_digit` … filters computed with a negative number.

import (
	"fmt"
	"go/token"
	"go/types"

	"golang.org/x/tools/go/ssa"
)

func ruleC18UintToInt(p *Prog, a *Anchors, r *Report) {
	r.Begin("R-C18-U2I", "every conversion of a 64-bit unsigned runtime value to a signed integer is reached only after the value was compared with a constant upper bound (saturation): a huge unsigned number does not turn negative", 1)
	reach := a.ExecReach()
	creach := a.CompileReach()
	for _, f := range p.inPkgFuncsSorted(p.allFuncSet()) {
		if !reach[f] && !creach[f] && !reach[topLevel(f)] {
			continue
		}
		k := 0
		for _, b := range f.Blocks {
			for _, in := range b.Instrs {
				cv, ok := in.(*ssa.Convert)
				if !ok {
					continue
				}
				src, isS := cv.X.Type().Underlying().(*types.Basic)
				dst, isD := cv.Type().Underlying().(*types.Basic)
				if !isS || !isD {
					continue
				}
				switch src.Kind() {
				case types.Uint, types.Uint64, types.Uintptr:
				default:
					continue
				}
				switch dst.Kind() {
				case types.Int, types.Int64:
				default:
					continue
				}
				if _, isC := cv.X.(*ssa.Const); isC {
					continue
				}
				k++
				key := fmt.Sprintf("%s:convert#%d", p.FuncName(f), k)
				upper := Guarded(in, func(c ssa.Value, pol bool) bool {
					bo, ok := c.(*ssa.BinOp)
					if !ok {
						return false
					}
					x, y, op := bo.X, bo.Y, bo.Op
					if _, isC := x.(*ssa.Const); isC {
						x, y = y, x
						switch op {
						case token.LSS:
							op = token.GTR
						case token.LEQ:
							op = token.GEQ
						case token.GTR:
							op = token.LSS
						case token.GEQ:
							op = token.LEQ
						}
					}
					if _, isC := y.(*ssa.Const); !isC || !(x == cv.X || p.VN(x) == p.VN(cv.X)) {
						return false
					}
					switch op {
					case token.LSS, token.LEQ:
						return pol
					case token.GTR, token.GEQ:
						return !pol
					}
					return false
				})
				if upper {
					r.OK(key, p.InstrPos(in), "converted only below a constant upper bound")
				} else {
					r.Bad(key, p.InstrPos(in), "unsigned→int conversion of %s without an upper-bound test: a value above the largest int wraps to a negative number ({{ big > 0 }} is False for uint64(1e19))", p.VN(cv.X))
				}
			}
		}
	}
}
