package main

// R-C18-U2I: the unsigned counterpart of R-C18-F2I. An unsigned 64-bit number of the context (reflect.Value.Uint())
// that no int can hold must saturate like a float does, not wrap: int(uint64(1e19)) is negative, so `big > 0` was
// False and the `add`, `divisibleby`, `get_digit` … filters computed with a negative number.

import (
	"fmt"
	"sort"
	"strings"
	"go/token"
	"go/types"

	"golang.org/x/tools/go/ssa"
)

func ruleC18UintToInt(p *Prog, a *Anchors, r *Report) {
	r.Begin("R-C18-U2I", "every conversion of a 64-bit unsigned runtime value to a signed integer is reached only after the value was compared with a constant upper bound (saturation): a huge unsigned number does not turn negative", 1)
	reach := a.ExecReach()
	creach := a.CompileReach()
	for _, f := range p.inPkgFuncsSorted(p.allFuncSet()) {
		if !reach[f] && !creach[f] && !reach[topLevel(f)] {
			continue
		}
		k := 0
		for _, b := range f.Blocks {
			for _, in := range b.Instrs {
				cv, ok := in.(*ssa.Convert)
				if !ok {
					continue
				}
				src, isS := cv.X.Type().Underlying().(*types.Basic)
				dst, isD := cv.Type().Underlying().(*types.Basic)
				if !isS || !isD {
					continue
				}
				switch src.Kind() {
				case types.Uint, types.Uint64, types.Uintptr:
				default:
					continue
				}
				switch dst.Kind() {
				case types.Int, types.Int64:
				default:
					continue
				}
				if _, isC := cv.X.(*ssa.Const); isC {
					continue
				}
				k++
				key := fmt.Sprintf("%s:convert#%d", p.FuncName(f), k)
				upper := Guarded(in, func(c ssa.Value, pol bool) bool {
					bo, ok := c.(*ssa.BinOp)
					if !ok {
						return false
					}
					x, y, op := bo.X, bo.Y, bo.Op
					if _, isC := x.(*ssa.Const); isC {
						x, y = y, x
						switch op {
						case token.LSS:
							op = token.GTR
						case token.LEQ:
							op = token.GEQ
						case token.GTR:
							op = token.LSS
						case token.GEQ:
							op = token.LEQ
						}
					}
					if _, isC := y.(*ssa.Const); !isC || !(x == cv.X || p.VN(x) == p.VN(cv.X)) {
						return false
					}
					switch op {
					case token.LSS, token.LEQ:
						return pol
					case token.GTR, token.GEQ:
						return !pol
					}
					return false
				})
				if upper {
					r.OK(key, p.InstrPos(in), "converted only below a constant upper bound")
				} else {
					r.Bad(key, p.InstrPos(in), "unsigned→int conversion of %s without an upper-bound test: a value above the largest int wraps to a negative number ({{ big > 0 }} is False for uint64(1e19))", p.VN(cv.X))
				}
			}
		}
	}
}

// R-C18-WRAP: "for all arguments, including negative, huge and out-of-range ones". Value.Integer() saturates: it hands
// out every int, the smallest and the largest included. A sum, difference or product formed directly from such a
// number, with nothing having looked at it before, wraps around at the ends of the range: MinInt − 3 is a huge
// positive width (ljust refuses where it should pad nothing), MaxInt + 1 is negative (add flips the sign). Every
// integer +, − or × in execution code one of whose operands is a number read off a template value is therefore reached
// only after a comparison that involves that number (a range test, a clamp, an overflow pre-check), or adds/subtracts
// a constant to a number that was compared before.
func ruleC18Wrap(p *Prog, a *Anchors, r *Report) {
	r.Begin("R-C18-WRAP", "integer +, − and × on a number read off a template value (Value.Integer()) happen only after a comparison involving that number: results do not wrap around at the ends of the int range", 2)
	integer := p.Method("Value", "Integer")
	if integer == nil {
		r.Unk("anchor", "-", "anchor unresolved: (*Value).Integer")
		return
	}
	// the filters and what they call statically (their helpers); the arithmetic of expressions is Go's, by C07
	scope := map[*ssa.Function]bool{}
	for _, ff := range a.FilterFuncs {
		for _, g := range clusterOf(p, ff, 3) {
			scope[g] = true
		}
	}
	n := 0
	for _, f := range p.inPkgFuncsSorted(p.allFuncSet()) {
		if !scope[topLevel(f)] && !scope[f] {
			continue
		}
		if f == integer || a.Value != nil && f.Signature.Recv() != nil && structOf(f.Signature.Recv().Type()) == a.Value {
			continue // the value layer itself
		}
		k := 0
		for _, b := range f.Blocks {
			for _, in := range b.Instrs {
				bo, ok := in.(*ssa.BinOp)
				if !ok || (bo.Op != token.ADD && bo.Op != token.SUB && bo.Op != token.MUL) || !isIntType(bo.Type()) {
					continue
				}
				var srcs []ssa.Value
				for _, side := range []ssa.Value{bo.X, bo.Y} {
					if src := c18LooseInteger(p, integer, side, 0); src != nil {
						srcs = append(srcs, src)
					}
				}
				if len(srcs) == 0 {
					continue
				}
				k++
				n++
				key := fmt.Sprintf("%s:%s#%d", p.FuncName(f), bo.Op, k)
				looked := Guarded(in, func(c ssa.Value, pol bool) bool {
					for _, src := range srcs {
						if c18Mentions(p, c, src, 0) {
							return true
						}
					}
					return false
				})
				if looked {
					r.OK(key, p.InstrPos(in), "reached only after a comparison that involves %s", p.VN(srcs[0]))
				} else {
					r.Bad(key, p.InstrPos(in), "%s is computed directly from %s, a number read off a template value that nothing has compared with anything yet: at the ends of the int range (Integer() saturates there) the result wraps around — a huge negative width becomes a huge positive padding, a sum of large numbers flips its sign", p.VN(bo), p.VN(srcs[0]))
				}
			}
		}
	}
	if n == 0 {
		r.Unk("none", "-", "no integer arithmetic on Integer() results found")
	}
}

// c18LooseInteger: v is the result of (*Value).Integer() (through conversions, local cells and phis): returns the call.
func c18LooseInteger(p *Prog, integer *ssa.Function, v ssa.Value, d int) ssa.Value {
	if d > 4 {
		return nil
	}
	switch x := v.(type) {
	case *ssa.Call:
		if x.Common().StaticCallee() == integer {
			return x
		}
	case *ssa.Convert:
		if isIntType(x.X.Type()) {
			return c18LooseInteger(p, integer, x.X, d+1)
		}
	case *ssa.ChangeType:
		return c18LooseInteger(p, integer, x.X, d+1)
	case *ssa.UnOp:
		if sv := stripLoad(x); sv != ssa.Value(x) {
			return c18LooseInteger(p, integer, sv, d+1)
		}
	case *ssa.Parameter:
		// a helper that is handed such a number: the parameter stands for it
		for _, s := range paramActualSites(p, x) {
			if c18LooseInteger(p, integer, s.val, d+1) != nil {
				return x
			}
		}
	}
	return nil
}

// c18Mentions: the condition c compares something that is, or is computed from, src.
func c18Mentions(p *Prog, c ssa.Value, src ssa.Value, d int) bool {
	if d > 5 || c == nil {
		return false
	}
	if c == src || p.VN(c) == p.VN(src) {
		return true
	}
	switch x := c.(type) {
	case *ssa.BinOp:
		return c18Mentions(p, x.X, src, d+1) || c18Mentions(p, x.Y, src, d+1)
	case *ssa.Convert:
		return c18Mentions(p, x.X, src, d+1)
	case *ssa.ChangeType:
		return c18Mentions(p, x.X, src, d+1)
	case *ssa.UnOp:
		if sv := stripLoad(x); sv != ssa.Value(x) {
			return c18Mentions(p, sv, src, d+1)
		}
		return c18Mentions(p, x.X, src, d+1)
	case *ssa.Phi:
		for _, e := range x.Edges {
			if c18Mentions(p, e, src, d+1) {
				return true
			}
		}
	}
	return false
}

// R-C18-EXACTSTR: "integer … compute the documented value for huge arguments". A string that denotes an integer is
// read as one: where the value layer turns a string into an int, strconv.ParseFloat is reached only on the error edge
// of an integer parse of the same text (through a float64 only 53 bits survive: "9007199254740993" became …992, and
// `n|divisibleby:"9007199254740993"` was False for that very n).
func ruleC18ExactString(p *Prog, a *Anchors, r *Report) {
	r.Begin("R-C18-EXACTSTR", "Value.Integer() reads a string through strconv.ParseFloat only after an integer parse (ParseInt/ParseUint/Atoi) of it failed", 1)
	f := p.Method("Value", "Integer")
	if f == nil {
		r.Unk("anchor", "-", "anchor unresolved: (*Value).Integer")
		return
	}
	n := 0
	for _, g := range clusterOf(p, f, 2) {
		for _, b := range g.Blocks {
			for _, in := range b.Instrs {
				c, ok := in.(*ssa.Call)
				if !ok || c.Common().StaticCallee() == nil || p.extName(c.Common().StaticCallee()) != "strconv.ParseFloat" {
					continue
				}
				n++
				key := p.FuncName(g) + ":ParseFloat"
				after := Guarded(in, func(cond ssa.Value, pol bool) bool {
					x, eq, isNil := condIsNilTest(cond)
					if !isNil || eq == pol {
						return false // needs the err != nil edge
					}
					ex, ok := x.(*ssa.Extract)
					if !ok {
						return false
					}
					ic, ok := ex.Tuple.(*ssa.Call)
					if !ok || ic.Common().StaticCallee() == nil {
						return false
					}
					switch p.extName(ic.Common().StaticCallee()) {
					case "strconv.ParseInt", "strconv.ParseUint", "strconv.Atoi":
						return p.VN(ic.Common().Args[0]) == p.VN(c.Common().Args[0])
					}
					return false
				})
				if after {
					r.OK(key, p.InstrPos(in), "the text is read as a float only after it failed to parse as an integer")
				} else {
					r.Bad(key, p.InstrPos(in), "%s turns a string into an int through strconv.ParseFloat alone: an integer beyond 2^53 written as text loses its low digits (\"9007199254740993\"|integer is …992), and integer arguments given as strings compare unequal to the same number", p.FuncName(g))
				}
			}
		}
	}
	if n == 0 {
		r.Trivial("none", "-", "Value.Integer() does not go through ParseFloat")
	}
}

// R-C18-PTRFMT: "stringformat computes the documented value" also for a pointer to a number or string (a *int field of
// the caller's struct prints as the number everywhere else). A filter that formats its input with a format the
// template gives (fmt.Sprintf(param.String(), x)) does not hand fmt the raw Interface() of the input on every path:
// fmt prints a pointer to a scalar as an address.
func ruleC18PtrFormat(p *Prog, a *Anchors, r *Report) {
	r.Begin("R-C18-PTRFMT", "a filter that formats its input with a template-given format does not pass the input's raw Interface() to fmt on every path (a pointer to a number or string is formatted as what it points to)", 1)
	iface := p.Method("Value", "Interface")
	if iface == nil {
		r.Unk("anchor", "-", "anchor unresolved: (*Value).Interface")
		return
	}
	n := 0
	var names []string
	for name := range a.FilterFuncs {
		names = append(names, name)
	}
	sort.Strings(names)
	seenSite := map[ssa.Instruction]bool{}
	for _, name := range names {
		for _, g := range clusterOf(p, a.FilterFuncs[name], 1) {
			for _, b := range g.Blocks {
				for _, in := range b.Instrs {
					c, ok := in.(*ssa.Call)
					if !ok || seenSite[in] || c.Common().StaticCallee() == nil || p.extName(c.Common().StaticCallee()) != "fmt.Sprintf" {
						continue
					}
					if _, isC := c.Common().Args[0].(*ssa.Const); isC {
						continue
					}
					if fc, isCall := c.Common().Args[0].(*ssa.Call); isCall && fc.Common().StaticCallee() != nil && p.extName(fc.Common().StaticCallee()) == "fmt.Sprintf" {
						continue // a computed width (Sprintf(Sprintf("%%%ds", n), …)): the format is the engine's
					}
					vals := varargValues(c.Common().Args[1])
					if len(vals) == 0 {
						continue
					}
					seenSite[in] = true
					raw := false
					lossy := ""
					var origin func(v ssa.Value, d int)
					origin = func(v ssa.Value, d int) {
						if v == nil || d > 5 {
							return
						}
						if mi, ok := v.(*ssa.MakeInterface); ok {
							v = mi.X
						}
						v = stripLoad(v)
						if phi, ok := v.(*ssa.Phi); ok {
							for _, e := range phi.Edges {
								origin(e, d+1)
							}
							return
						}
						if cv, ok := v.(*ssa.Convert); ok {
							origin(cv.X, d+1)
							return
						}
						ic, ok := v.(*ssa.Call)
						if !ok || ic.Common().StaticCallee() == nil || len(ic.Common().Args) == 0 {
							return
						}
						if _, isParam := ic.Common().Args[0].(*ssa.Parameter); !isParam {
							return
						}
						switch ic.Common().StaticCallee() {
						case p.Method("Value", "Integer"):
							lossy = "Integer() (saturates an unsigned value no int holds)"
						case p.Method("Value", "Float"):
							lossy = "Float() (widens a float32: 0.1 prints as 0.10000000149011612)"
						}
					}
					for _, v := range vals {
						origin(v, 0)
						if mi, ok := v.(*ssa.MakeInterface); ok {
							v = mi.X
						}
						ic, ok := stripLoad(v).(*ssa.Call)
						if !ok || ic.Common().StaticCallee() != iface {
							continue
						}
						if _, isParam := ic.Common().Args[0].(*ssa.Parameter); isParam {
							raw = true
						}
					}
					if lossy != "" && !raw {
						n++
						r.Bad("filter "+name+":formats-accessor", p.InstrPos(in), "what the filter hands fmt, with a format the template gives, can be the input's %s: the number that is formatted is not the one the template was given", lossy)
						continue
					}
					n++
					if raw {
						r.Bad("filter "+name+":formats-raw", p.InstrPos(in), "the filter hands fmt the input's Interface() as it is, with a format the template gives: a pointer to a number or string (a *int field) is printed as an address (%%d) or as %%!s(*string=0x…), not as the value every other filter and {{ }} see")
					} else {
						r.OK("filter "+name+":formats", p.InstrPos(in), "what is formatted is not the raw Interface() of the input on every path")
					}
				}
			}
		}
	}
	if n == 0 {
		r.Trivial("none", "-", "no filter formats its input with a template-given format")
	}
}

// R-C18-FIRSTBYLEN: "join … for all arguments" puts the separator between every two items, empty items included. A
// loop that recognises "not the first item" by the length of what it has written so far (`if b.Len() > 0 { sep }`)
// also sees "first" after every run of empty items: the separators around them are lost (["", "a", ""]|join:"-" gives
// "a" instead of "-a-"). The idiom is right only when every pass writes at least one byte (runes, bytes); it is
// reported where the loop writes a string or byte slice that can be empty into the same accumulator.
func ruleC18FirstByLen(p *Prog, a *Anchors, r *Report) {
	r.Begin("R-C18-FIRSTBYLEN", "a filter loop that writes a separator only when its output so far is non-empty writes, per pass, something that cannot be empty (a rune, a byte): an empty item does not make the next one \"the first\"", 0)
	scope := map[*ssa.Function]bool{}
	for _, ff := range a.FilterFuncs {
		for _, g := range clusterOf(p, ff, 2) {
			scope[g] = true
		}
	}
	accOf := func(v ssa.Value) string {
		// the accumulator a Len()/Write* call works on: the receiver value
		return p.VN(v)
	}
	n := 0
	for _, f := range p.inPkgFuncsSorted(p.allFuncSet()) {
		if !scope[topLevel(f)] && !scope[f] {
			continue
		}
		for _, b := range f.Blocks {
			iff, ok := b.Instrs[len(b.Instrs)-1].(*ssa.If)
			if !ok {
				continue
			}
			hdr := innermostLoopHeader(b)
			if hdr == nil {
				continue
			}
			bo, ok := iff.Cond.(*ssa.BinOp)
			if !ok || (bo.Op != token.GTR && bo.Op != token.NEQ) {
				continue
			}
			if k, isK := constInt(bo.Y); !isK || k != 0 {
				continue
			}
			lc, ok := bo.X.(*ssa.Call)
			if !ok || lc.Common().StaticCallee() == nil {
				continue
			}
			switch p.extName(lc.Common().StaticCallee()) {
			case "(*strings.Builder).Len", "(*bytes.Buffer).Len":
			default:
				continue
			}
			acc := accOf(lc.Common().Args[0])
			// the guarded block writes into the accumulator …
			sepBlock := b.Succs[0]
			writesSep := false
			for _, in := range sepBlock.Instrs {
				if c, ok := in.(*ssa.Call); ok && c.Common().StaticCallee() != nil && len(c.Common().Args) > 0 && accOf(c.Common().Args[0]) == acc {
					if strings.Contains(p.extName(c.Common().StaticCallee()), ").Write") {
						writesSep = true
					}
				}
			}
			if !writesSep {
				continue
			}
			// … and the loop writes, outside it, a payload that can be empty
			var emptyable ssa.Instruction
			nonEmpty := false
			for _, lb := range f.Blocks {
				if !hdr.Dominates(lb) || !ReachableBlocks(lb)[hdr] || lb == sepBlock {
					continue
				}
				for _, in := range lb.Instrs {
					c, ok := in.(*ssa.Call)
					if !ok || c.Common().StaticCallee() == nil || len(c.Common().Args) < 2 || accOf(c.Common().Args[0]) != acc {
						continue
					}
					switch name := p.extName(c.Common().StaticCallee()); {
					case strings.HasSuffix(name, ").WriteRune"), strings.HasSuffix(name, ").WriteByte"):
						nonEmpty = true
					case strings.HasSuffix(name, ").WriteString"), strings.HasSuffix(name, ").Write"):
						if s, isC := constString(c.Common().Args[1]); isC && s != "" {
							nonEmpty = true
						} else {
							emptyable = in
						}
					}
				}
			}
			n++
			key := p.FuncName(topLevel(f)) + ":separator-by-length"
			if n > 1 {
				key += "#" + fmt.Sprint(n)
			}
			switch {
			case emptyable != nil:
				r.Bad(key, p.InstrPos(iff), "the separator is written only when the output so far is non-empty, and the loop writes items that can be empty (%s): after an empty item the next one counts as the first again, so the separators around empty items are lost ([\"\", \"a\", \"\"]|join:\"-\" gives \"a\" instead of \"-a-\")", p.InstrPos(emptyable))
			case nonEmpty:
				r.OK(key, p.InstrPos(iff), "every pass writes at least one rune/byte: \"output non-empty\" is \"not the first item\"")
			default:
				r.Assume(key, p.InstrPos(iff), "what the loop writes per pass was not recognised")
			}
		}
	}
	if n == 0 {
		r.Trivial("none", "-", "no filter loop decides \"first item\" by the length of its output")
	}
}
