package main

// core.go: loading /repo, building go/ssa and the VTA call graph, and the
// Prog object every rule works on. Nothing of /repo is executed.

import (
	"fmt"
	"go/ast"
	"go/token"
	"go/types"
	"os"
	"path/filepath"
	"sort"
	"strings"
	"time"

	"golang.org/x/tools/go/callgraph"
	"golang.org/x/tools/go/callgraph/cha"
	"golang.org/x/tools/go/callgraph/vta"
	"golang.org/x/tools/go/packages"
	"golang.org/x/tools/go/ssa"
	"golang.org/x/tools/go/ssa/ssautil"
)

// Prog is one loaded, type-checked and SSA-built configuration of the tree.
type Prog struct {
	marks *[]c01Mark // high-water marks (c01height.go), computed once
	Opts LoadOpts // how the tree was loaded (a rule that needs the tree of another platform loads it the same way)
	Dir   string
	Fset  *token.FileSet
	All   []*packages.Package
	Pkg   *packages.Package // the pongo2 package
	SSA   *ssa.Program
	SPkg  *ssa.Package
	CG    *callgraph.Graph
	CHA   *callgraph.Graph
	Funcs []*ssa.Function // every function of the package incl. methods and closures, sorted

	byName map[string]*ssa.Function

	Timing map[string]float64
	Config string // description of the build configuration

	// caches
	vnCache     map[ssa.Value]string
	pureCache   map[*ssa.Function]int
	cellStores  map[*ssa.Alloc][]ssa.Value
	freeVarBind map[*ssa.FreeVar][]ssa.Value
	rootsMemo   map[rootKey][]Root
	summaryMemo map[*ssa.Function]*fnSummary
}

type LoadOpts struct {
	Dir     string
	Env     []string          // extra env (GOOS=..., GOARCH=...)
	Tags    string            // build tags
	Overlay map[string][]byte // in-memory replacement of files (mutation self-validation)
	NoCG    bool
}

func Load(o LoadOpts) (*Prog, error) {
	t0 := time.Now()
	p := &Prog{Dir: o.Dir, Timing: map[string]float64{}, Opts: o}
	fset := token.NewFileSet()
	env := append(os.Environ(), "GOFLAGS=-mod=mod", "GOPROXY=off", "GOSUMDB=off", "GOTOOLCHAIN=local", "GOWORK=off")
	env = append(env, o.Env...)
	cfg := &packages.Config{
		Mode:    packages.LoadAllSyntax,
		Dir:     o.Dir,
		Fset:    fset,
		Tests:   false,
		Env:     env,
		Overlay: o.Overlay,
	}
	if o.Tags != "" {
		cfg.BuildFlags = []string{"-tags=" + o.Tags}
	}
	p.Config = strings.TrimSpace(strings.Join(o.Env, " ") + " tags=" + o.Tags)
	pkgs, err := packages.Load(cfg, "./...")
	if err != nil {
		return nil, fmt.Errorf("packages.Load: %v", err)
	}
	if len(pkgs) == 0 {
		return nil, fmt.Errorf("no packages loaded from %s", o.Dir)
	}
	var errs []string
	packages.Visit(pkgs, nil, func(pk *packages.Package) {
		for _, e := range pk.Errors {
			errs = append(errs, e.Error())
		}
	})
	if len(errs) > 0 {
		sort.Strings(errs)
		if len(errs) > 8 {
			errs = errs[:8]
		}
		return nil, fmt.Errorf("tree does not type-check (nothing can be decided about it): %s", strings.Join(errs, "; "))
	}
	p.Fset = fset
	p.All = pkgs
	for _, pk := range pkgs {
		if pk.Types != nil && pk.Types.Scope().Lookup("TemplateSet") != nil && pk.Types.Scope().Lookup("INode") != nil {
			if p.Pkg != nil {
				return nil, fmt.Errorf("two candidate engine packages: %s and %s", p.Pkg.PkgPath, pk.PkgPath)
			}
			p.Pkg = pk
		}
	}
	if p.Pkg == nil {
		return nil, fmt.Errorf("anchor unresolved: the engine package (defines TemplateSet and INode) was not found among %d packages", len(pkgs))
	}
	p.Timing["load"] = time.Since(t0).Seconds()

	t1 := time.Now()
	prog, _ := ssautil.AllPackages(pkgs, ssa.InstantiateGenerics)
	prog.Build()
	p.SSA = prog
	p.SPkg = prog.Package(p.Pkg.Types)
	if p.SPkg == nil {
		return nil, fmt.Errorf("no SSA package for %s", p.Pkg.PkgPath)
	}
	p.Timing["ssa"] = time.Since(t1).Seconds()

	// collect functions of the package
	seen := map[*ssa.Function]bool{}
	var add func(f *ssa.Function)
	add = func(f *ssa.Function) {
		if f == nil || seen[f] {
			return
		}
		seen[f] = true
		if f.Blocks == nil {
			return
		}
		p.Funcs = append(p.Funcs, f)
		for _, a := range f.AnonFuncs {
			add(a)
		}
	}
	for _, m := range p.SPkg.Members {
		switch m := m.(type) {
		case *ssa.Function:
			add(m)
		case *ssa.Type:
			for _, T := range []types.Type{m.Type(), types.NewPointer(m.Type())} {
				ms := prog.MethodSets.MethodSet(T)
				for i := 0; i < ms.Len(); i++ {
					fn := prog.MethodValue(ms.At(i))
					if fn != nil && fn.Pkg == p.SPkg && fn.Synthetic == "" {
						add(fn)
					}
				}
			}
		}
	}
	sort.Slice(p.Funcs, func(i, j int) bool { return p.FuncName(p.Funcs[i]) < p.FuncName(p.Funcs[j]) })
	p.byName = map[string]*ssa.Function{}
	for _, f := range p.Funcs {
		p.byName[p.FuncName(f)] = f
	}

	if !o.NoCG {
		t2 := time.Now()
		p.CHA = cha.CallGraph(prog)
		p.CG = vta.CallGraph(ssautil.AllFunctions(prog), p.CHA)
		p.Timing["callgraph"] = time.Since(t2).Seconds()
	}
	p.vnCache = map[ssa.Value]string{}
	p.pureCache = map[*ssa.Function]int{}
	p.rootsMemo = map[rootKey][]Root{}
	p.summaryMemo = map[*ssa.Function]*fnSummary{}
	p.indexCells()
	return p, nil
}

// FuncName gives a stable, position-free name: "(*T).m", "f", "f$1".
func (p *Prog) FuncName(f *ssa.Function) string {
	if f == nil {
		return "<nil>"
	}
	if f.Parent() != nil {
		return p.FuncName(f.Parent()) + "$" + strings.TrimPrefix(f.Name(), f.Parent().Name()+"$")
	}
	if recv := f.Signature.Recv(); recv != nil {
		return "(" + types.TypeString(recv.Type(), func(*types.Package) string { return "" }) + ")." + f.Name()
	}
	if f.Pkg != nil && f.Pkg != p.SPkg {
		return f.Pkg.Pkg.Path() + "." + f.Name()
	}
	return f.Name()
}

// Func finds a package function by its stable name, or nil.
func (p *Prog) Func(name string) *ssa.Function { return p.byName[name] }

func (p *Prog) InPkg(f *ssa.Function) bool {
	for f != nil && f.Parent() != nil {
		f = f.Parent()
	}
	return f != nil && f.Pkg == p.SPkg
}

// Pos renders a position relative to the repository root.
func (p *Prog) Pos(pos token.Pos) string {
	if !pos.IsValid() {
		return "-"
	}
	ps := p.Fset.Position(pos)
	rel, err := filepath.Rel(p.Dir, ps.Filename)
	if err != nil {
		rel = ps.Filename
	}
	return fmt.Sprintf("%s:%d", rel, ps.Line)
}

// InstrPos finds the best position for an instruction (some have NoPos).
func (p *Prog) InstrPos(in ssa.Instruction) string {
	if in == nil {
		return "-"
	}
	if in.Pos().IsValid() {
		return p.Pos(in.Pos())
	}
	// look at operands
	for _, op := range in.Operands(nil) {
		if *op != nil && (*op).Pos().IsValid() {
			return p.Pos((*op).Pos())
		}
	}
	// nearest positioned instruction in the block
	if b := in.Block(); b != nil {
		for _, x := range b.Instrs {
			if x.Pos().IsValid() {
				return p.Pos(x.Pos())
			}
		}
	}
	if in.Parent() != nil {
		return p.Pos(in.Parent().Pos())
	}
	return "-"
}

// Named looks up a named type of the package.
func (p *Prog) Named(name string) *types.Named {
	o := p.Pkg.Types.Scope().Lookup(name)
	if o == nil {
		return nil
	}
	tn, ok := o.(*types.TypeName)
	if !ok {
		return nil
	}
	n, _ := tn.Type().(*types.Named)
	return n
}

func (p *Prog) Global(name string) *ssa.Global {
	g, _ := p.SPkg.Members[name].(*ssa.Global)
	return g
}

// Methods returns the SSA functions of all methods (pointer and value receiver) declared on named type n.
func (p *Prog) Methods(n *types.Named) []*ssa.Function {
	var out []*ssa.Function
	for i := 0; i < n.NumMethods(); i++ {
		if f := p.SSA.FuncValue(n.Method(i)); f != nil {
			out = append(out, f)
		}
	}
	return out
}

func (p *Prog) Method(typeName, method string) *ssa.Function {
	n := p.Named(typeName)
	if n == nil {
		return nil
	}
	for i := 0; i < n.NumMethods(); i++ {
		if n.Method(i).Name() == method {
			return p.SSA.FuncValue(n.Method(i))
		}
	}
	return nil
}

// Implementers lists the named types of the package whose pointer or value type implements iface.
func (p *Prog) Implementers(iface *types.Interface) []*types.Named {
	var out []*types.Named
	sc := p.Pkg.Types.Scope()
	for _, name := range sc.Names() {
		tn, ok := sc.Lookup(name).(*types.TypeName)
		if !ok || tn.IsAlias() {
			continue
		}
		n, ok := tn.Type().(*types.Named)
		if !ok {
			continue
		}
		if _, isIface := n.Underlying().(*types.Interface); isIface {
			continue
		}
		if types.Implements(n, iface) || types.Implements(types.NewPointer(n), iface) {
			out = append(out, n)
		}
	}
	return out
}

func (p *Prog) Iface(name string) *types.Interface {
	n := p.Named(name)
	if n == nil {
		return nil
	}
	i, _ := n.Underlying().(*types.Interface)
	return i
}

// Reach computes the functions reachable in graph g from roots without entering the functions in cut.
// Reflection roots: see reflectRoots.
func (p *Prog) Reach(g *callgraph.Graph, roots []*ssa.Function, cut map[*ssa.Function]bool) map[*ssa.Function]bool {
	seen := map[*ssa.Function]bool{}
	var work []*ssa.Function
	push := func(f *ssa.Function) {
		if f == nil || seen[f] || cut[f] {
			return
		}
		seen[f] = true
		work = append(work, f)
	}
	for _, r := range roots {
		push(r)
	}
	for len(work) > 0 {
		f := work[len(work)-1]
		work = work[:len(work)-1]
		if n := g.Nodes[f]; n != nil {
			for _, e := range n.Out {
				// a library function calling back a closure of this package (sync.Once.Do(f), sort.Slice(less)):
				// the call graph merges all function values that reach the library's parameter, so any use of the
				// library anywhere would "reach" every such closure. Closures are instead reached from the function
				// that creates them (below).
				if c := e.Callee.Func; c != nil && c.Parent() != nil && p.InPkg(c) && !p.InPkg(f) {
					continue
				}
				push(e.Callee.Func)
			}
		}
		if p.InPkg(f) {
			// closures created here are assumed callable (they may be stored and called by reflection)
			for _, a := range f.AnonFuncs {
				push(a)
			}
			// values converted to interfaces may have their methods called by reflection
			// (the resolver uses MethodByName) or through fmt.Stringer
			for _, b := range f.Blocks {
				for _, in := range b.Instrs {
					// a method value (n.once.Do(n.trim)) or a package function used as a value is assumed callable
					// by whoever it is handed to, like a closure
					if mc, isMC := in.(*ssa.MakeClosure); isMC {
						if fn, isFn := mc.Fn.(*ssa.Function); isFn && strings.HasSuffix(fn.Name(), "$bound") {
							if obj, isObj := fn.Object().(*types.Func); isObj {
								push(p.SSA.FuncValue(obj))
							}
						}
					}
					if ci, isCall := in.(ssa.CallInstruction); isCall {
						for _, arg := range ci.Common().Args {
							if fn, isFn := arg.(*ssa.Function); isFn && p.InPkg(fn) {
								push(fn)
							}
						}
					}
					mi, ok := in.(*ssa.MakeInterface)
					if !ok {
						continue
					}
					for _, m := range p.reflectCallableMethods(mi.X.Type()) {
						push(m)
					}
				}
			}
		}
	}
	return seen
}

// reflectCallableMethods: exported methods of a package-defined type (what MethodByName can reach), plus String.
func (p *Prog) reflectCallableMethods(T types.Type) []*ssa.Function {
	var out []*ssa.Function
	base := T
	if pt, ok := T.(*types.Pointer); ok {
		base = pt.Elem()
	}
	n, ok := base.(*types.Named)
	if !ok || n.Obj().Pkg() != p.Pkg.Types {
		return nil
	}
	ms := p.SSA.MethodSets.MethodSet(T)
	for i := 0; i < ms.Len(); i++ {
		sel := ms.At(i)
		if !sel.Obj().Exported() {
			continue
		}
		if fn := p.SSA.MethodValue(sel); fn != nil {
			out = append(out, fn)
		}
	}
	return out
}

// Callers returns the in-package call sites of f in graph g.
func (p *Prog) Callers(g *callgraph.Graph, f *ssa.Function) []*callgraph.Edge {
	n := g.Nodes[f]
	if n == nil {
		return nil
	}
	var out []*callgraph.Edge
	for _, e := range n.In {
		if e.Site != nil {
			out = append(out, e)
		}
	}
	return out
}

// Callees of one call site according to g.
func (p *Prog) Callees(g *callgraph.Graph, site ssa.CallInstruction) []*ssa.Function {
	n := g.Nodes[site.Parent()]
	if n == nil {
		return nil
	}
	var out []*ssa.Function
	for _, e := range n.Out {
		if e.Site == site {
			out = append(out, e.Callee.Func)
		}
	}
	return out
}

// EachInstr visits every instruction of every package function.
func (p *Prog) EachInstr(fn func(f *ssa.Function, in ssa.Instruction)) {
	for _, f := range p.Funcs {
		for _, b := range f.Blocks {
			for _, in := range b.Instrs {
				fn(f, in)
			}
		}
	}
}

// Syntax helpers -------------------------------------------------------

// FuncDecl finds the AST declaration of a package-level function or method by stable name.
func (p *Prog) FuncDecl(name string) *ast.FuncDecl {
	f := p.Func(name)
	if f == nil {
		return nil
	}
	fd, _ := f.Syntax().(*ast.FuncDecl)
	return fd
}

func must(cond bool, format string, args ...any) {
	if !cond {
		panic(fmt.Sprintf(format, args...))
	}
}

// allFuncSet: every function of the program as a set.
func (p *Prog) allFuncSet() map[*ssa.Function]bool {
	m := map[*ssa.Function]bool{}
	for _, f := range p.Funcs {
		m[f] = true
	}
	return m
}
