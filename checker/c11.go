package main

// C11 — composition only through the set's loaders: R-C11-FS, LOADER, NAME, ONLY.

import (
	"go/token"
	"go/types"
	"sort"
	"strconv"
	"strings"

	"golang.org/x/tools/go/ssa"
)

func init() { register("C11", checkC11) }

// file-system entry points of the standard library (by package path); any function of these packages that
// takes a path/name and touches the file system
var fsFuncs = map[string]map[string]bool{
	"os": {"ReadFile": true, "Open": true, "OpenFile": true, "Stat": true, "Lstat": true, "ReadDir": true, "Create": true, "WriteFile": true,
		"DirFS": true, "Readlink": true, "Getwd": true, "Mkdir": true, "MkdirAll": true, "Remove": true, "RemoveAll": true, "Rename": true, "Chdir": true},
	"io/ioutil":     {"ReadFile": true, "ReadDir": true, "WriteFile": true, "TempFile": true},
	"io/fs":         {"ReadFile": true, "ReadDir": true, "Stat": true, "Glob": true, "WalkDir": true, "Sub": true},
	"path/filepath": {"Walk": true, "WalkDir": true, "Glob": true, "EvalSymlinks": true},
	"net/http":      {"Get": true, "Dir": false},
	"embed":         {},
}

// declared exception with reason
var fsAllowed = map[string]string{
	"(*Error).RawLine": "diagnostic helper: re-reads the named source file to show the offending line; called by the application, never by the engine",
}

func checkC11(p *Prog, r *Report) {
	liftProg = p
	a := ResolveAnchors(p)
	if !anchorCheck(a, r) {
		return
	}
	ruleC11FS(p, a, r)
	ruleC11Loader(p, a, r)
	ruleC11Name(p, a, r)
	ruleC11Only(p, a, r)
	ruleC11NoCache(p, a, r)
	ruleC11Rooted(p, a, r)
	ruleC11Clean(p, a, r)
	ruleC11LazyOnce(p, a, r)
	ruleC11Renders(p, a, r)
	ruleC11TplName(p, a, r)
	ruleC11StaticName(p, a, r)
	ruleC11ReadErrors(p, a, r)
}

func implementsLoader(p *Prog, a *Anchors, f *ssa.Function) bool {
	top := topLevel(f)
	recv := top.Signature.Recv()
	if recv == nil {
		return false
	}
	T := recv.Type()
	return types.Implements(T, a.TemplateLoader) || types.Implements(types.NewPointer(derefType(T)), a.TemplateLoader)
}

func derefType(T types.Type) types.Type {
	if pt, ok := T.(*types.Pointer); ok {
		return pt.Elem()
	}
	return T
}

func ruleC11FS(p *Prog, a *Anchors, r *Report) {
	r.Begin("R-C11-FS", "file-system access (os, io/fs, io/ioutil, net/http, fs.FS/http.FileSystem Open) happens only inside TemplateLoader implementations", 4)
	p.EachInstr(func(f *ssa.Function, in ssa.Instruction) {
		ci, ok := in.(ssa.CallInstruction)
		if !ok {
			return
		}
		cc := ci.Common()
		name := ""
		if cc.IsInvoke() {
			// fs.FS.Open / http.FileSystem.Open / fs.ReadFileFS...
			if n, ok := cc.Value.Type().(*types.Named); ok && n.Obj().Pkg() != nil {
				pp := n.Obj().Pkg().Path()
				if (pp == "io/fs" || pp == "net/http") && (cc.Method.Name() == "Open" || cc.Method.Name() == "ReadFile" || cc.Method.Name() == "ReadDir" || cc.Method.Name() == "Stat") {
					name = pp + "." + n.Obj().Name() + "." + cc.Method.Name()
				}
			}
		} else if callee := cc.StaticCallee(); callee != nil && callee.Pkg != nil && callee.Signature.Recv() == nil {
			if fs, ok := fsFuncs[callee.Pkg.Pkg.Path()]; ok && fs[callee.Name()] {
				name = callee.Pkg.Pkg.Path() + "." + callee.Name()
			}
		}
		if name == "" {
			return
		}
		fname := p.FuncName(f)
		key := fname + ":" + name
		pos := p.InstrPos(in)
		switch {
		case implementsLoader(p, a, f):
			r.OK(key, pos, "inside a TemplateLoader implementation (%s)", typeName(topLevel(f).Signature.Recv().Type()))
		case fsAllowed[fname] != "":
			r.Assume(key, pos, "declared exception: %s", fsAllowed[fname])
		case strings.HasPrefix(topLevel(f).Name(), "New") || strings.HasPrefix(topLevel(f).Name(), "MustNew"):
			r.OK(key, pos, "loader constructor")
		default:
			r.Bad(key, pos, "%s reaches the file system directly through %s: templates or files are obtained outside the set's loaders", fname, name)
		}
	})
}

func ruleC11Loader(p *Prog, a *Anchors, r *Report) {
	r.Begin("R-C11-LOADER", "TemplateLoader.Get/Abs are invoked only by the set's resolver; loaders are tried in ascending order, the first hit returns from inside the loop, a miss everywhere is an error", 3)
	var loaderNamed *types.Named = p.Named("TemplateLoader")
	p.EachInstr(func(f *ssa.Function, in ssa.Instruction) {
		ci, ok := in.(ssa.CallInstruction)
		if !ok || !ci.Common().IsInvoke() {
			return
		}
		cc := ci.Common()
		if !types.Identical(cc.Value.Type(), loaderNamed) {
			return
		}
		fname := p.FuncName(f)
		key := fname + ":invoke " + cc.Method.Name()
		pos := p.InstrPos(in)
		top := topLevel(f)
		isSetMethod := top.Signature.Recv() != nil && structOf(top.Signature.Recv().Type()) != nil && structOf(top.Signature.Recv().Type()).Obj().Name() == "TemplateSet"
		if !isSetMethod {
			r.Bad(key, pos, "a loader is invoked outside the set's resolver (%s): names could be fetched that the set's resolution order does not sanction", fname)
			return
		}
		if cc.Method.Name() != "Get" {
			r.OK(key, pos, "name resolution by the set")
			return
		}
		// receiver: element of set.loaders in an ascending loop
		call, _ := in.(*ssa.Call)
		recv := cc.Value
		if u, ok := recv.(*ssa.UnOp); ok {
			if sv := localLoadValue(u); sv != nil {
				recv = sv
			}
		}
		ld, ok := recv.(*ssa.UnOp)
		var ia *ssa.IndexAddr
		if ok && ld.Op == token.MUL {
			ia, _ = ld.X.(*ssa.IndexAddr)
		}
		if ia == nil || !loadsField(ia.X, "TemplateSet", "loaders") {
			r.Bad(key, pos, "Get is not invoked on an element of set.loaders inside a loop over them (%s)", p.VN(recv))
			return
		}
		if !ascendingIndex(ia.Index) {
			r.Bad(key, pos, "the loaders are not tried in ascending order (index %s): the first loader that has a name must win", p.VN(ia.Index))
			return
		}
		// success edge leaves the loop by returning
		if call == nil {
			r.Unk(key, pos, "Get result unused")
			return
		}
		var errEx *ssa.Extract
		for _, u := range refs(call) {
			if ex, ok := u.(*ssa.Extract); ok && ex.Index == 1 {
				errEx = ex
			}
		}
		okRet := false
		if errEx != nil {
			for _, b := range f.Blocks {
				iff, ok := b.Instrs[len(b.Instrs)-1].(*ssa.If)
				if !ok {
					continue
				}
				c, pol := normCond(iff.Cond, true)
				x, eq, isNil := condIsNilTest(c)
				if !isNil || !flowsFromCellOrSelf(x, errEx) {
					continue
				}
				succ := b.Succs[0]
				if eq != pol {
					succ = b.Succs[1]
				}
				// succ = the err == nil edge: must not reach the loop header again, must return
				loopHead := loopHeaderOf(ia.Index)
				reach := ReachableBlocks(succ)
				if loopHead != nil && !reach[loopHead] {
					okRet = true
				}
			}
		}
		// the error edge must go on to the next loader: no return is reachable from it without passing the loop header
		if errEx != nil {
			for _, b := range f.Blocks {
				iff, ok := b.Instrs[len(b.Instrs)-1].(*ssa.If)
				if !ok {
					continue
				}
				c, pol := normCond(iff.Cond, true)
				x, eq, isNil := condIsNilTest(c)
				if !isNil || !flowsFromCellOrSelf(x, errEx) {
					continue
				}
				errSucc := b.Succs[1]
				if eq != pol {
					errSucc = b.Succs[0]
				}
				loopHead := loopHeaderOf(ia.Index)
				if loopHead == nil {
					continue
				}
				// blocks reachable from the error edge without passing the header
				seen := map[*ssa.BasicBlock]bool{loopHead: true}
				work := []*ssa.BasicBlock{errSucc}
				early := ""
				for len(work) > 0 {
					x := work[0]
					work = work[1:]
					if seen[x] {
						continue
					}
					seen[x] = true
					if ret, isRet := x.Instrs[len(x.Instrs)-1].(*ssa.Return); isRet {
						early = p.InstrPos(ret)
					}
					work = append(work, x.Succs...)
				}
				if early != "" {
					r.Bad(key+":error-continues", early, "a loader's error can end the search before the remaining loaders were asked: a later loader that has the name is never consulted")
				} else {
					r.OK(key+":error-continues", pos, "a loader that does not have the name only advances the loop")
				}
			}
		}
		if okRet {
			r.OK(key, pos, "first hit returns from inside the loop")
		} else {
			r.Bad(key, pos, "a successful Get does not end the search: a later loader can override an earlier one")
		}
		// the fall-through (all loaders missed) returns a non-nil error
		ei := errorResultIndex(f)
		missOK := false
		if loopHead := loopHeaderOf(ia.Index); loopHead != nil && ei >= 0 {
			for _, s := range loopHead.Succs {
				reach := ReachableBlocks(s)
				if reach[loopHead] {
					continue
				}
				all := true
				any := false
				ReturnsFrom(s, func(ret *ssa.Return) {
					any = true
					if !definitelyNonNil(res(ret, ei), 0) {
						all = false
					}
				})
				if all && any {
					missOK = true
				}
			}
		}
		if missOK {
			r.OK(key+":miss", pos, "when no loader has the name the resolver returns a non-nil error")
		} else {
			r.Bad(key+":miss", pos, "the resolver can fall out of the loader loop without returning an error (a missing template must be an error)")
		}
	})
}

// flowsFromCellOrSelf: x is v or a load of a cell that v was stored into (named results are cells).
func flowsFromCellOrSelf(x ssa.Value, v ssa.Value) bool {
	if x == v {
		return true
	}
	if u, ok := x.(*ssa.UnOp); ok && u.Op == token.MUL {
		if cell, ok := u.X.(*ssa.Alloc); ok {
			for _, r := range refs(cell) {
				if st, ok := r.(*ssa.Store); ok && st.Val == v {
					return true
				}
			}
		}
	}
	return false
}

// ascendingIndex: idx is the induction variable of a go/ssa range loop (phi [-1, +1]) or a for i := 0; ...; i++ loop.
func ascendingIndex(idx ssa.Value) bool {
	b, ok := idx.(*ssa.BinOp)
	if ok && b.Op == token.ADD {
		if k, isC := constInt(b.Y); isC && k == 1 {
			if phi, ok := b.X.(*ssa.Phi); ok {
				for _, e := range phi.Edges {
					if e == idx {
						return true
					}
				}
			}
		}
	}
	if phi, ok := idx.(*ssa.Phi); ok {
		// for i := 0; i < n; i++ : phi [0, i+1]
		hasZero, hasInc := false, false
		for _, e := range phi.Edges {
			if k, isC := constInt(e); isC && k == 0 {
				hasZero = true
			}
			if bb, ok := e.(*ssa.BinOp); ok && bb.Op == token.ADD && bb.X == ssa.Value(phi) {
				if k, isC := constInt(bb.Y); isC && k == 1 {
					hasInc = true
				}
			}
		}
		return hasZero && hasInc
	}
	return false
}

func loopHeaderOf(idx ssa.Value) *ssa.BasicBlock {
	if b, ok := idx.(*ssa.BinOp); ok {
		if phi, ok := b.X.(*ssa.Phi); ok {
			return phi.Block()
		}
	}
	if phi, ok := idx.(*ssa.Phi); ok {
		return phi.Block()
	}
	return nil
}

// R-C11-NAME: tag code passes FromFile a name that was resolved relative to the referring template.
func ruleC11Name(p *Prog, a *Anchors, r *Report) {
	r.Begin("R-C11-NAME", "every file name a tag hands to the set is set.resolveFilename(<referring template>, <name written in the template>)", 5)
	resolve := p.Method("TemplateSet", "resolveFilename")
	resolveTpl := p.Method("TemplateSet", "resolveTemplate")
	fromFile := p.Method("TemplateSet", "FromFile")
	if resolve == nil || fromFile == nil {
		r.Unk("anchor", "-", "anchor unresolved: resolveFilename/FromFile")
		return
	}
	// the referring template is the one the tag is written in: the parser's template at compile time, or a node
	// field that only ever captures it. ExecutionContext.template is NOT it: it is the root of the inheritance
	// chain being executed, so a tag inherited from a child in another directory would resolve next to the base.
	isReferringTemplate := func(v ssa.Value) bool {
		_, n, fld := fieldLoadBase(v)
		if n == nil {
			return false
		}
		if fld == "template" && n.Obj().Name() == "Parser" {
			return true
		}
		return capturedParserTemplate(p, n.Obj().Name(), fld)
	}
	p.EachInstr(func(f *ssa.Function, in ssa.Instruction) {
		ci, ok := in.(ssa.CallInstruction)
		if !ok {
			return
		}
		callee := ci.Common().StaticCallee()
		if callee == nil {
			return
		}
		top := topLevel(f)
		if top.Signature.Recv() != nil && structOf(top.Signature.Recv().Type()) != nil && structOf(top.Signature.Recv().Type()).Obj().Name() == "TemplateSet" {
			return // the set's own methods (FromCache → FromFile) handle caller-supplied names
		}
		if top.Signature.Recv() != nil && structOf(top.Signature.Recv().Type()) != nil && structOf(top.Signature.Recv().Type()).Obj().Name() == "Error" {
			return
		}
		args := ci.Common().Args
		key := p.FuncName(f) + ":" + callee.Name()
		pos := p.InstrPos(in)
		if a.FileLoaders[callee] {
			callee = fromFile
		}
		switch callee {
		case fromFile:
			// a helper that is handed the already resolved name: judge the name at the helper's call sites
			if pa, isParam := args[1].(*ssa.Parameter); isParam && p.staticOnly(pa.Parent(), nil) {
				idx := indexOfParam(pa.Parent(), pa)
				allOK := true
				for _, e := range p.CG.Nodes[pa.Parent()].In {
					cargs := callArgs(e.Site.Common())
					okArg := false
					if idx < len(cargs) {
						if rc, isCall := cargs[idx].(*ssa.Call); isCall && rc.Common().StaticCallee() == resolve && isReferringSet(rc.Common().Args[0]) && isReferringTemplate(rc.Common().Args[1]) {
							okArg = true
						}
					}
					if !okArg {
						allOK = false
					}
				}
				if allOK && isReferringSet(args[0]) {
					r.OK(key, pos, "helper: every caller passes resolveFilename(<referring template>, name) and the referring set")
				} else {
					r.Bad(key, pos, "FromFile in helper %s is reached with a name/set that is not resolved against the referring template at every call site", p.FuncName(f))
				}
				return
			}
			rc, ok := args[1].(*ssa.Call)
			if !ok || rc.Common().StaticCallee() != resolve {
				// value stored in a field earlier (importNode.filename = resolveFilename(...))
				if _, n, fld := fieldLoadBase(args[1]); n != nil {
					if fieldAlwaysStoredFrom(p, n.Obj().Name(), fld, resolve) {
						r.OK(key, pos, "name is %s.%s, which is only ever assigned the result of resolveFilename", n.Obj().Name(), fld)
						return
					}
				}
				r.Bad(key, pos, "FromFile is given %s, not a name resolved relative to the referring template", p.VN(args[1]))
				return
			}
			if !isReferringSet(rc.Common().Args[0]) || !isReferringTemplate(rc.Common().Args[1]) {
				r.Bad(key, pos, "the name is resolved against %s / %s instead of the referring template and its set", p.VN(rc.Common().Args[0]), p.VN(rc.Common().Args[1]))
				return
			}
			r.OK(key, pos, "FromFile(resolveFilename(<referring template>, name))")
		case resolve, resolveTpl:
			if len(args) < 3 {
				return
			}
			// resolveTemplate(nil, resolveFilename(<referring template>, name)): the two-step form every other tag
			// gets through FromFile — the name is already relative to the referrer, the loaders see it as given
			if callee == resolveTpl && isNilConst(args[1]) {
				if rc, isCall := args[2].(*ssa.Call); isCall && rc.Common().StaticCallee() == resolve && isReferringSet(rc.Common().Args[0]) && isReferringTemplate(rc.Common().Args[1]) && isReferringSet(args[0]) {
					r.OK(key, pos, "resolveTemplate(nil, resolveFilename(<referring template>, name))")
					return
				}
			}
			if !isReferringSet(args[0]) {
				r.Bad(key, pos, "name resolution uses set %s, not the referring template's", p.VN(args[0]))
			} else if !isReferringTemplate(args[1]) {
				r.Bad(key, pos, "name is resolved relative to %s, not to the referring template (relative names would resolve against the wrong directory)", p.VN(args[1]))
			} else {
				r.OK(key, pos, "resolved relative to the referring template")
			}
		}
	})
}

// capturedParserTemplate: T.field is only ever assigned the parser's template (doc.template), i.e. it remembers the
// template the node was parsed in.
func capturedParserTemplate(p *Prog, typ, field string) bool {
	n, ok := 0, true
	p.EachInstr(func(f *ssa.Function, in ssa.Instruction) {
		st, isSt := in.(*ssa.Store)
		if !isSt || !isFieldAddrOf(st.Addr, typ, field) {
			return
		}
		n++
		if !loadsField(st.Val, "Parser", "template") {
			ok = false
		}
	})
	return ok && n > 0
}

// fieldAlwaysStoredFrom: every store to T.field stores the result of a call to fn.
func fieldAlwaysStoredFrom(p *Prog, typ, field string, fn *ssa.Function) bool {
	n, ok := 0, true
	p.EachInstr(func(f *ssa.Function, in ssa.Instruction) {
		st, isSt := in.(*ssa.Store)
		if !isSt || !isFieldAddrOf(st.Addr, typ, field) {
			return
		}
		n++
		c, isCall := st.Val.(*ssa.Call)
		if !isCall || c.Common().StaticCallee() != fn {
			ok = false
		}
	})
	return ok && n > 0
}

// R-C11-ONLY: include's context construction.
func ruleC11Only(p *Prog, a *Anchors, r *Report) {
	r.Begin("R-C11-ONLY", "include copies the includer's variables only when `only` is absent, adds the with-pairs on every path, and swallows only a missing file under if_exists", 3)
	f := p.Method("tagIncludeNode", "Execute")
	update := p.Method("Context", "Update")
	if f == nil || update == nil {
		r.Unk("anchor", "-", "anchor unresolved: (*tagIncludeNode).Execute / (Context).Update")
		return
	}
	name := p.FuncName(f)
	// the context may be built by private helpers of the node (buildContext …): they are looked into as well; a guard
	// may then also sit on the way to the helper's call
	helpers := c11Helpers(p, f)
	notOnly := func(c ssa.Value, pol bool) bool { return !pol && loadsField(c, "tagIncludeNode", "only") }
	var pubPriv [2]bool
	for _, g := range helpers {
		for _, c := range callsTo(g, update) {
			src := c.Common().Args[1]
			which := ""
			if loadsField(src, "ExecutionContext", "Public") {
				which = "Public"
				pubPriv[0] = true
			} else if loadsField(src, "ExecutionContext", "Private") {
				which = "Private"
				pubPriv[1] = true
			} else {
				continue
			}
			if guardedUp(p, f, c.(ssa.Instruction), notOnly, 3) {
				r.OK(name+":copy "+which, p.InstrPos(c.(ssa.Instruction)), "copied only on the !only edge")
			} else {
				r.Bad(name+":copy "+which, p.InstrPos(c.(ssa.Instruction)), "the includer's %s variables are copied even when `only` is given", which)
			}
		}
	}
	if !pubPriv[0] || !pubPriv[1] {
		r.Bad(name+":copy", p.Pos(f.Pos()), "include without `only` must see the includer's Public and Private variables (copied: Public=%v Private=%v)", pubPriv[0], pubPriv[1])
	}
	// with-pairs: a MapUpdate into the include context inside a range over withPairs, not guarded by `only`
	found := false
	for _, g := range helpers {
		for _, b := range g.Blocks {
			for _, in := range b.Instrs {
				mu, ok := in.(*ssa.MapUpdate)
				if !ok {
					continue
				}
				if g == f && !allFresh(p.Roots(mu.Map)) {
					continue
				}
				// in a helper: its own fresh map that it hands back, or a parameter that is fresh where the helper is called
				if g != f && !c11FreshContext(p, f, g, mu.Map) {
					continue
				}
				found = true
				onlyDep := guardedUp(p, f, in, func(c ssa.Value, pol bool) bool { return pol && loadsField(c, "tagIncludeNode", "only") }, 3) ||
					guardedUp(p, f, in, func(c ssa.Value, pol bool) bool { return !pol && loadsField(c, "tagIncludeNode", "only") }, 3)
				if onlyDep {
					r.Bad(name+":with-pairs", p.InstrPos(in), "the with-pairs are added only on one edge of the `only` test")
				} else {
					r.OK(name+":with-pairs", p.InstrPos(in), "with-pairs are stored into the fresh include context regardless of `only`")
				}
				// … and EVERY pair is stored, whatever it evaluates to: in the loop over the pairs each pass that evaluated
				// its expression reaches the store before the next pass (a pair that is skipped, e.g. because its value is
				// nil, lets the includer's variable of the same name show through). The loop is the one around the store, in
				// the helper that holds it; a store that a helper makes unconditionally is represented by the helper's call
				store := c11LiftStore(p, f, in)
				if store == nil {
					r.Unk(name+":with-pairs:every", p.InstrPos(in), "the store of the pair sits in a helper that does not always make it, or that has several callers: whether every evaluated pair is stored is not decided")
					continue
				}
				if hdr := innermostLoopHeader(store.Block()); hdr != nil {
					var eval ssa.Instruction
					for _, lb := range store.Parent().Blocks {
						if !hdr.Dominates(lb) || !ReachableBlocks(lb)[hdr] {
							continue
						}
						for _, li := range lb.Instrs {
							if c, isC := li.(*ssa.Call); isC && c.Common().IsInvoke() && c.Common().Method.Name() == "Evaluate" {
								eval = li
							}
						}
					}
					if eval != nil {
						if MustPassFrom(eval.Block(), instrIndex(eval)+1, hdr.Instrs[0], func(x ssa.Instruction) bool { return x == store }) {
							r.OK(name+":with-pairs:every", p.InstrPos(in), "every evaluated pair is stored before the next one is looked at")
						} else {
							r.Bad(name+":with-pairs:every", p.InstrPos(in), "a pair can be evaluated and then skipped (the loop continues without storing it): its name stays what the includer's context says, e.g. `include \"x\" with user=visitor` shows the includer's `user` when visitor is nil")
						}
					}
				}
			}
		}
	}
	if !found {
		r.Bad(name+":with-pairs", p.Pos(f.Pos()), "no store of the with-pairs into the include context")
	}
	// error swallowing: a `return nil` (nil *Error) after a failed FromFile only under ifExists && Sender == "fromfile"
	fromFile := p.Method("TemplateSet", "FromFile")
	for _, fn := range []*ssa.Function{f, a.TagParsers["include"]} {
		if fn == nil {
			continue
		}
		var loads []ssa.CallInstruction
		for ld := range a.FileLoaders {
			loads = append(loads, callsTo(fn, ld)...)
		}
		_ = fromFile
		for _, c := range loads {
			call := c.(*ssa.Call)
			var errEx *ssa.Extract
			for _, u := range refs(call) {
				if ex, ok := u.(*ssa.Extract); ok && ex.Index == 1 {
					errEx = ex
				}
			}
			if errEx == nil {
				continue
			}
			// on the err != nil side, every success return must be guarded by both conditions
			ei := errorResultIndex(fn)
			// the points at which a failed load is swallowed: a success return on the error side, or a block of the
			// error side from which control goes on with the rest of the function (`missing = true`, then the with-pairs
			// are parsed as usual)
			var swallowPoints []ssa.Instruction
			for _, ret := range returnsOf(fn) {
				if ei >= 0 && isNilConst(res(ret, ei)) {
					swallowPoints = append(swallowPoints, ret)
				}
			}
			for _, b := range fn.Blocks {
				iff, isIf := b.Instrs[len(b.Instrs)-1].(*ssa.If)
				if !isIf {
					continue
				}
				x, eq, isNil := condIsNilTest(iff.Cond)
				if !isNil || x != ssa.Value(errEx) {
					continue
				}
				errBlock := b.Succs[0]
				if eq {
					errBlock = b.Succs[1]
				}
				if len(errBlock.Preds) != 1 {
					continue
				}
				for _, rb := range fn.Blocks {
					if !errBlock.Dominates(rb) {
						continue
					}
					for _, sb := range rb.Succs {
						if !errBlock.Dominates(sb) {
							swallowPoints = append(swallowPoints, rb.Instrs[len(rb.Instrs)-1])
						}
					}
				}
			}
			for _, ret := range swallowPoints {
				// is this point on the error side of the FromFile call?
				onErr := Guarded(ret, func(cnd ssa.Value, pol bool) bool {
					x, eq, isNil := condIsNilTest(cnd)
					return isNil && x == ssa.Value(errEx) && eq != pol
				})
				if !onErr {
					continue
				}
				key := p.FuncName(fn) + ":swallow"
				// each of the conditions may be tested on the way to the return itself or inside a predicate function
				// whose true result guards it (isTemplateMissing(e, name)): the predicate's parameters stand for the
				// arguments of its call (sub)
				ifEx := Guarded(ret, throughPredicates(p, func(cnd ssa.Value, pol bool, sub func(ssa.Value) ssa.Value) bool {
					return pol && (loadsField(cnd, "tagIncludeNode", "ifExists") || isIfExistsLocal(cnd))
				}))
				sender := Guarded(ret, throughPredicates(p, func(cnd ssa.Value, pol bool, sub func(ssa.Value) ssa.Value) bool {
					b, ok := cnd.(*ssa.BinOp)
					if !ok || b.Op != token.EQL || !pol {
						return false
					}
					s, isC := constString(sub(b.Y))
					return isC && s == "fromfile" && loadsFieldAny(b.X, "Error", "Sender")
				}))
				// … and the missing file is the one that was asked for: the compile error of an existing template that
				// itself includes a missing file has the same sender
				nameArg := call.Common().Args[1]
				thisFile := Guarded(ret, throughPredicates(p, func(cnd ssa.Value, pol bool, sub func(ssa.Value) ssa.Value) bool {
					b, ok := cnd.(*ssa.BinOp)
					if !ok || b.Op != token.EQL || !pol {
						return false
					}
					for _, pr := range [][2]ssa.Value{{b.X, b.Y}, {b.Y, b.X}} {
						if other := sub(pr[1]); loadsFieldAny(pr[0], "Error", "Filename") && (other == nameArg || p.VN(other) == p.VN(nameArg)) {
							return true
						}
					}
					return false
				}))
				// … and it is the absence of the file, not a failure to read one that is there: FromFile reports both with
				// the same Sender and Filename, so the error's cause (OrigError) has to be looked at
				cause := Guarded(ret, throughPredicates(p, func(cnd ssa.Value, pol bool, sub func(ssa.Value) ssa.Value) bool {
					if b, ok := cnd.(*ssa.BinOp); ok && b.Op == token.EQL && pol {
						return loadsFieldAny(stripConv(b.X), "Error", "OrigError") || loadsFieldAny(stripConv(b.Y), "Error", "OrigError")
					}
					if c, ok := cnd.(*ssa.Call); ok && pol && c.Common().StaticCallee() != nil && p.extName(c.Common().StaticCallee()) == "errors.Is" {
						return true
					}
					return false
				}))
				if ifEx && sender && thisFile && !cause {
					r.Bad(key, p.InstrPos(ret), "if_exists swallows every load error of the named file, also a failing read of a template that exists (FromFile gives both the same Sender and Filename): only the not-found cause may be ignored")
					continue
				}
				if ifEx && sender && thisFile {
					r.OK(key, p.InstrPos(ret), "a failed load is ignored only when if_exists is set and the error is the absence of the very file asked for (Sender == \"fromfile\", Filename == requested name)")
				} else {
					r.Bad(key, p.InstrPos(ret), "a failed load of the included template is swallowed without requiring if_exists=%v, Sender==\"fromfile\"=%v and Filename==<requested name>=%v: a missing name must be an error (also one referenced inside the included template), and compile errors must never be hidden", ifEx, sender, thisFile)
				}
			}
		}
	}
}

func isIfExistsLocal(c ssa.Value) bool {
	// ifExists := arguments.Match(TokenIdentifier, "if_exists") != nil
	b, ok := c.(*ssa.BinOp)
	if !ok || b.Op != token.NEQ || !isNilConst(b.Y) {
		return false
	}
	call, ok := b.X.(*ssa.Call)
	if !ok || len(call.Common().Args) < 3 {
		return false
	}
	s, isC := constString(call.Common().Args[2])
	return isC && s == "if_exists"
}

func loadsFieldAny(v ssa.Value, typ, field string) bool {
	return loadsField(v, typ, field)
}

// ruleC11NoCache: templates composed by tags are obtained from the loaders each time (set.FromFile /
// resolveTemplate); the set's cache is an API for the caller only. A tag that takes its template from the cache stops
// asking the loaders after the first hit: a name that has since appeared in an earlier loader, changed or vanished
// is not noticed (and a tag running inside a cache fill would re-enter the cache lock).
func ruleC11NoCache(p *Prog, a *Anchors, r *Report) {
	r.Begin("R-C11-NOCACHE", "tag code (parsers and node execution) never takes a template from the set's cache: only the exported cache API and the set's own methods reach the cache lookup", 1)
	ca := &cacheAnchors{}
	st := a.TemplateSet.Underlying().(*types.Struct)
	for i := 0; i < st.NumFields(); i++ {
		if m, ok := st.Field(i).Type().Underlying().(*types.Map); ok {
			if pt, ok := m.Elem().(*types.Pointer); ok && types.Identical(pt.Elem(), a.Template) {
				ca.cacheField = st.Field(i).Name()
			}
		}
	}
	if ca.cacheField == "" {
		r.Trivial("no-cache", "-", "the set has no map[string]*Template field")
		return
	}
	// functions that look the cache up
	readers := map[*ssa.Function]bool{}
	for _, f := range p.Funcs {
		for _, acc := range cacheAccesses(p, f, ca.cacheField) {
			if acc.Kind == "lookup" {
				readers[topLevel(f)] = true
			}
		}
	}
	n := 0
	for _, f := range p.inPkgFuncsSorted(p.allFuncSet()) {
		top := topLevel(f)
		if top.Signature.Recv() != nil && structOf(top.Signature.Recv().Type()) != nil && structOf(top.Signature.Recv().Type()).Obj().Name() == "TemplateSet" {
			continue
		}
		if top.Name() == "init" || (top.Object() != nil && top.Object().Exported() && top.Signature.Recv() == nil) {
			continue // package-level convenience API bound to the default set
		}
		for _, b := range f.Blocks {
			for _, in := range b.Instrs {
				ci, ok := in.(ssa.CallInstruction)
				if !ok {
					continue
				}
				cal := ci.Common().StaticCallee()
				if cal == nil || !readers[cal] {
					continue
				}
				n++
				r.Bad(p.FuncName(f)+":"+cal.Name(), p.InstrPos(in), "%s obtains a template through the cache (%s): after the first hit the loaders are no longer asked for that name", p.FuncName(f), p.FuncName(cal))
			}
		}
	}
	if n == 0 {
		names := []string{}
		for f := range readers {
			names = append(names, p.FuncName(f))
		}
		sort.Strings(names)
		r.OK("no-cache", "-", "cache readers %v are called only by the set itself and the exported API", names)
	}
}

// ruleC11Rooted: sibling cross-check of the loaders. An Abs implementation that joins the name with the directory of
// the referring template does so only for names that are not rooted; a rooted name ("/r.html") is resolved from the
// loader's root whatever template refers to it.
func ruleC11Rooted(p *Prog, a *Anchors, r *Report) {
	r.Begin("R-C11-ROOTED", "every loader's Abs resolves a name relative to the referring template only after testing that the name is not rooted", 2)
	n := 0
	for _, f := range p.Funcs {
		if !p.InPkg(f) || f.Blocks == nil || f.Name() != "Abs" || !implementsLoader(p, a, f) || len(f.Params) < 3 {
			continue
		}
		base, name := f.Params[1], f.Params[2]
		for _, b := range f.Blocks {
			for _, in := range b.Instrs {
				c, ok := in.(*ssa.Call)
				if !ok || c.Common().StaticCallee() == nil {
					continue
				}
				nm := p.extName(c.Common().StaticCallee())
				if nm != "path/filepath.Join" && nm != "path.Join" {
					continue
				}
				// joins Dir(base) with name?
				usesBase, usesName := false, false
				for _, v := range varargValues(c.Common().Args[0]) {
					if v == ssa.Value(name) {
						usesName = true
					}
					if dc, isCall := v.(*ssa.Call); isCall && len(dc.Common().Args) == 1 {
						if dc.Common().Args[0] == ssa.Value(base) {
							usesBase = true
						}
						if ph, isPhi := dc.Common().Args[0].(*ssa.Phi); isPhi {
							for _, e := range ph.Edges {
								if e == ssa.Value(base) {
									usesBase = true
								}
							}
						}
					}
				}
				if !usesBase || !usesName {
					continue
				}
				n++
				key := p.FuncName(f) + ":relative-join"
				g := Guarded(in, func(cnd ssa.Value, pol bool) bool {
					cc, ok := cnd.(*ssa.Call)
					if !ok || pol || cc.Common().StaticCallee() == nil {
						return false
					}
					q := p.extName(cc.Common().StaticCallee())
					if q == "path/filepath.IsAbs" || q == "path.IsAbs" {
						return cc.Common().Args[0] == ssa.Value(name)
					}
					if q == "strings.HasPrefix" {
						pre, isC := constString(cc.Common().Args[1])
						return cc.Common().Args[0] == ssa.Value(name) && isC && pre == "/"
					}
					return false
				})
				if g {
					r.OK(key, p.InstrPos(in), "joined with the referring template's directory only when the name is not rooted")
				} else {
					r.Bad(key, p.InstrPos(in), "%s joins every name with the directory of the referring template, also a rooted one: {%% include \"/r.html\" %%} in a/x.html is looked up as a/r.html, while the other loaders resolve rooted names from the root", p.FuncName(f))
				}
			}
		}
	}
	if n == 0 {
		r.Bad("none", "-", "no loader joins names with the referring template's directory: the rule no longer sees the code it was written for")
	}
	// siblings agree: every loader of the package resolves relative to the referring template. One that ignores its
	// `base` parameter gives `{% include "y.html" %}` in a/x.html the root's y.html where the others give a/y.html.
	for _, f := range p.inPkgFuncsSorted(p.allFuncSet()) {
		if f.Blocks == nil || f.Name() != "Abs" || !implementsLoader(p, a, f) || len(f.Params) < 3 {
			continue
		}
		key := p.FuncName(f) + ":uses-referrer"
		base := f.Params[1]
		// the referring template has to take part in a RESULT (reading it in a test alone resolves nothing)
		flows := false
		var dep func(v ssa.Value, depth int) bool
		dep = func(v ssa.Value, depth int) bool {
			if v == ssa.Value(base) {
				return true
			}
			if depth > 6 {
				return false
			}
			switch x := v.(type) {
			case *ssa.Call:
				for _, arg := range x.Common().Args {
					if dep(arg, depth+1) {
						return true
					}
				}
			case *ssa.Phi:
				for _, e := range x.Edges {
					if dep(e, depth+1) {
						return true
					}
				}
			case *ssa.BinOp:
				return dep(x.X, depth+1) || dep(x.Y, depth+1)
			case *ssa.Slice:
				// the variadic slice of Join(...): its elements
				for _, el := range varargValues(x) {
					if el != nil && dep(el, depth+1) {
						return true
					}
				}
			case *ssa.Extract:
				return dep(x.Tuple, depth+1)
			}
			return false
		}
		for _, ret := range returnsOf(f) {
			if dep(ret.Results[0], 0) {
				flows = true
			}
		}
		if !flows {
			r.Bad(key, p.Pos(f.Pos()), "no result of %s depends on its `base` parameter: names are not resolved relative to the referring template, unlike in the other loaders ({%% include \"y.html\" %%} in a/x.html gets the root's y.html, and a file that only exists next to the referrer cannot be included)", p.FuncName(f))
		} else {
			r.OK(key, p.Pos(f.Pos()), "the referring template takes part in the resolution")
		}
	}
}

// ruleC11StaticName: the include tag compiles its target at compile time only when the name is a literal — the whole
// name expression, not merely its first token. The decision "static" therefore looks beyond the string token.
func ruleC11StaticName(p *Prog, a *Anchors, r *Report) {
	r.Begin("R-C11-STATICNAME", "include treats a name as static (fetched at compile time) only after looking at what follows the string literal: a computed name that starts with a literal is not fetched as that literal", 1)
	f := a.TagParsers["include"]
	fromFile := p.Method("TemplateSet", "FromFile")
	if f == nil || fromFile == nil {
		r.Unk("anchor", "-", "anchor unresolved: include parser / FromFile")
		return
	}
	var loads []ssa.CallInstruction
	for ld := range a.FileLoaders {
		loads = append(loads, callsTo(f, ld)...)
	}
	_ = fromFile
	for _, c := range loads {
		in := c.(ssa.Instruction)
		key := p.FuncName(f) + ":static-decision"
		// on every path to the compile-time fetch a test of the token AFTER the literal (or of the remaining count) was made
		looked := Guarded(in, func(cnd ssa.Value, pol bool) bool {
			found := false
			var walk func(v ssa.Value, d int)
			walk = func(v ssa.Value, d int) {
				if d > 5 || found {
					return
				}
				switch x := v.(type) {
				case *ssa.BinOp:
					walk(x.X, d+1)
					walk(x.Y, d+1)
				case *ssa.Phi:
					for _, e := range x.Edges {
						walk(e, d+1)
					}
				case *ssa.Call:
					if cal := x.Common().StaticCallee(); cal != nil {
						switch cal.Name() {
						case "Remaining", "Count":
							found = true
						case "PeekTypeN", "PeekN", "Get":
							if len(x.Common().Args) > 1 {
								if k, isC := constInt(x.Common().Args[1]); isC && k >= 1 {
									found = true
								}
							}
						}
					}
				}
			}
			walk(cnd, 0)
			return found
		})
		if looked {
			r.OK(key, p.InstrPos(in), "the compile-time fetch happens only after the parser has looked at what follows the literal")
		} else {
			r.Bad(key, p.InstrPos(in), "the include is taken for a static one on the strength of its first token alone: {%% include \"d/\" + n %%} fetches and compiles \"d/\" at compile time, a name the template never references, and then fails")
		}
	}
}

// innermostLoopHeader: the header of the innermost natural loop that contains b (nil if none).
func innermostLoopHeader(b *ssa.BasicBlock) *ssa.BasicBlock {
	var hdr *ssa.BasicBlock
	for _, h := range b.Parent().Blocks {
		if !h.Dominates(b) {
			continue
		}
		back := false
		for _, pr := range h.Preds {
			if h.Dominates(pr) && ReachableBlocks(b)[pr] {
				back = true
			}
		}
		if back && (hdr == nil || hdr.Dominates(h)) {
			hdr = h
		}
	}
	return hdr
}

// ruleC11ReadErrors: "a missing name is an error": what the loaders hand out has to be read completely — the error of
// reading a loader's reader (io.ReadAll) and the error of the resolver itself are looked at on every path: tested
// against nil, returned, or handed on. An error that is computed and then never used (a `:=` that shadows the variable
// tested afterwards) lets {% ssi "x" %} render an empty text for a file that could not be read.
func ruleC11ReadErrors(p *Prog, a *Anchors, r *Report) {
	r.Begin("R-C11-READERR", "the error result of every read of a loader's reader (io.ReadAll) and of the set's resolver, in engine code outside the loaders, is used: compared with nil, returned or passed on", 2)
	resolver := map[*ssa.Function]bool{}
	for _, f := range p.Funcs {
		if f.Blocks == nil || !p.InPkg(f) {
			continue
		}
		for _, b := range f.Blocks {
			for _, in := range b.Instrs {
				if c, ok := in.(*ssa.Call); ok && c.Common().IsInvoke() && c.Common().Method.Name() == "Get" && types.Identical(c.Common().Value.Type(), a.TemplateLoader) {
					resolver[f] = true
				}
			}
		}
	}
	isRead := func(cal *ssa.Function) bool {
		name := p.extName(cal)
		return name == "io.ReadAll" || name == "os.ReadFile" || name == "io/ioutil.ReadAll" || resolver[cal]
	}
	// a package helper that does the read and hands its error back as its own error result (readAndClose): the callers
	// of the helper are where the error has to be looked at, as it was before the helper was extracted
	forwards := u6ReadErrForwarders(p, a, isRead)
	n := 0
	for _, f := range p.inPkgFuncsSorted(p.allFuncSet()) {
		if implementsLoader(p, a, f) {
			continue
		}
		k := 0
		for _, b := range f.Blocks {
			for _, in := range b.Instrs {
				c, ok := in.(*ssa.Call)
				if !ok || c.Common().StaticCallee() == nil {
					continue
				}
				cal := c.Common().StaticCallee()
				name := p.extName(cal)
				if !isRead(cal) && !forwards[cal] {
					continue
				}
				tup, isT := c.Type().(*types.Tuple)
				if !isT || tup.Len() < 2 || typeName(tup.At(tup.Len()-1).Type()) != "error" {
					continue
				}
				n++
				k++
				key := p.FuncName(f) + ":" + cal.Name() + ":error"
				if k > 1 {
					key += "#" + strconv.Itoa(k)
				}
				used := false
				dropped := ""
				for _, u := range refs(c) {
					ex, isEx := u.(*ssa.Extract)
					if !isEx || ex.Index != tup.Len()-1 {
						continue
					}
					u2, d2 := errValueDiscipline(p, f, ex)
					used = used || u2
					if dropped == "" {
						dropped = d2
					}
				}
				if dropped != "" {
					r.Bad(key, p.InstrPos(in), "the error of %s is tested at %s, but its non-nil case does not end in an error return: a source the loader handed out but that cannot be read (a directory, a stream that breaks off) is taken for an empty text", name, dropped)
					continue
				}
				if used {
					r.OK(key, p.InstrPos(in), "the error of %s is looked at", name)
				} else {
					r.Bad(key, p.InstrPos(in), "the error result of %s is never used: a source that the loader handed out but that cannot be read (a directory, a stream that breaks off) is taken for an empty text", name)
				}
			}
		}
	}
	if n == 0 {
		r.Unk("reads", "-", "no read of a loader's reader found outside the loaders")
	}
}
