package main

// kinds.go: engine K — reflect typestate. Abstract value of a reflect.Value (keyed by structural value key):
// a set of reflect.Kinds plus a three-valued "can Interface()" bit and map-key assignability facts, refined
// on branch edges (Kind()==K, IsValid(), CanInterface(), CanAddr(), AssignableTo / type equality, predicate
// methods of *Value via computed summaries) and joined at control-flow merges. Nothing is executed.

import (
	"fmt"
	"go/constant"
	"go/token"
	"go/types"
	"sort"
	"strings"

	"golang.org/x/tools/go/ssa"
)

type KindSet uint32

const (
	kInvalid = iota
	kBool
	kInt
	kInt8
	kInt16
	kInt32
	kInt64
	kUint
	kUint8
	kUint16
	kUint32
	kUint64
	kUintptr
	kFloat32
	kFloat64
	kComplex64
	kComplex128
	kArray
	kChan
	kFunc
	kInterface
	kMap
	kPointer
	kSlice
	kString
	kStruct
	kUnsafePointer
	numKinds
)

var kindNames = [...]string{"Invalid", "Bool", "Int", "Int8", "Int16", "Int32", "Int64", "Uint", "Uint8", "Uint16", "Uint32", "Uint64", "Uintptr",
	"Float32", "Float64", "Complex64", "Complex128", "Array", "Chan", "Func", "Interface", "Map", "Ptr", "Slice", "String", "Struct", "UnsafePointer"}

const allKinds KindSet = 1<<numKinds - 1

func ks(kinds ...int) KindSet {
	var s KindSet
	for _, k := range kinds {
		s |= 1 << k
	}
	return s
}

func (s KindSet) String() string {
	if s == allKinds {
		return "any"
	}
	if s == allKinds&^ks(kInvalid) {
		return "valid"
	}
	var out []string
	for k := 0; k < numKinds; k++ {
		if s&(1<<k) != 0 {
			out = append(out, kindNames[k])
		}
	}
	return "{" + strings.Join(out, ",") + "}"
}

var (
	ksInts   = ks(kInt, kInt8, kInt16, kInt32, kInt64)
	ksUints  = ks(kUint, kUint8, kUint16, kUint32, kUint64, kUintptr)
	ksFloats = ks(kFloat32, kFloat64)
	ksValid  = allKinds &^ ks(kInvalid)
)

// preconditions of reflect.Value methods (from the reflect documentation)
var kindPre = map[string]KindSet{
	"Int": ksInts, "Uint": ksUints, "Float": ksFloats, "Bool": ks(kBool),
	"Len":      ks(kArray, kChan, kMap, kSlice, kString, kPointer), // Ptr to array allowed
	"Index":    ks(kArray, kSlice, kString),
	"Slice":    ks(kSlice, kString, kArray),
	"MapIndex": ks(kMap), "MapKeys": ks(kMap), "MapRange": ks(kMap),
	"FieldByName": ks(kStruct), "NumField": ks(kStruct), "Field": ks(kStruct), "FieldByIndexErr": ks(kStruct), "FieldByIndex": ks(kStruct),
	"Elem":  ks(kInterface, kPointer),
	"Call":  ks(kFunc),
	"IsNil": ks(kChan, kFunc, kInterface, kMap, kPointer, kSlice, kUnsafePointer),
	"Type":  ksValid, "MethodByName": ksValid, "Method": ksValid, "NumMethod": ksValid, "CanInterface": ksValid,
	"Interface": ksValid, "Convert": ksValid, "Comparable": allKinds, "Equal": ksValid,
	"Cap": ks(kArray, kChan, kSlice, kPointer), "Complex": ks(kComplex64, kComplex128),
	"Bytes": ks(kSlice, kArray), "Pointer": ks(kChan, kFunc, kMap, kPointer, kSlice, kUnsafePointer),
}

// methods without precondition (never panic)
var kindFree = map[string]bool{"Kind": true, "IsValid": true, "String": true, "CanAddr": true, "CanSet": true, "IsZero": false}

var dbgK = false

type ciState int

const (
	ciUnknown ciState = iota
	ciIfValid
	ciYes
)

type kfact struct {
	kinds KindSet
	ci    ciState
	addr  bool // CanAddr proven
}

type kstate struct {
	vals   map[string]kfact
	assign map[string]bool // "mapkey|keykey": key assignable to map's key type
}

func newKState() *kstate { return &kstate{vals: map[string]kfact{}, assign: map[string]bool{}} }

func (s *kstate) clone() *kstate {
	n := newKState()
	for k, v := range s.vals {
		n.vals[k] = v
	}
	for k, v := range s.assign {
		n.assign[k] = v
	}
	return n
}

// join: facts present in both; kinds union; ci weakest (with the "invalid on one side" rule)
func joinK(a, b *kstate) *kstate {
	if a == nil {
		return b.clone()
	}
	if b == nil {
		return a.clone()
	}
	n := newKState()
	for k, fa := range a.vals {
		fb, ok := b.vals[k]
		if !ok {
			// absent on the other side = unknown
			continue
		}
		j := kfact{kinds: fa.kinds | fb.kinds, addr: effAddr(fa) && effAddr(fb)}
		ea, eb := effCI(fa), effCI(fb)
		switch {
		case ea == ciYes && eb == ciYes:
			j.ci = ciYes
		case ea >= ciIfValid && eb >= ciIfValid:
			j.ci = ciIfValid
		}
		n.vals[k] = j
	}
	for k := range a.assign {
		if b.assign[k] {
			n.assign[k] = true
		}
	}
	return n
}

// effCI: a value known to be Invalid satisfies "can Interface if valid" vacuously
func effCI(f kfact) ciState {
	if f.kinds == ks(kInvalid) && f.ci < ciIfValid {
		return ciIfValid
	}
	return f.ci
}

// effAddr: addressability only matters for arrays (Slice); a value known not to be an array satisfies it vacuously
func effAddr(f kfact) bool { return f.addr || f.kinds&ks(kArray) == 0 }

func equalK(a, b *kstate) bool {
	if a == nil || b == nil {
		return a == b
	}
	if len(a.vals) != len(b.vals) || len(a.assign) != len(b.assign) {
		return false
	}
	for k, v := range a.vals {
		if b.vals[k] != v {
			return false
		}
	}
	for k := range a.assign {
		if !b.assign[k] {
			return false
		}
	}
	return true
}

type kengine struct {
	p       *Prog
	f       *ssa.Function
	in, out map[*ssa.BasicBlock]*kstate
	edge    map[[2]*ssa.BasicBlock]*kstate // state on the edge pred→succ after the branch refinement
	preds   *predSummaries
	initial *kstate // facts about reflect.Value parameters lifted from the (static) call sites
	// invariant: the `val` field of a *Value is Invalid or can Interface (assumed for reads, checked at constructions)
}

func isReflectValue(T types.Type) bool {
	n, ok := T.(*types.Named)
	return ok && n.Obj().Pkg() != nil && n.Obj().Pkg().Path() == "reflect" && n.Obj().Name() == "Value"
}

func (e *kengine) key(v ssa.Value) string { return e.p.VN(v) }

const resolvedPrefix = "call((*Value).getResolvedValue;"

// get returns the fact for value v in state s, deriving what follows from v's definition.
func (e *kengine) get(s *kstate, v ssa.Value) kfact {
	k := e.key(v)
	if f, ok := s.vals[k]; ok {
		return f
	}
	return e.derive(s, v, 0)
}

func (e *kengine) derive(s *kstate, v ssa.Value, depth int) kfact {
	f := kfact{kinds: allKinds}
	if depth > 6 {
		return f
	}
	sub := func(x ssa.Value) kfact {
		if ff, ok := s.vals[e.key(x)]; ok {
			return ff
		}
		return e.derive(s, x, depth+1)
	}
	switch x := v.(type) {
	case *ssa.Const:
		// zero reflect.Value
		return kfact{kinds: ks(kInvalid), ci: ciIfValid}
	case *ssa.Call:
		callee := x.Common().StaticCallee()
		if callee == nil {
			return f
		}
		name := e.p.extName(callee)
		args := x.Common().Args
		switch name {
		case "reflect.ValueOf":
			f.ci = ciYes
			// static type of the argument narrows the kind when it is not an interface
			if mi, ok := args[0].(*ssa.MakeInterface); ok {
				if kk, ok := kindOfType(mi.X.Type()); ok {
					f.kinds = ks(kk)
				}
			} else if isNilConst(args[0]) {
				f.kinds = ks(kInvalid)
			}
			return f
		case "(*Value).getResolvedValue":
			// returns v.val unless it is a valid pointer, then its Elem()
			vk := e.valField(s, args[0])
			f.ci = vk.ci
			if vk.kinds&ks(kPointer) == 0 {
				f.kinds = vk.kinds
			} else {
				f.kinds = allKinds
			}
			return f
		case "(reflect.Value).Elem":
			r := sub(args[0])
			f.ci = r.ci
			return f
		case "(reflect.Value).Index", "(reflect.Value).MapIndex", "(reflect.Value).Slice", "(reflect.Value).Slice3", "(reflect.Value).MethodByName", "(reflect.Value).Method", "(reflect.Value).Convert":
			r := sub(args[0])
			f.ci = r.ci
			if f.ci == ciYes && (strings.HasSuffix(name, "MapIndex") || strings.HasSuffix(name, "MethodByName")) {
				f.ci = ciIfValid // may be the zero Value
			}
			if strings.HasSuffix(name, ".Index") {
				f.kinds = ksValid
				if f.ci == ciIfValid {
					f.ci = ciYes
				}
			}
			if strings.HasSuffix(name, ".Slice") {
				f.kinds = ks(kSlice, kString)
			}
			return f
		case "(reflect.Value).FieldByName", "(reflect.Value).Field", "(reflect.Value).FieldByIndex":
			f.ci = ciUnknown // unexported fields cannot be interfaced
			return f
		}
		// a package helper that hands back its reflect.Value argument or what it points to / holds (Elem): the
		// result can be interfaced iff the argument can
		if e.p.InPkg(callee) && callee.Blocks != nil && len(callee.Params) == 1 && isReflectValue(callee.Params[0].Type()) && len(args) == 1 {
			pass := true
			rets := returnsOf(callee)
			for _, ret := range rets {
				if len(ret.Results) != 1 {
					pass = false
					break
				}
				var okv func(v ssa.Value, d int) bool
				onPath := map[ssa.Value]bool{}
				okv = func(v ssa.Value, d int) bool {
					if onPath[v] {
						return true // a loop (v = v.Elem() until it is no pointer): nothing new comes in through it
					}
					if d > 8 {
						return false
					}
					onPath[v] = true
					defer delete(onPath, v)
					switch y := v.(type) {
					case *ssa.Parameter:
						return true
					case *ssa.Phi:
						for _, ed := range y.Edges {
							if !okv(ed, d+1) {
								return false
							}
						}
						return true
					case *ssa.Call:
						if cc := y.Common().StaticCallee(); cc != nil && e.p.extName(cc) == "(reflect.Value).Elem" {
							return okv(y.Common().Args[0], d+1)
						}
					}
					return false
				}
				if !okv(res(ret, 0), 0) {
					pass = false
				}
			}
			if pass && len(rets) > 0 {
				r := sub(args[0])
				f.ci = r.ci
				return f
			}
		}
		return f
	case *ssa.Extract:
		// a reflect.Value among the results of a helper of the package (`current, safe = unpackCallResult(rv)`): the join
		// of what the helper's returns hand back, taken from a run of the helper that assumes nothing about its parameters
		if c, isCall := x.Tuple.(*ssa.Call); isCall && isReflectValue(x.Type()) {
			if g := c.Common().StaticCallee(); g != nil && e.p.InPkg(g) && g.Blocks != nil && g != e.f {
				if rf, ok := kResultFact(e.p, g, x.Index, e.preds); ok {
					return rf
				}
			}
		}
		// element of []reflect.Value results (Call) etc.
		return f
	case *ssa.UnOp:
		if x.Op == token.MUL {
			// load of <*Value>.val: the type invariant
			if base, n, fld := fieldLoadBase(x); n != nil && n.Obj().Name() == "Value" && fld == "val" {
				return e.valField(s, base)
			}
			// element of a slice of reflect.Value produced by Call / MapKeys: interfaceable iff the source was
			if ia, ok := x.X.(*ssa.IndexAddr); ok {
				src := ia.X
				for i := 0; i < 4; i++ {
					switch y := src.(type) {
					case *ssa.ChangeType:
						src = y.X
						continue
					case *ssa.Convert:
						src = y.X
						continue
					case *ssa.UnOp:
						if sv := localLoadValue(y); sv != nil {
							src = sv
							continue
						}
					}
					break
				}
				if ex, isEx := src.(*ssa.Extract); isEx && ex.Index == 0 {
					// first result of a helper that only makes the reflect Call (safeCall)
					if wc, isCall := ex.Tuple.(*ssa.Call); isCall && reflectCallWrapper(e.p, wc.Common().StaticCallee()) {
						src = wc
					}
				}
				if c, ok := src.(*ssa.Call); ok && c.Common().StaticCallee() != nil {
					n := e.p.extName(c.Common().StaticCallee())
					if reflectCallWrapper(e.p, c.Common().StaticCallee()) {
						n = "(reflect.Value).Call"
					}
					if n == "(reflect.Value).Call" || n == "(reflect.Value).MapKeys" {
						r := sub(c.Common().Args[0])
						f.ci = r.ci
						f.kinds = ksValid
						if f.ci == ciIfValid {
							f.ci = ciYes
						}
						return f
					}
				}
			}
			if sv := localLoadValue(x); sv != nil {
				return sub(sv)
			}
		}
	case *ssa.Phi:
		// handled by the dataflow (phi facts are stored explicitly); unknown here
		return f
	}
	return f
}

// valField: fact about <v>.val for a *Value v (type invariant + relation with the resolved value facts)
func (e *kengine) valField(s *kstate, v ssa.Value) kfact {
	k := "*(&(" + e.key(v) + ").val)"
	if f, ok := s.vals[k]; ok {
		return f
	}
	f := kfact{kinds: allKinds, ci: ciIfValid}
	// resolved valid ⇒ val valid
	if rf, ok := s.vals[resolvedPrefix+e.key(v)+")"]; ok && rf.kinds&ks(kInvalid) == 0 {
		f.kinds = ksValid
		f.ci = ciYes
	}
	return f
}

func kindOfType(T types.Type) (int, bool) {
	switch u := T.Underlying().(type) {
	case *types.Basic:
		switch u.Kind() {
		case types.Bool:
			return kBool, true
		case types.Int:
			return kInt, true
		case types.Int8:
			return kInt8, true
		case types.Int16:
			return kInt16, true
		case types.Int32:
			return kInt32, true
		case types.Int64:
			return kInt64, true
		case types.Uint:
			return kUint, true
		case types.Uint8:
			return kUint8, true
		case types.Uint16:
			return kUint16, true
		case types.Uint32:
			return kUint32, true
		case types.Uint64:
			return kUint64, true
		case types.Float32:
			return kFloat32, true
		case types.Float64:
			return kFloat64, true
		case types.String:
			return kString, true
		}
	case *types.Slice:
		return kSlice, true
	case *types.Map:
		return kMap, true
	case *types.Pointer:
		return kPointer, true
	case *types.Struct:
		return kStruct, true
	case *types.Signature:
		return kFunc, true
	case *types.Array:
		return kArray, true
	}
	return 0, false
}

// set stores a refined fact for v (and mirrors resolved→val validity).
func (e *kengine) set(s *kstate, v ssa.Value, f kfact) {
	if f.kinds&ks(kInvalid) == 0 && f.ci == ciIfValid {
		f.ci = ciYes
	}
	s.vals[e.key(v)] = f
}

// kindConst: v is a constant reflect.Kind.
func kindConst(v ssa.Value) (int, bool) {
	c, ok := v.(*ssa.Const)
	if !ok || c.Value == nil || c.Value.Kind() != constant.Int {
		return 0, false
	}
	n, ok := c.Type().(*types.Named)
	if !ok || n.Obj().Name() != "Kind" || n.Obj().Pkg() == nil || n.Obj().Pkg().Path() != "reflect" {
		return 0, false
	}
	k, _ := constant.Int64Val(c.Value)
	return int(k), true
}

func (e *kengine) reflectCall(v ssa.Value, method string) (recv ssa.Value, ok bool) {
	c, isCall := v.(*ssa.Call)
	if !isCall || c.Common().StaticCallee() == nil {
		return nil, false
	}
	if e.p.extName(c.Common().StaticCallee()) != "(reflect.Value)."+method {
		return nil, false
	}
	return c.Common().Args[0], true
}

// refine applies the knowledge that `cond` has truth value `pol` to state s (in place).
func (e *kengine) refine(s *kstate, cond ssa.Value, pol bool) {
	cond, pol = normCond(cond, pol)
	switch c := cond.(type) {
	case *ssa.BinOp:
		if c.Op != token.EQL && c.Op != token.NEQ {
			return
		}
		eq := (c.Op == token.EQL) == pol
		// `v, err := helper(…); if err != nil { return }`: on the err == nil edge the other results of a package helper
		// have the facts of the helper's returns that return a nil error
		if eq {
			for _, pair := range [][2]ssa.Value{{c.X, c.Y}, {c.Y, c.X}} {
				if isNilConst(pair[1]) {
					e.refineSuccessResults(s, pair[0])
				}
			}
		}
		// Kind(x) ==/!= K
		for _, pair := range [][2]ssa.Value{{c.X, c.Y}, {c.Y, c.X}} {
			if x, ok := e.reflectCall(pair[0], "Kind"); ok {
				if k, isK := kindConst(pair[1]); isK {
					f := e.get(s, x)
					if eq {
						f.kinds &= ks(k)
					} else {
						f.kinds &^= ks(k)
					}
					e.set(s, x, f)
					return
				}
			}
		}
		// Type(m).Key() ==/!= Type(k)  (reflect.Type values)
		if eq {
			for _, pair := range [][2]ssa.Value{{c.X, c.Y}, {c.Y, c.X}} {
				if m, ok := typeKeyOf(e.p, pair[0]); ok {
					if k, ok := typeOf(e.p, pair[1]); ok {
						s.assign[e.key(m)+"|"+e.key(k)] = true
						// a value whose Type() was taken is valid
					}
				}
			}
		}
	case *ssa.Extract:
		// `_, ok := holder.Interface().(T)` / a case of a type switch on it: the held value has T's kind (tol_U2.go)
		e.refineTypeAssert(s, c, pol)
		// `item, ok := helper(…); if ok`: on the edge where the helper's last (bool) result has the value pol, the other
		// results have the facts of the helper's returns that return that constant
		e.refineCorrelated(s, c, func(v ssa.Value) bool {
			k, isC := v.(*ssa.Const)
			return isC && k.Value != nil && k.Value.Kind() == constant.Bool && constant.BoolVal(k.Value) == pol
		}, "bool")
	case *ssa.Call:
		callee := c.Common().StaticCallee()
		if c.Common().IsInvoke() {
			// reflect.Type.AssignableTo(u): (Type(k)).AssignableTo(Type(m).Key())
			if c.Common().Method.Name() == "AssignableTo" && pol {
				if k, ok := typeOf(e.p, c.Common().Value); ok {
					if m, ok := typeKeyOf(e.p, c.Common().Args[0]); ok {
						s.assign[e.key(m)+"|"+e.key(k)] = true
					}
				}
			}
			return
		}
		if callee == nil {
			return
		}
		name := e.p.extName(callee)
		args := c.Common().Args
		switch name {
		case "(reflect.Value).IsValid":
			f := e.get(s, args[0])
			if pol {
				f.kinds &^= ks(kInvalid)
			} else {
				f.kinds &= ks(kInvalid)
			}
			e.set(s, args[0], f)
		case "(reflect.Value).CanInterface":
			f := e.get(s, args[0])
			if pol {
				f.ci = ciYes
				f.kinds &^= ks(kInvalid)
			}
			e.set(s, args[0], f)
		case "(reflect.Value).CanAddr":
			f := e.get(s, args[0])
			if pol {
				f.addr = true
			}
			e.set(s, args[0], f)
		default:
			// a predicate over kinds (`isUnsignedKind(v.Kind())`): the kinds for which it can answer pol
			if e.p.InPkg(callee) && callee.Signature.Recv() == nil && len(args) == 1 && isKindPredicate(callee) {
				if x, ok := e.reflectCall(args[0], "Kind"); ok {
					f := e.get(s, x)
					var keep KindSet
					for k := 0; k < numKinds; k++ {
						if f.kinds&(1<<k) == 0 {
							continue
						}
						canT, canF := evalKindPredicate(callee, k)
						if (pol && canT) || (!pol && canF) {
							keep |= 1 << k
						}
					}
					f.kinds = keep
					e.set(s, x, f)
				}
				return
			}
			// predicate method of *Value: refine the resolved value's kinds
			if e.preds != nil && e.p.InPkg(callee) && callee.Signature.Recv() != nil && len(args) == 1 {
				if sum, ok := e.preds.get(callee); ok {
					rk := resolvedPrefix + e.key(args[0]) + ")"
					f, has := s.vals[rk]
					if !has {
						f = kfact{kinds: allKinds, ci: ciIfValid}
					}
					var keep KindSet
					for k := 0; k < numKinds; k++ {
						if f.kinds&(1<<k) == 0 {
							continue
						}
						if (pol && sum.canTrue&(1<<k) != 0) || (!pol && sum.canFalse&(1<<k) != 0) {
							keep |= 1 << k
						}
					}
					f.kinds = keep
					if f.kinds&ks(kInvalid) == 0 && f.ci == ciIfValid {
						f.ci = ciYes
					}
					s.vals[rk] = f
				}
			}
		}
	}
}

// typeOf: v = Type(x) → x
func typeOf(p *Prog, v ssa.Value) (ssa.Value, bool) {
	c, ok := v.(*ssa.Call)
	if !ok || c.Common().StaticCallee() == nil {
		return nil, false
	}
	switch p.extName(c.Common().StaticCallee()) {
	case "(reflect.Value).Type":
		return c.Common().Args[0], true
	case "reflect.TypeOf":
		return c.Common().Args[0], true
	}
	return nil, false
}

// typeKeyOf: v = Type(m).Key() → m
func typeKeyOf(p *Prog, v ssa.Value) (ssa.Value, bool) {
	c, ok := v.(*ssa.Call)
	if !ok || !c.Common().IsInvoke() || c.Common().Method.Name() != "Key" {
		return nil, false
	}
	return typeOf(p, c.Common().Value)
}

// firstIterationTest: cond is `idx == 0` where idx = phi[-1, idx] + 1 of a range loop (go/ssa lowering);
// returns the loop header.
func firstIterationTest(cond ssa.Value) (*ssa.BasicBlock, bool) {
	bo, ok := cond.(*ssa.BinOp)
	if !ok || bo.Op != token.EQL {
		return nil, false
	}
	k, isC := constInt(bo.Y)
	if !isC || k != 0 {
		return nil, false
	}
	add, ok := bo.X.(*ssa.BinOp)
	if !ok || add.Op != token.ADD {
		return nil, false
	}
	if one, isC := constInt(add.Y); !isC || one != 1 {
		return nil, false
	}
	phi, ok := add.X.(*ssa.Phi)
	if !ok || len(phi.Edges) != 2 {
		return nil, false
	}
	hasInit, hasBack := false, false
	for _, e := range phi.Edges {
		if c, isC := constInt(e); isC && c == -1 {
			hasInit = true
		}
		if e == ssa.Value(add) {
			hasBack = true
		}
	}
	if hasInit && hasBack {
		return phi.Block(), true
	}
	return nil, false
}

// run computes the fixpoint for function f.
func (e *kengine) run() {
	f := e.f
	e.in = map[*ssa.BasicBlock]*kstate{}
	e.out = map[*ssa.BasicBlock]*kstate{}
	e.edge = map[[2]*ssa.BasicBlock]*kstate{}
	e.in[f.Blocks[0]] = newKState()
	if e.initial != nil {
		e.in[f.Blocks[0]] = e.initial.clone()
	}
	work := []*ssa.BasicBlock{f.Blocks[0]}
	inWork := map[*ssa.BasicBlock]bool{f.Blocks[0]: true}
	iter := 0
	for len(work) > 0 && iter < 5000 {
		iter++
		b := work[0]
		work = work[1:]
		inWork[b] = false
		st := e.in[b]
		if st == nil {
			continue
		}
		o := st.clone() // instructions do not change facts (values are keyed structurally)
		if !equalK(e.out[b], o) {
			e.out[b] = o
		}
		for i, s := range b.Succs {
			es := o.clone()
			if iff, ok := b.Instrs[len(b.Instrs)-1].(*ssa.If); ok && len(b.Succs) == 2 && b.Succs[0] != b.Succs[1] {
				e.refine(es, iff.Cond, i == 0)
				// contradiction: some value has an empty kind set ⇒ edge infeasible
				if infeasible(es) {
					continue
				}
				// first-iteration partitioning
				if hdr, ok := firstIterationTest(iff.Cond); ok && i == 1 {
					e.laterIteration(es, hdr)
				} else if ok && i == 0 {
					e.firstIteration(es, hdr)
				}
			}
			// phi facts for successor s from this edge (parallel assignment: read from a snapshot)
			o := es.clone()
			e.edge[[2]*ssa.BasicBlock{b, s}] = o
			for _, in := range s.Instrs {
				phi, ok := in.(*ssa.Phi)
				if !ok {
					break
				}
				if !isReflectValue(phi.Type()) {
					continue
				}
				for pi, pr := range s.Preds {
					if pr == b {
						es.vals[e.key(phi)] = e.get(o, phi.Edges[pi])
						if dbgK && effCI(es.vals[e.key(phi)]) == ciUnknown {
							fmt.Printf("DBG unknown ci: b%d->b%d phi %s edge %s = %s (%s)\n", b.Index, s.Index, phi.Name(), phi.Edges[pi].Name(), ciText(es.vals[e.key(phi)]), e.key(phi.Edges[pi]))
						}
					}
				}
			}
			merged := joinK(e.in[s], es)
			if e.in[s] == nil || !equalK(e.in[s], merged) {
				e.in[s] = merged
				if !inWork[s] {
					inWork[s] = true
					work = append(work, s)
				}
			}
		}
	}
}

func infeasible(s *kstate) bool {
	for _, f := range s.vals {
		if f.kinds == 0 {
			return true
		}
	}
	return false
}

// laterIteration: control is in iteration ≥ 2 of the loop with header hdr: header phis hold their back-edge values.
func (e *kengine) laterIteration(s *kstate, hdr *ssa.BasicBlock) {
	for _, in := range hdr.Instrs {
		phi, ok := in.(*ssa.Phi)
		if !ok {
			break
		}
		if !isReflectValue(phi.Type()) {
			continue
		}
		var acc *kfact
		for pi, pr := range hdr.Preds {
			if !hdr.Dominates(pr) {
				continue // entry edge
			}
			o := e.edge[[2]*ssa.BasicBlock{pr, hdr}]
			if o == nil {
				continue // latch not reached yet
			}
			f := e.get(o, phi.Edges[pi])
			if acc == nil {
				acc = &f
			} else {
				acc.kinds |= f.kinds
				if f.ci < acc.ci {
					acc.ci = f.ci
				}
			}
		}
		if acc == nil {
			// no back edge evaluated yet: bottom (the edge contributes nothing yet)
			s.vals[e.key(phi)] = kfact{kinds: 0, ci: ciYes, addr: true}
			continue
		}
		s.vals[e.key(phi)] = *acc
	}
}

func (e *kengine) firstIteration(s *kstate, hdr *ssa.BasicBlock) {
	for _, in := range hdr.Instrs {
		phi, ok := in.(*ssa.Phi)
		if !ok {
			break
		}
		if !isReflectValue(phi.Type()) {
			continue
		}
		for pi, pr := range hdr.Preds {
			if hdr.Dominates(pr) {
				continue
			}
			if o := e.edge[[2]*ssa.BasicBlock{pr, hdr}]; o != nil {
				s.vals[e.key(phi)] = e.get(o, phi.Edges[pi])
			}
		}
	}
}

// ---- predicate summaries ----------------------------------------------

type predSummary struct {
	canTrue, canFalse KindSet // resolved kinds for which the predicate can return true / false
}

type predSummaries struct {
	p    *Prog
	memo map[*ssa.Function]*predSummary
	busy map[*ssa.Function]bool
}

func newPredSummaries(p *Prog) *predSummaries {
	return &predSummaries{p: p, memo: map[*ssa.Function]*predSummary{}, busy: map[*ssa.Function]bool{}}
}

// get computes, for a no-argument bool method of *Value, for each kind of the RESOLVED value whether it can return
// true / false, by abstractly evaluating its body with the resolved kind fixed to each single kind.
func (ps *predSummaries) get(f *ssa.Function) (*predSummary, bool) {
	if s, ok := ps.memo[f]; ok {
		return s, s != nil
	}
	if ps.busy[f] || f.Blocks == nil || f.Signature.Results().Len() != 1 || len(f.Params) != 1 {
		return nil, false
	}
	if b, ok := f.Signature.Results().At(0).Type().Underlying().(*types.Basic); !ok || b.Kind() != types.Bool {
		return nil, false
	}
	if n := structOf(f.Params[0].Type()); n == nil || n.Obj().Name() != "Value" {
		return nil, false
	}
	ps.busy[f] = true
	defer delete(ps.busy, f)
	sum := &predSummary{}
	for k := 0; k < numKinds; k++ {
		t, fl, ok := ps.evalFor(f, k)
		if !ok {
			ps.memo[f] = nil
			return nil, false
		}
		if t {
			sum.canTrue |= 1 << k
		}
		if fl {
			sum.canFalse |= 1 << k
		}
	}
	ps.memo[f] = sum
	return sum, true
}

type tri int

const (
	triUnknown tri = iota
	triTrue
	triFalse
)

// evalFor evaluates predicate f assuming the resolved kind of its receiver is k: which booleans can it return?
func (ps *predSummaries) evalFor(f *ssa.Function, k int) (canTrue, canFalse, ok bool) {
	p := ps.p
	recv := f.Params[0]
	rk := resolvedPrefix + p.VN(recv) + ")"
	var evalBool func(v ssa.Value, from *ssa.BasicBlock, depth int) tri
	reach := map[*ssa.BasicBlock]bool{f.Blocks[0]: true}
	edgeTaken := map[[2]*ssa.BasicBlock]bool{}
	kindOf := func(x ssa.Value) (int, bool) {
		// x must be the resolved value of the receiver (or the val field when not a pointer)
		if p.VN(x) == rk {
			return k, true
		}
		if k != kPointer && p.VN(x) == "*(&("+p.VN(recv)+").val)" {
			return k, true
		}
		return 0, false
	}
	evalBool = func(v ssa.Value, from *ssa.BasicBlock, depth int) tri {
		if depth > 12 {
			return triUnknown
		}
		if b, isC := constBool(v); isC {
			if b {
				return triTrue
			}
			return triFalse
		}
		switch x := v.(type) {
		case *ssa.UnOp:
			if x.Op == token.NOT {
				switch evalBool(x.X, from, depth+1) {
				case triTrue:
					return triFalse
				case triFalse:
					return triTrue
				}
			}
		case *ssa.BinOp:
			if x.Op == token.EQL || x.Op == token.NEQ {
				for _, pair := range [][2]ssa.Value{{x.X, x.Y}, {x.Y, x.X}} {
					if c, isCall := pair[0].(*ssa.Call); isCall && c.Common().StaticCallee() != nil && p.extName(c.Common().StaticCallee()) == "(reflect.Value).Kind" {
						if kk, known := kindOf(c.Common().Args[0]); known {
							if kc, isK := kindConst(pair[1]); isK {
								if (kk == kc) == (x.Op == token.EQL) {
									return triTrue
								}
								return triFalse
							}
						}
					}
				}
			}
		case *ssa.Call:
			callee := x.Common().StaticCallee()
			if callee == nil {
				return triUnknown
			}
			name := p.extName(callee)
			if name == "(reflect.Value).IsValid" {
				if kk, known := kindOf(x.Common().Args[0]); known {
					if kk != kInvalid {
						return triTrue
					}
					return triFalse
				}
			}
			if p.InPkg(callee) && len(x.Common().Args) == 1 && x.Common().Args[0] == ssa.Value(recv) {
				if sub, ok := ps.get(callee); ok {
					t, fl := sub.canTrue&(1<<k) != 0, sub.canFalse&(1<<k) != 0
					if t && !fl {
						return triTrue
					}
					if fl && !t {
						return triFalse
					}
				}
			}
		case *ssa.Phi:
			res := triUnknown
			first := true
			for i, pr := range x.Block().Preds {
				if !edgeTaken[[2]*ssa.BasicBlock{pr, x.Block()}] {
					continue
				}
				t := evalBool(x.Edges[i], pr, depth+1)
				if first {
					res, first = t, false
				} else if t != res {
					return triUnknown
				}
			}
			return res
		case *ssa.Extract:
			// comma-ok assertion etc.: unknown
		}
		return triUnknown
	}
	// explore feasible blocks
	work := []*ssa.BasicBlock{f.Blocks[0]}
	for len(work) > 0 {
		b := work[0]
		work = work[1:]
		last := b.Instrs[len(b.Instrs)-1]
		succs := b.Succs
		if iff, isIf := last.(*ssa.If); isIf {
			switch evalBool(iff.Cond, b, 0) {
			case triTrue:
				succs = b.Succs[:1]
			case triFalse:
				succs = b.Succs[1:]
			}
		}
		for _, s := range succs {
			edgeTaken[[2]*ssa.BasicBlock{b, s}] = true
			if !reach[s] {
				reach[s] = true
				work = append(work, s)
			}
		}
	}
	for _, ret := range returnsOf(f) {
		if !reach[ret.Block()] {
			continue
		}
		switch evalBool(ret.Results[0], ret.Block(), 0) {
		case triTrue:
			canTrue = true
		case triFalse:
			canFalse = true
		default:
			canTrue, canFalse = true, true
		}
	}
	return canTrue, canFalse, true
}

// ---- the rule -----------------------------------------------------------

// reviewed sites the engine cannot prove (function|method|receiver key prefix) with one line of reason
var assumedSafe = map[string]string{
	"(*variableResolver).resolve|Call": "argument count, variadic shape, NumOut and parameter validity are checked by the call protocol above (R-C08-CALL); reflect's per-argument assignability is established by the type comparison loop",
}

func ruleReflectTypestate(p *Prog, a *Anchors, r *Report, rule string, only func(*ssa.Function) bool) {
	r.Begin(rule, "every kind-restricted reflect.Value operation is reached only with a receiver whose kind set (established by Kind()/IsValid()/predicate tests on every path) lies within the operation's precondition; Interface() only on values that can be interfaced; MapIndex only with an assignable key", 30)
	preds := newPredSummaries(p)
	funcs := 0
	for _, f := range p.Funcs {
		if only != nil && !only(f) {
			continue
		}
		// does f use reflect at all?
		uses := false
		for _, b := range f.Blocks {
			for _, in := range b.Instrs {
				if c, ok := in.(*ssa.Call); ok && c.Common().StaticCallee() != nil && c.Common().StaticCallee().Pkg != nil && c.Common().StaticCallee().Pkg.Pkg.Path() == "reflect" {
					uses = true
				}
			}
		}
		if !uses {
			continue
		}
		funcs++
		e := kEngineFor(p, f, preds, map[*ssa.Function]bool{})
		fname := p.FuncName(f)
		for _, b := range f.Blocks {
			st := e.in[b]
			for _, in := range b.Instrs {
				c, ok := in.(*ssa.Call)
				if !ok || c.Common().StaticCallee() == nil {
					// construction of Value{val: X}: the invariant
					if store, isSt := in.(*ssa.Store); isSt && isFieldAddrOf(store.Addr, "Value", "val") && st != nil {
						fct := e.get(st, store.Val)
						key := fname + ":Value.val="
						if effCI(fct) >= ciIfValid || fct.ci == ciYes {
							r.OK(key, p.InstrPos(in), "stored reflect.Value can be interfaced (or is invalid): %s", ciText(fct))
						} else {
							r.Bad(key, p.InstrPos(in), "a reflect.Value that may come from an unexported struct field is stored into a pongo2.Value (%s): a later Interface()/String() panics", p.VN(store.Val))
						}
					}
					continue
				}
				callee := c.Common().StaticCallee()
				if callee.Pkg == nil || callee.Pkg.Pkg.Path() != "reflect" || callee.Signature.Recv() == nil {
					continue
				}
				if !isReflectValue(callee.Signature.Recv().Type()) {
					continue
				}
				m := callee.Name()
				if kindFree[m] {
					continue
				}
				pre, known := kindPre[m]
				key := fname + ":" + m
				pos := p.InstrPos(in)
				if st == nil {
					r.Dead(key, pos, "unreachable in the abstract execution")
					continue
				}
				recv := c.Common().Args[0]
				fct := e.get(st, recv)
				if !known {
					r.Unk(key, pos, "reflect.Value.%s has no precondition entry in the checker's table", m)
					continue
				}
				if m == "Call" && reflectCallWrapper(p, f) && recoversIntoError(f) {
					r.OK(key, pos, "made under a deferred recover that returns the panic as an error: neither the called code nor reflect's own argument checks can take the process down")
					continue
				}
				if why, ok := assumedSafe[fname+"|"+m]; ok && (fct.kinds&^pre != 0 || m == "Call" || m == "MapIndex") {
					r.Assume(key, pos, "reviewed: %s", why)
					continue
				}
				if fct.kinds&^pre != 0 {
					r.Bad(key, pos, "%s is called on a value whose kind can be %s here, allowed is %s: reflect panics", m, (fct.kinds &^ pre).String(), pre.String())
					continue
				}
				extra := ""
				switch m {
				case "Interface":
					if fct.ci != ciYes && !(fct.ci == ciIfValid && fct.kinds&ks(kInvalid) == 0) {
						r.Bad(key, pos, "Interface() on a value that may stem from an unexported field (%s): reflect panics", p.VN(recv))
						continue
					}
					extra = ", can be interfaced"
				case "MapIndex":
					if !e.keyAssignable(st, recv, c.Common().Args[1]) && !keyFromMapKeys(p, c.Common().Args[1], recv) {
						r.Bad(key, pos, "MapIndex with a key (%s) whose type was not shown assignable to the map's key type: reflect panics for a wrong-typed key", p.VN(c.Common().Args[1]))
						continue
					}
					extra = ", key assignable"
				case "Slice":
					if !effAddr(fct) {
						r.Bad(key, pos, "Slice on a value that can be an array which is not addressable: reflect panics")
						continue
					}
				}
				r.OK(key, pos, "receiver kind %s ⊆ %s%s", fct.kinds.String(), pre.String(), extra)
			}
		}
	}
	r.Extra["reflect_functions_analysed"] = funcs
	// predicate summaries, for the reader
	var sums []string
	for f, s := range preds.memo {
		if s != nil {
			sums = append(sums, fmt.Sprintf("%s: true for %s", p.FuncName(f), s.canTrue.String()))
		}
	}
	sort.Strings(sums)
	r.Extra["predicate_summaries"] = sums
}

var kEngines = map[*Prog]map[*ssa.Function]*kengine{}

// kEngineFor runs (once) the abstract execution of f. reflect.Value parameters of an unexported function that is only
// ever called statically start with the join of the facts its callers have established for the argument — a helper
// such as fieldByName(v, name) is analysed under "v is a struct" when every caller has tested that.
func kEngineFor(p *Prog, f *ssa.Function, preds *predSummaries, visiting map[*ssa.Function]bool) *kengine {
	if kEngines[p] == nil {
		kEngines[p] = map[*ssa.Function]*kengine{}
	}
	if e, ok := kEngines[p][f]; ok {
		return e
	}
	e := &kengine{p: p, f: f, preds: preds}
	if !visiting[f] && f.Parent() == nil && (f.Object() == nil || !f.Object().Exported()) && p.staticOnly(f, nil) {
		visiting[f] = true
		node := p.CG.Nodes[f]
		var init *kstate
		ok := node != nil && len(node.In) > 0
		if ok {
			for _, edge := range node.In {
				caller := edge.Caller.Func
				if caller == f || !p.InPkg(caller) || caller.Blocks == nil || visiting[caller] {
					ok = false
					break
				}
				ce := kEngineFor(p, caller, preds, visiting)
				cst := ce.in[edge.Site.Block()]
				if cst == nil {
					continue // unreachable call site
				}
				// the caller's facts about the arguments (reflect.Value arguments, val field / resolved value of *Value
				// arguments, key assignability between them) over the callee's parameters (tol_U2.go)
				st := liftArgumentFacts(ce, cst, e, callArgs(edge.Site.Common()))
				if init == nil {
					init = st
				} else {
					init = joinInitialK(init, st)
				}
			}
		}
		if ok && init != nil {
			e.initial = init
		}
		delete(visiting, f)
	}
	e.run()
	kEngines[p][f] = e
	return e
}

func ciText(f kfact) string {
	return fmt.Sprintf("kinds %s, interfaceable: %s", f.kinds.String(), [...]string{"unknown", "if valid", "yes"}[f.ci])
}

// keyFromMapKeys: the key is an element of m.MapKeys() for the same map m.
func keyFromMapKeys(p *Prog, k ssa.Value, m ssa.Value) bool {
	u, ok := k.(*ssa.UnOp)
	if !ok {
		return false
	}
	ia, ok := u.X.(*ssa.IndexAddr)
	if !ok {
		return false
	}
	var src ssa.Value = ia.X
	// sortedKeys(m.MapKeys()) conversion / local
	for i := 0; i < 4; i++ {
		switch x := src.(type) {
		case *ssa.ChangeType:
			src = x.X
			continue
		case *ssa.Convert:
			src = x.X
			continue
		case *ssa.UnOp:
			if sv := localLoadValue(x); sv != nil {
				src = sv
				continue
			}
		}
		break
	}
	c, ok := src.(*ssa.Call)
	if !ok || c.Common().StaticCallee() == nil || p.extName(c.Common().StaticCallee()) != "(reflect.Value).MapKeys" {
		return false
	}
	return p.VN(c.Common().Args[0]) == p.VN(m)
}

// refineSuccessResults: errv is the error result of a call of a package function; sets the facts of the call's
// reflect.Value results to the join over the callee's returns whose error result is the nil constant.
func (e *kengine) refineSuccessResults(s *kstate, errv ssa.Value) {
	e.refineCorrelated(s, errv, isNilConst, "error")
}

// refineCorrelated: lastv is the last result (of type lastType) of a call of a package function; sets the facts of the
// call's reflect.Value results to the join over the callee's returns whose last result satisfies want.
func (e *kengine) refineCorrelated(s *kstate, lastv ssa.Value, want func(ssa.Value) bool, lastType string) {
	ex, ok := lastv.(*ssa.Extract)
	if !ok {
		return
	}
	call, ok := ex.Tuple.(*ssa.Call)
	if !ok {
		return
	}
	callee := call.Common().StaticCallee()
	if callee == nil || !e.p.InPkg(callee) || callee.Blocks == nil || callee == e.f {
		return
	}
	res := callee.Signature.Results()
	if ex.Index != res.Len()-1 || typeName(res.At(ex.Index).Type()) != lastType {
		return
	}
	if kVisiting[callee] {
		return
	}
	kVisiting[callee] = true
	// the callee is analysed for THIS call: its reflect.Value parameters start with the facts of the arguments here
	// (not cached: the caller's own analysis is still running)
	ce := &kengine{p: e.p, f: callee, preds: e.preds}
	init := newKState()
	args := callArgs(call.Common())
	for i, pa := range callee.Params {
		if i < len(args) && isReflectValue(pa.Type()) {
			init.vals[ce.key(pa)] = e.get(s, args[i])
		}
	}
	ce.initial = init
	ce.run()
	delete(kVisiting, callee)
	for i := 0; i < res.Len()-1; i++ {
		if !isReflectValue(res.At(i).Type()) {
			continue
		}
		var joined *kfact
		for _, ret := range returnsOf(callee) {
			if len(ret.Results) != res.Len() || !want(res0(ret, res.Len()-1)) {
				continue
			}
			st := ce.out[ret.Block()]
			if st == nil {
				continue // unreachable return
			}
			f := ce.get(st, res0(ret, i))
			if joined == nil {
				g := f
				joined = &g
			} else {
				j := kfact{kinds: joined.kinds | f.kinds, ci: joined.ci, addr: joined.addr && f.addr}
				if f.ci < j.ci {
					j.ci = f.ci
				}
				joined = &j
			}
		}
		if joined == nil {
			continue
		}
		// a helper through which the reflect Call is made: what it hands back are results of the call of the caller's
		// function value, interfaceable iff that one was (the same reasoning as for fn.Call(args) itself)
		if fi, _, isW := reflectCallWrapperIdx(e.p, callee, 0); isW && fi < len(call.Common().Args) {
			fnFact := e.get(s, call.Common().Args[fi])
			joined.ci = fnFact.ci
			if joined.ci == ciIfValid {
				joined.ci = ciYes
			}
		}
		// the Extract of result i of this call
		for _, u := range refs(call) {
			if rx, isEx := u.(*ssa.Extract); isEx && rx.Index == i {
				e.set(s, rx, *joined)
			}
		}
	}
}

var kVisiting = map[*ssa.Function]bool{}

// isKindPredicate: func(k reflect.Kind) bool of the package.
func isKindPredicate(g *ssa.Function) bool {
	if g == nil || g.Blocks == nil || len(g.Params) != 1 || g.Signature.Results().Len() != 1 {
		return false
	}
	n, ok := g.Params[0].Type().(*types.Named)
	if !ok || n.Obj().Pkg() == nil || n.Obj().Pkg().Path() != "reflect" || n.Obj().Name() != "Kind" {
		return false
	}
	b, ok := g.Signature.Results().At(0).Type().Underlying().(*types.Basic)
	return ok && b.Kind() == types.Bool
}

// evalKindPredicate runs g for the kind k: comparisons of the parameter with constants are decided, every other branch
// goes both ways; which booleans can come back.
func evalKindPredicate(g *ssa.Function, k int) (canTrue, canFalse bool) {
	type at struct{ b, from *ssa.BasicBlock }
	seen := map[at]bool{}
	var walk func(b, from *ssa.BasicBlock)
	boolOf := func(v ssa.Value, b, from *ssa.BasicBlock) (val, known bool) {
		for d := 0; d < 4; d++ {
			if ph, ok := v.(*ssa.Phi); ok && ph.Block() == b && from != nil {
				for i, pr := range b.Preds {
					if pr == from {
						v = ph.Edges[i]
					}
				}
				continue
			}
			break
		}
		if c, ok := v.(*ssa.Const); ok && c.Value != nil && c.Value.Kind() == constant.Bool {
			return constant.BoolVal(c.Value), true
		}
		if bo, ok := v.(*ssa.BinOp); ok && (bo.Op == token.EQL || bo.Op == token.NEQ) {
			for _, pr := range [][2]ssa.Value{{bo.X, bo.Y}, {bo.Y, bo.X}} {
				if pr[0] == ssa.Value(g.Params[0]) {
					if kk, isK := kindConst(pr[1]); isK {
						return (kk == k) == (bo.Op == token.EQL), true
					}
				}
			}
		}
		return false, false
	}
	walk = func(b, from *ssa.BasicBlock) {
		if seen[at{b, from}] {
			return
		}
		seen[at{b, from}] = true
		switch last := b.Instrs[len(b.Instrs)-1].(type) {
		case *ssa.Return:
			if v, known := boolOf(last.Results[0], b, from); known {
				if v {
					canTrue = true
				} else {
					canFalse = true
				}
			} else {
				canTrue, canFalse = true, true
			}
		case *ssa.If:
			if v, known := boolOf(last.Cond, b, from); known {
				if v {
					walk(b.Succs[0], b)
				} else {
					walk(b.Succs[1], b)
				}
			} else {
				walk(b.Succs[0], b)
				walk(b.Succs[1], b)
			}
		default:
			for _, sc := range b.Succs {
				walk(sc, b)
			}
		}
	}
	walk(g.Blocks[0], nil)
	return
}

var kResultMemo = map[*ssa.Function]map[int]*kfact{}
var kResultBusy = map[*ssa.Function]bool{}

// kResultFact: what result #idx (a reflect.Value) of helper g can be, as the join over g's returns, in a run of g that
// starts without facts about its parameters (an engine of its own, not the one g is reported with).
func kResultFact(p *Prog, g *ssa.Function, idx int, preds *predSummaries) (kfact, bool) {
	if m, ok := kResultMemo[g]; ok {
		if f, has := m[idx]; has {
			if f == nil {
				return kfact{}, false
			}
			return *f, true
		}
	}
	if kResultBusy[g] {
		return kfact{}, false
	}
	kResultBusy[g] = true
	defer delete(kResultBusy, g)
	if kResultMemo[g] == nil {
		kResultMemo[g] = map[int]*kfact{}
	}
	ge := &kengine{p: p, f: g, preds: preds}
	ge.run()
	var out *kfact
	for _, ret := range returnsOf(g) {
		st := ge.out[ret.Block()]
		if st == nil {
			st = ge.in[ret.Block()]
		}
		if st == nil || idx >= len(ret.Results) {
			continue // unreachable return
		}
		rv := res(ret, idx)
		if k, isK := rv.(*ssa.Const); isK && k.Value == nil {
			// the zero reflect.Value
			z := kfact{kinds: ks(kInvalid), ci: ciIfValid}
			if out == nil {
				out = &z
			} else {
				out.kinds |= z.kinds
			}
			continue
		}
		f := ge.get(st, rv)
		if out == nil {
			c := f
			out = &c
			continue
		}
		out.kinds |= f.kinds
		if f.ci < out.ci {
			out.ci = f.ci
		}
		out.addr = out.addr && f.addr
	}
	kResultMemo[g][idx] = out
	if out == nil {
		return kfact{}, false
	}
	return *out, true
}
