package main

// C10 — inheritance: R-C10-VALID, R-C10-FRESH, R-C10-ROOT, R-C10-LAST.

import (
	"go/token"
	"go/types"

	"golang.org/x/tools/go/ssa"
)

func init() { register("C10", checkC10) }

func checkC10(p *Prog, r *Report) {
	a := ResolveAnchors(p)
	if !anchorCheck(a, r) {
		return
	}
	ruleC10Valid(p, a, r)
	ruleC10Fresh(p, a, r)
	ruleC10Root(p, a, r)
	ruleC10Last(p, a, r)
	ruleC10OwnList(p, a, r)
}

func ruleC10Valid(p *Prog, a *Anchors, r *Report) {
	r.Begin("R-C10-VALID", "extends links parent and child only at root level and only once; a block name is registered only if not yet defined; the other edges are compile errors", 3)
	ext := a.TagParsers["extends"]
	blk := a.TagParsers["block"]
	if ext == nil || blk == nil {
		r.Unk("anchor", "-", "anchor unresolved: parsers registered as \"extends\"/\"block\"")
		return
	}
	n := 0
	for _, b := range ext.Blocks {
		for _, in := range b.Instrs {
			st, ok := in.(*ssa.Store)
			if !ok || !(isFieldAddrOf(st.Addr, "Template", "parent") || isFieldAddrOf(st.Addr, "Template", "child")) {
				continue
			}
			n++
			fld := fieldName(st.Addr.(*ssa.FieldAddr).X.Type(), st.Addr.(*ssa.FieldAddr).Field)
			key := p.FuncName(ext) + ":link " + fld
			level := Guarded(in, func(c ssa.Value, pol bool) bool {
				bo, ok := c.(*ssa.BinOp)
				if !ok || !loadsField(bo.X, "Template", "level") {
					return false
				}
				k, isC := constInt(bo.Y)
				if !isC {
					return false
				}
				// level > 1 false edge (or level <= 1 true edge)
				return (bo.Op == token.GTR && !pol && k <= 1) || (bo.Op == token.LEQ && pol && k <= 1) || (bo.Op == token.GEQ && !pol && k <= 2) || (bo.Op == token.LSS && pol && k <= 2)
			})
			single := Guarded(in, func(c ssa.Value, pol bool) bool {
				x, eq, isNil := condIsNilTest(c)
				return isNil && loadsField(x, "Template", "parent") && eq == pol
			})
			if level {
				r.OK(key+":root-level", p.InstrPos(in), "link reached only when template.level <= 1")
			} else {
				r.Bad(key+":root-level", p.InstrPos(in), "parent/child are linked without the root-level test: a nested `extends` (inside a block or branch) is accepted")
			}
			if single {
				r.OK(key+":single-parent", p.InstrPos(in), "link reached only when template.parent == nil")
			} else {
				r.Bad(key+":single-parent", p.InstrPos(in), "parent/child are linked without the single-parent test: a second `extends` silently replaces the first")
			}
		}
	}
	// the level the root test reads is the one the tag dispatcher counts: it is raised before a tag's parser is called
	// (and lowered after it). A test of a field that nothing updates accepts `extends` at any depth.
	{
		counted := ""
		for _, f := range p.inPkgFuncsSorted(a.CompileReach()) {
			// the dispatcher: calls a tag parser through a function value
			var dyn ssa.Instruction
			for _, b := range f.Blocks {
				for _, in := range b.Instrs {
					if c, ok := in.(*ssa.Call); ok && !c.Common().IsInvoke() && c.Common().StaticCallee() == nil {
						if _, isB := c.Common().Value.(*ssa.Builtin); !isB && c.Common().Signature().Results().Len() == 2 && c.Common().Signature().Params().Len() == 3 {
							dyn = in
						}
					}
				}
			}
			if dyn == nil {
				continue
			}
			if MustPass(dyn, func(x ssa.Instruction) bool {
				st, ok := x.(*ssa.Store)
				if !ok || !isFieldAddrOf(st.Addr, "Template", "level") {
					return false
				}
				bo, ok := st.Val.(*ssa.BinOp)
				return ok && bo.Op == token.ADD && loadsField(bo.X, "Template", "level")
			}) {
				counted = p.FuncName(f)
			}
		}
		if counted != "" {
			r.OK(p.FuncName(ext)+":level-is-counted", p.Pos(ext.Pos()), "Template.level is raised by %s before a tag's parser is called", counted)
		} else {
			r.Bad(p.FuncName(ext)+":level-is-counted", p.Pos(ext.Pos()), "the root-level test reads Template.level, but no tag dispatcher raises that field before it calls a tag's parser: the test never fires and {%% extends %%} inside a block, a branch or a loop compiles")
		}
	}
	if n < 2 {
		r.Bad(p.FuncName(ext)+":links", p.Pos(ext.Pos()), "the extends parser must set both Template.parent (of the child) and Template.child (of the parent); found %d link stores", n)
	}
	// error edges
	for _, b := range ext.Blocks {
		iff, ok := b.Instrs[len(b.Instrs)-1].(*ssa.If)
		if !ok {
			continue
		}
		c, pol := normCond(iff.Cond, true)
		if bo, ok := c.(*ssa.BinOp); ok && loadsField(bo.X, "Template", "level") {
			idx := 0
			if (bo.Op == token.GTR || bo.Op == token.GEQ) != pol {
				idx = 1
			}
			if errorReturnsOnly(ext, b.Succs[idx]) {
				r.OK(p.FuncName(ext)+":nested-is-error", p.InstrPos(iff), "the nested edge returns a compile error")
			} else {
				r.Bad(p.FuncName(ext)+":nested-is-error", p.InstrPos(iff), "the nested-extends edge does not return an error")
			}
		}
		if x, eq, isNil := condIsNilTest(c); isNil && loadsField(x, "Template", "parent") {
			idx := 0
			if eq == pol { // parent == nil is the good edge
				idx = 1
			}
			if errorReturnsOnly(ext, b.Succs[idx]) {
				r.OK(p.FuncName(ext)+":second-is-error", p.InstrPos(iff), "the second-extends edge returns a compile error")
			} else {
				r.Bad(p.FuncName(ext)+":second-is-error", p.InstrPos(iff), "the second-extends edge does not return an error")
			}
		}
	}
	// block registration
	nb := 0
	for _, b := range blk.Blocks {
		for _, in := range b.Instrs {
			mu, ok := in.(*ssa.MapUpdate)
			if !ok || !loadsField(mu.Map, "Template", "blocks") {
				continue
			}
			nb++
			key := p.FuncName(blk) + ":register"
			var lk *ssa.Lookup
			g := Guarded(in, func(c ssa.Value, pol bool) bool {
				l := lookupCommaOk(c)
				if l == nil || pol || !loadsField(l.X, "Template", "blocks") || p.VN(l.Index) != p.VN(mu.Key) {
					return false
				}
				lk = l
				return true
			})
			if !g {
				r.Bad(key, p.InstrPos(in), "a block is stored into the template's block table without the already-defined test on the same name: a duplicate block silently replaces the first")
				continue
			}
			errOK := false
			for _, u := range refs(lk) {
				if ex, ok := u.(*ssa.Extract); ok && ex.Index == 1 {
					for _, uu := range refs(ex) {
						if iff, ok := uu.(*ssa.If); ok {
							c, pol := normCond(iff.Cond, true)
							_ = c
							idx := 0
							if !pol {
								idx = 1
							}
							if errorReturnsOnly(blk, iff.Block().Succs[idx]) {
								errOK = true
							}
						}
					}
				}
			}
			if errOK {
				r.OK(key, p.InstrPos(in), "stored only when the name is new; the duplicate edge returns a compile error")
			} else {
				r.Bad(key, p.InstrPos(in), "the duplicate-block edge does not return an error")
			}
		}
	}
	if nb == 0 {
		r.Bad(p.FuncName(blk)+":register", p.Pos(blk.Pos()), "the block parser never registers the block in Template.blocks")
	}
}

// R-C10-FRESH: compile-time code mutates only the template under construction or a freshly compiled parent.
func ruleC10Fresh(p *Prog, a *Anchors, r *Report) {
	r.Begin("R-C10-FRESH", "stores to Template fields (and its block/macro tables) outside the constructor target the template under construction (<Parser>.template) or a template freshly returned by From* in the same function", 4)
	es := map[*ssa.Function]bool{}
	for _, f := range a.CompileEntries {
		es[f] = true
	}
	reach := a.CompileReach()
	for _, je := range p.JudgeEffects(reach, es) {
		e := je.E
		if e.Target.Type != "Template" {
			continue
		}
		key := p.effectKey(e)
		pos := p.InstrPos(e.Instr)
		nf, where := je.nonFresh()
		if len(nf) == 0 {
			r.OK(key, pos, "%s: freshly compiled template, private to this compilation (%s)", e.Desc, rootsString(je.Contexts[0].Roots))
			continue
		}
		ok := true
		for _, rt := range nf {
			if !underConstruction(rt) {
				ok = false
			}
		}
		if ok {
			r.OK(key, pos, "%s: the template under construction (%s)", e.Desc, rootsString(nf))
		} else {
			r.Bad(key, pos, "%s: a template that is neither under construction nor freshly compiled is modified at compile time (origin %s, judged in %s): a shared/cached parent would see its children, so rendering it directly changes and concurrent users race", e.Desc, rootsString(nf), where)
		}
	}
	// extends must obtain the parent through FromFile (fresh), not FromCache
	if ext := a.TagParsers["extends"]; ext != nil {
		fc := p.Method("TemplateSet", "FromCache")
		if fc != nil && len(callsTo(ext, fc)) > 0 {
			r.Bad(p.FuncName(ext)+":parent-from-cache", p.Pos(ext.Pos()), "the parent template is taken from the cache: the shared object gets a child pointer")
		} else {
			r.OK(p.FuncName(ext)+":parent-fresh", p.Pos(ext.Pos()), "the parent is compiled afresh for this child")
		}
	}
}

// R-C10-ROOT: execution starts at the root ancestor.
func ruleC10Root(p *Prog, a *Anchors, r *Report) {
	r.Begin("R-C10-ROOT", "execution runs the document of the template reached by following parent until nil", 2)
	// the function called by the executor that returns (*Template, *ExecutionContext, error)
	var builder *ssa.Function
	var bcall *ssa.Call
	for _, b := range a.ExecCore.Blocks {
		for _, in := range b.Instrs {
			c, ok := in.(*ssa.Call)
			if !ok || c.Common().StaticCallee() == nil {
				continue
			}
			res := c.Common().StaticCallee().Signature.Results()
			if res.Len() == 3 && types.Identical(res.At(0).Type(), types.NewPointer(a.Template)) {
				builder, bcall = c.Common().StaticCallee(), c
			}
		}
	}
	if builder == nil {
		r.Unk("builder", p.Pos(a.ExecCore.Pos()), "(*Template).execute does not call a context builder returning (*Template, *ExecutionContext, error)")
		return
	}
	// executor: Execute on load(root) of extract(bcall, 0)
	okExec := false
	for _, b := range a.ExecCore.Blocks {
		for _, in := range b.Instrs {
			ci, ok := in.(ssa.CallInstruction)
			if !ok || len(ci.Common().Args) == 0 {
				continue
			}
			callee := ci.Common().StaticCallee()
			if callee == nil || callee.Name() != "Execute" {
				continue
			}
			base, n, fld := fieldLoadBase(ci.Common().Args[0])
			if n != nil && n.Obj().Name() == "Template" && fld == "root" {
				if ex, ok := base.(*ssa.Extract); ok && ex.Tuple == ssa.Value(bcall) && ex.Index == 0 {
					okExec = true
					r.OK(p.FuncName(a.ExecCore)+":runs-root-of-result", p.InstrPos(in), "executes <builder result #0>.root")
				} else {
					r.Bad(p.FuncName(a.ExecCore)+":runs-root-of-result", p.InstrPos(in), "executes the document of %s, not of the template selected by %s", p.VN(base), p.FuncName(builder))
					okExec = true
				}
			}
		}
	}
	if !okExec {
		r.Bad(p.FuncName(a.ExecCore)+":runs-root-of-result", p.Pos(a.ExecCore.Pos()), "no execution of <template>.root found")
	}
	// … and nothing else: no other node of any template in the chain is executed by the executor or its helpers
	// (what a child writes outside blocks must have no effect at all)
	helpers := []*ssa.Function{a.ExecCore}
	seenH := map[*ssa.Function]bool{a.ExecCore: true, builder: true}
	for i := 0; i < len(helpers) && i < 32; i++ {
		for _, b := range helpers[i].Blocks {
			for _, in := range b.Instrs {
				ci, ok := in.(ssa.CallInstruction)
				if !ok {
					continue
				}
				cal := ci.Common().StaticCallee()
				if cal == nil || !p.InPkg(cal) || cal.Blocks == nil || seenH[cal] || cal.Name() == "Execute" {
					continue
				}
				seenH[cal] = true
				helpers = append(helpers, cal)
			}
		}
	}
	others := 0
	for _, h := range helpers {
		for _, g := range withClosures(h) {
			for _, b := range g.Blocks {
				for _, in := range b.Instrs {
					ci, ok := in.(ssa.CallInstruction)
					if !ok {
						continue
					}
					cc := ci.Common()
					isExec := (cc.IsInvoke() && cc.Method.Name() == "Execute") || (cc.StaticCallee() != nil && cc.StaticCallee().Name() == "Execute" && p.InPkg(cc.StaticCallee()))
					if !isExec {
						continue
					}
					hasCtx := false
					for _, arg := range cc.Args {
						if types.Identical(arg.Type(), types.NewPointer(a.ExecCtx)) {
							hasCtx = true
						}
					}
					if !hasCtx {
						continue
					}
					if !cc.IsInvoke() && len(cc.Args) > 0 {
						if base, n, fld := fieldLoadBase(cc.Args[0]); n != nil && n.Obj().Name() == "Template" && fld == "root" {
							if ex, ok := base.(*ssa.Extract); ok && ex.Tuple == ssa.Value(bcall) && ex.Index == 0 {
								continue
							}
						}
					}
					others++
					r.Bad(p.FuncName(g)+":executes-other-node", p.InstrPos(in), "besides the base document the executor also executes %s: nodes a derived template has outside its blocks (set, macro, import …) take effect in the rendering", p.VN(cc.Value))
				}
			}
		}
	}
	if others == 0 {
		r.OK(p.FuncName(a.ExecCore)+":only-root", p.Pos(a.ExecCore.Pos()), "the executor and its %d helper(s) execute no node other than the base document", len(helpers)-1)
	}
	// builder: result #0 on success paths = phi over {receiver, load(parent) of itself}, exit condition parent == nil
	for _, ret := range returnsOf(builder) {
		if len(ret.Results) < 3 || !isNilConst(res(ret, 2)) && !mayBeNilValue(res(ret, 2), 0) {
			continue
		}
		v := res(ret, 0)
		key := p.FuncName(builder) + ":selects-root"
		// in place, or as the result of a helper whose body is the walk starting at the parameter that receives the receiver
		sel := c10SelectsRoot(p, v, ret, builder.Params[0], 0)
		if !sel.known {
			r.Unk(key, p.InstrPos(ret), "cannot recognise how the template to execute is selected (%s)", p.VN(v))
			continue
		}
		if sel.self {
			r.Bad(key, p.InstrPos(ret), "the executed template is the receiver itself: a child template would render its own document instead of its base's")
			continue
		}
		if sel.good() {
			if sel.via != nil {
				r.OK(key, p.InstrPos(ret), "the result of %s on the receiver, which starts at its receiver, follows .parent, stops when parent == nil", p.FuncName(sel.via))
			} else {
				r.OK(key, p.InstrPos(ret), "starts at the receiver, follows .parent, stops when parent == nil")
			}
		} else {
			r.Bad(key, p.InstrPos(ret), "the template to execute is not the root ancestor (starts at receiver: %v, follows parent: %v, stops at parent == nil: %v)", sel.hasRecv, sel.hasParent, sel.exit)
		}
	}
}

// R-C10-LAST: most-derived definition wins; Super gets the remaining ones.
func ruleC10Last(p *Prog, a *Anchors, r *Report) {
	r.Begin("R-C10-LAST", "the block node walks root→leaf through .child collecting definitions, executes the LAST one and hands the rest (in order) to Super, which again takes the last", 3)
	exec := p.Method("tagBlockNode", "Execute")
	collect := p.Method("tagBlockNode", "getBlockWrappers")
	super := p.Method("tagBlockInformation", "Super")
	if exec == nil || super == nil {
		r.Unk("anchor", "-", "anchor unresolved: (*tagBlockNode).Execute / (tagBlockInformation).Super")
		return
	}
	// collection: follows child, appends lookups of blocks[name] in walk order
	if collect != nil {
		followsChild, appends := false, false
		for _, b := range collect.Blocks {
			for _, in := range b.Instrs {
				if u, ok := in.(*ssa.UnOp); ok && u.Op == token.MUL && isFieldAddrOf(u.X, "Template", "child") {
					followsChild = true
				}
				if u, ok := in.(*ssa.UnOp); ok && u.Op == token.MUL && isFieldAddrOf(u.X, "Template", "parent") {
					followsChild = false
					r.Bad(p.FuncName(collect)+":direction", p.InstrPos(in), "definitions are collected by following .parent (leaf→root): the least-derived definition would come last")
				}
				if ci, ok := in.(ssa.CallInstruction); ok {
					if bi, ok := ci.Common().Value.(*ssa.Builtin); ok && bi.Name() == "append" {
						appends = true
					}
				}
			}
		}
		if followsChild && appends {
			r.OK(p.FuncName(collect)+":direction", p.Pos(collect.Pos()), "walks .child from the executing (root) template and appends each definition")
		} else if !followsChild {
			r.Bad(p.FuncName(collect)+":direction", p.Pos(collect.Pos()), "the definitions are not collected by walking .child from the root")
		}
	}
	// in Execute: executed wrapper = list[len(list)-1]; Super gets list[0:len-1]
	checkLast := func(f *ssa.Function, what string) {
		checkRest := func(b *ssa.BasicBlock) {
			for _, in := range b.Instrs {
				sl, ok := in.(*ssa.Slice)
				if !ok {
					continue
				}
				if n, isNamed := sliceElemNamed(sl.X.Type()); !isNamed || n != "NodeWrapper" {
					continue
				}
				key := p.FuncName(f) + ":rest-for-super"
				lowOK := sl.Low == nil
				if sl.Low != nil {
					if k, isC := constInt(sl.Low); isC && k == 0 {
						lowOK = true
					}
				}
				if lowOK && sl.High != nil && isLenMinusOne(p, sl.High, sl.X) {
					r.OK(key, p.InstrPos(in), "Super receives definitions [0:len-1] (everything less derived, in order)")
				} else {
					r.Bad(key, p.InstrPos(in), "Super receives %s[%s:%s], not the less-derived definitions [0:len-1]", p.VN(sl.X), vnOrEmpty(p, sl.Low), vnOrEmpty(p, sl.High))
				}
			}
		}
		for _, b := range f.Blocks {
			for _, in := range b.Instrs {
				ci, ok := in.(ssa.CallInstruction)
				if !ok || ci.Common().StaticCallee() == nil || ci.Common().StaticCallee().Name() != "Execute" || len(ci.Common().Args) == 0 {
					continue
				}
				if n := structOf(ci.Common().Args[0].Type()); n == nil || n.Obj().Name() != "NodeWrapper" {
					continue
				}
				w := ci.Common().Args[0]
				key := p.FuncName(f) + ":executes-last"
				ia := c10Elem(w)
				if ia == nil {
					// the wrapper is the result of a helper that returns element len-1 of the list it is given
					switch verdict, g, detail := c10LastViaHelper(p, w, 0); verdict {
					case c10LastOK:
						r.OK(key, p.InstrPos(in), "%s executes element len-1 of the definitions (taken by %s from the list it is given)", what, p.FuncName(g))
						continue
					case c10LastBad:
						r.Bad(key, p.InstrPos(in), "%s executes element %s of the collected definitions (taken by %s), not the last (most-derived) one", what, detail, p.FuncName(g))
						continue
					}
					r.Unk(key, p.InstrPos(in), "the executed wrapper is not an element of the collected list (%s)", p.VN(w))
					continue
				}
				if isLenMinusOne(p, ia.Index, ia.X) {
					r.OK(key, p.InstrPos(in), "%s executes element len-1 of the definitions", what)
				} else {
					r.Bad(key, p.InstrPos(in), "%s executes element %s of the collected definitions, not the last (most-derived) one", what, p.VN(ia.Index))
				}
			}
			checkRest(b)
		}
		// … also where the list is taken apart by a helper it is handed to
		for _, g := range c10ListHelpers(p, f) {
			for _, b := range g.Blocks {
				checkRest(b)
			}
		}
	}
	checkLast(exec, "the block node")
	checkLast(super, "block.Super")
	// the walk starts at the ROOT of the chain, which is what an execution context's template is: nothing reassigns
	// ExecutionContext.template after the context was built (a block body that runs "as" the template it is written in
	// makes a nested block start its walk in the middle of the chain and lose the definitions above it for Super)
	nTpl := 0
	p.EachInstr(func(f *ssa.Function, in ssa.Instruction) {
		st, ok := in.(*ssa.Store)
		if !ok || !p.InPkg(f) || !isFieldAddrOf(st.Addr, "ExecutionContext", "template") {
			return
		}
		nTpl++
		key := p.FuncName(f) + ":ExecutionContext.template="
		base := stripLoad(st.Addr.(*ssa.FieldAddr).X)
		_, fresh := base.(*ssa.Alloc)
		if fresh {
			r.OK(key, p.InstrPos(in), "set while the context is being built")
			return
		}
		// a child context that was just made by the package's constructor and is still private to this function
		if c, isCall := base.(*ssa.Call); isCall && c.Common().StaticCallee() != nil && p.InPkg(c.Common().StaticCallee()) && allFresh(p.Roots(base)) {
			// allowed only if it re-states the parent's template (same chain root)
			if ld, isLd := stripLoad(st.Val).(*ssa.UnOp); isLd && loadsField(ld, "ExecutionContext", "template") {
				r.OK(key, p.InstrPos(in), "a fresh child context is given its parent's template")
				return
			}
		}
		r.Bad(key, p.InstrPos(in), "the template of an execution context is reassigned (to %s) while executing: block tags executed afterwards start their walk over the inheritance chain there instead of at the root, so the definitions above it are missing for block.Super", p.VN(st.Val))
	})
	if nTpl == 0 {
		r.Unk("ExecutionContext.template", "-", "anchor unresolved: no store to ExecutionContext.template")
	}
	// the Super information is (re)bound for every definition that is executed: a definition run with the `block`
	// name left over from another block would render that block's parent
	for _, f := range []*ssa.Function{exec, super} {
		for _, b := range f.Blocks {
			for _, in := range b.Instrs {
				ci, ok := in.(ssa.CallInstruction)
				if !ok || ci.Common().StaticCallee() == nil || ci.Common().StaticCallee().Name() != "Execute" || len(ci.Common().Args) < 2 {
					continue
				}
				if n := structOf(ci.Common().Args[0].Type()); n == nil || n.Obj().Name() != "NodeWrapper" {
					continue
				}
				ctxArg := ci.Common().Args[1]
				key := p.FuncName(f) + ":binds-block-info"
				bound := MustPass(in, func(x ssa.Instruction) bool {
					mu, ok := x.(*ssa.MapUpdate)
					if !ok {
						return false
					}
					k, isC := constString(stripConv(mu.Key))
					if !isC || k != "block" || !loadsField(mu.Map, "ExecutionContext", "Private") {
						return false
					}
					base, _, _ := fieldLoadBase(mu.Map)
					if base != ctxArg && p.VN(base) != p.VN(ctxArg) {
						return false
					}
					// the bound value carries the remaining definitions
					n := structOf(stripConv(mu.Value).Type())
					return n != nil && n.Obj().Name() == "tagBlockInformation"
				})
				// … and the binding does not outlive the definition in the context it was made in: afterwards `block` is
				// what it was before (or the definition ran in a context of its own)
				if bound {
					keyR := p.FuncName(f) + ":restores-block-info"
					if allFresh(p.Roots(ctxArg)) {
						r.OK(keyR, p.InstrPos(in), "the definition runs in a child context of its own")
					} else {
						restored := true
						for _, ret := range returnsOf(f) {
							if !ReachesInstr(in.Block(), ret) {
								continue
							}
							if !MustPassFrom(in.Block(), instrIndex(in)+1, ret, func(x ssa.Instruction) bool {
								switch y := x.(type) {
								case *ssa.MapUpdate:
									k, isC := constString(stripConv(y.Key))
									return isC && k == "block" && loadsField(y.Map, "ExecutionContext", "Private")
								case ssa.CallInstruction:
									if b, isB := y.Common().Value.(*ssa.Builtin); isB && b.Name() == "delete" && len(y.Common().Args) == 2 {
										k, isC := constString(stripConv(y.Common().Args[1]))
										return isC && k == "block"
									}
								}
								return false
							}) {
								restored = false
							}
						}
						if restored {
							r.OK(keyR, p.InstrPos(in), "after the definition has run, `block` is rebound or removed on every path")
						} else {
							r.Bad(keyR, p.InstrPos(in), "the definition runs in the enclosing context and leaves its own `block` behind: in {%% block outer %%}{%% block inner %%}…{%% endblock %%}{{ block.Super }}{%% endblock %%} Super refers to the inner block")
						}
					}
				}
				if bound {
					r.OK(key, p.InstrPos(in), "on every path the definition runs with `block` bound to its own remaining definitions")
				} else {
					r.Bad(key, p.InstrPos(in), "a definition can be executed without `block` having been bound for it in the context it runs in: block.Super would refer to whatever block ran before (and not be empty at the base)")
				}
			}
		}
	}
	// Super renders the parent definition on every call: its successful results are AsSafeValue of a buffer
	// rendered in this very call (or of the empty constant at the base)
	ruleC10SuperScope(p, r, super)
	asSafe := p.Func("AsSafeValue")
	for _, ret := range returnsOf(super) {
		if len(ret.Results) < 2 {
			continue
		}
		key := p.FuncName(super) + ":result"
		v := res(ret, 0)
		c, ok := v.(*ssa.Call)
		if !ok || c.Common().StaticCallee() != asSafe {
			r.Bad(key, p.InstrPos(ret), "block.Super returns %s, not the (safe) rendering of the parent definition", p.VN(v))
			continue
		}
		arg := stripConv(c.Common().Args[0])
		if s, isC := constString(arg); isC && s == "" {
			r.OK(key, p.InstrPos(ret), "empty at the base / on error")
		} else if isRenderedBuffer(p, arg) {
			r.OK(key, p.InstrPos(ret), "the parent definition rendered in this call")
		} else {
			r.Bad(key, p.InstrPos(ret), "block.Super returns %s instead of rendering the parent definition now: a remembered rendering is wrong when the block runs again with other data (e.g. in a loop)", p.VN(arg))
		}
	}
}

// the scope Super renders in: the parent definition is rendered where {{ block.Super }} stands — in a child of the
// context of the calling expression (the resolver hands it to a method whose first parameter is *ExecutionContext),
// not in a context remembered when the block was entered (which lacks the variables of a for/with around the call)
func ruleC10SuperScope(p *Prog, r *Report, super *ssa.Function) {
	key := p.FuncName(super) + ":scope"
	var ctxParam *ssa.Parameter
	for _, pa := range super.Params {
		if pt, ok := pa.Type().(*types.Pointer); ok {
			if n, isN := pt.Elem().(*types.Named); isN && n.Obj().Name() == "ExecutionContext" {
				ctxParam = pa
			}
		}
	}
	n := 0
	for _, b := range super.Blocks {
		for _, in := range b.Instrs {
			c, ok := in.(*ssa.Call)
			if !ok || c.Common().StaticCallee() == nil || c.Common().StaticCallee().Name() != "Execute" || len(c.Common().Args) < 2 {
				continue
			}
			if recv := c.Common().StaticCallee().Signature.Recv(); recv == nil || structOf(recv.Type()) == nil || structOf(recv.Type()).Obj().Name() != "NodeWrapper" {
				continue
			}
			n++
			ctxArg := stripLoad(c.Common().Args[1])
			okScope := false
			if mk, isCall := ctxArg.(*ssa.Call); isCall && mk.Common().StaticCallee() != nil && mk.Common().StaticCallee().Name() == "NewChildExecutionContext" && ctxParam != nil {
				okScope = stripLoad(mk.Common().Args[0]) == ssa.Value(ctxParam)
			}
			if ctxParam != nil && ctxArg == ssa.Value(ctxParam) {
				okScope = true
			}
			if okScope {
				r.OK(key, p.InstrPos(in), "the parent definition is rendered in (a child of) the calling expression's context")
			} else {
				r.Bad(key, p.InstrPos(in), "block.Super renders the parent definition in %s, not in the context of the expression that calls it: inside {%% for i in l %%}{{ block.Super }}{%% endfor %%} the parent definition does not see i", p.VN(c.Common().Args[1]))
			}
		}
	}
	if n == 0 {
		r.Unk(key, p.Pos(super.Pos()), "block.Super executes no NodeWrapper")
	}
}

func vnOrEmpty(p *Prog, v ssa.Value) string {
	if v == nil {
		return ""
	}
	return p.VN(v)
}

func sliceElemNamed(T types.Type) (string, bool) {
	sl, ok := T.Underlying().(*types.Slice)
	if !ok {
		return "", false
	}
	if n := structOf(sl.Elem()); n != nil {
		return n.Obj().Name(), true
	}
	return "", false
}

// isLenMinusOne: idx == len(coll) - 1 (coll compared by VN).
func isLenMinusOne(p *Prog, idx ssa.Value, coll ssa.Value) bool {
	b, ok := idx.(*ssa.BinOp)
	if !ok || b.Op != token.SUB {
		return false
	}
	if k, isC := constInt(b.Y); !isC || k != 1 {
		return false
	}
	lo := lenOperand(b.X)
	return lo != nil && p.VN(lo) == p.VN(coll)
}
