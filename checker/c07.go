package main

// C07 — expression semantics: what is in the shape of the code.
// R-C07-GRAMMAR, OPS, CASE, SC, DIV, SYM, FMT, LEX.

import (
	"fmt"
	"go/token"
	"go/types"
	"sort"
	"strconv"
	"strings"

	"golang.org/x/tools/go/ssa"
)

func init() { register("C07", checkC07) }

func checkC07(p *Prog, r *Report) {
	a := ResolveAnchors(p)
	if !anchorCheck(a, r) {
		return
	}
	g := ruleC07Grammar(p, a, r)
	ruleC07OpsCase(p, a, r, g)
	ruleC07ShortCircuit(p, a, r)
	ruleC07Bool(p, a, r)
	ruleC07EqKinds(p, a, r)
	ruleC07Unary(p, a, r)
	ruleC07Uintptr(p, a, r)
	ruleDivisionGuards(p, a, r, "R-C07-DIV", true)
	ruleC07Sym(p, a, r)
	ruleC07Fmt(p, a, r)
	ruleC07Lex(p, a, r)
	ruleEvalNodesBuiltOnce(p, a, r, "R-C07-BUILT")
}

type opTok struct {
	Typ string // "symbol" | "keyword"
	Val string
}

type gramLevel struct {
	fn     *ssa.Function
	ops    map[opTok]bool
	callsF map[string][]ssa.CallInstruction // callee name -> sites
	// a level may delegate to a helper that takes the operand parser and the operator spelling as parameters
	// (tol_T1.go): the helper's body is read as part of the level, with its parameters instantiated by the
	// arguments of the level's call site
	callee map[string]*ssa.Function     // callee name -> function (also for calls through an instantiated parameter)
	bodies []*levelBody                 // the level's own function and the helpers it is read through
	bind   map[*ssa.Parameter]ssa.Value // helper parameter -> argument at the level's call site
	ambig  map[*ssa.Parameter]bool      // helper parameter instantiated differently by two sites: not resolved
}

func tokenTypeName(p *Prog, v ssa.Value) string {
	k, ok := constInt(v)
	if !ok {
		return "?"
	}
	for _, name := range []string{"TokenSymbol", "TokenKeyword", "TokenIdentifier", "TokenNumber", "TokenString", "TokenHTML"} {
		if c, isC := p.Pkg.Types.Scope().Lookup(name).(*types.Const); isC {
			if c.Val().ExactString() == fmt.Sprint(k) {
				return strings.ToLower(strings.TrimPrefix(name, "Token"))
			}
		}
	}
	return "?"
}

func extractLevel(p *Prog, f *ssa.Function) *gramLevel {
	gl := &gramLevel{fn: f, ops: map[opTok]bool{}, callsF: map[string][]ssa.CallInstruction{}, callee: map[string]*ssa.Function{},
		bind: map[*ssa.Parameter]ssa.Value{}, ambig: map[*ssa.Parameter]bool{}}
	gl.scan(p, &levelBody{fn: f})
	return gl
}

func inLoop(in ssa.Instruction) bool {
	b := in.Block()
	// b is in a loop iff b can reach itself
	for _, s := range b.Succs {
		if ReachableBlocks(s)[b] {
			return true
		}
	}
	return false
}

func opSet(typ string, vals ...string) map[opTok]bool {
	m := map[opTok]bool{}
	for _, v := range vals {
		m[opTok{typ, v}] = true
	}
	return m
}

func mergeOps(ms ...map[opTok]bool) map[opTok]bool {
	out := map[opTok]bool{}
	for _, m := range ms {
		for k := range m {
			out[k] = true
		}
	}
	return out
}

func opsString(m map[opTok]bool) string {
	var s []string
	for k := range m {
		s = append(s, k.Typ+":"+k.Val)
	}
	sort.Strings(s)
	return strings.Join(s, " ")
}

func sameOps(a, b map[opTok]bool) bool {
	if len(a) != len(b) {
		return false
	}
	for k := range a {
		if !b[k] {
			return false
		}
	}
	return true
}

// ruleC07Grammar checks the recursive-descent levels against the embedded specification.
func ruleC07Grammar(p *Prog, a *Anchors, r *Report) map[string]*gramLevel {
	r.Begin("R-C07-GRAMMAR", "precedence levels Expression > relational > simple > term > power > factor: operator sets per level, which level parses each operand, left (loop) vs right (self-call) association", 6)
	type spec struct {
		name  string
		ops   map[opTok]bool
		lhs   string
		rhs   []string // callee(s) for the right operand
		assoc string   // "left" (rhs call inside a loop), "right" (self call), "none"
	}
	specs := []spec{
		// (the logical level(s) are inserted below: one level for and/or, or `or` over `and`)
		{"parseRelationalExpression", mergeOps(opSet("symbol", "==", "<=", ">=", "!=", "<>", ">", "<"), opSet("keyword", "in")), "parseSimpleExpression", []string{"parseRelationalExpression", "parseSimpleExpression"}, "right"},
		{"parseSimpleExpression", mergeOps(opSet("symbol", "+", "-", "!"), opSet("keyword", "not")), "parseTerm", []string{"parseTerm"}, "left"},
		{"parseTerm", opSet("symbol", "*", "/", "%"), "parsePower", []string{"parsePower"}, "left"},
		{"parsePower", opSet("symbol", "^"), "parseFactor", []string{"parsePower"}, "right"},
		{"parseFactor", opSet("symbol", "(", ")"), "", []string{"ParseExpression", "parseVariableOrLiteralWithFilter"}, "none"},
	}
	// The logical operators: "then and/or", left-associative. Two shapes satisfy that `a and b or c` reads
	// `(a and b) or c`: one level matching all four tokens, or an `or` level whose operands are parsed by an `and`
	// level. What does not: a right operand parsed by a function that itself accepts `or` (self-call).
	if top := p.Method("Parser", "ParseExpression"); top != nil {
		gl := extractLevel(p, top)
		orOps := mergeOps(opSet("symbol", "||"), opSet("keyword", "or"))
		andOps := mergeOps(opSet("symbol", "&&"), opSet("keyword", "and"))
		mid := ""
		if sameOps(gl.ops, orOps) {
			for c, sites := range gl.callsF {
				f := gl.callee[c]
				if c != "ParseExpression" && f != nil && len(sites) > 0 && f.Signature.Recv() != nil && f.Signature.Results().Len() == 2 && strings.HasPrefix(strings.ToLower(c), "parse") {
					if mid != "" && mid != c {
						mid = "?"
					} else if mid == "" {
						mid = c
					}
				}
			}
		}
		if mid != "" && mid != "?" && mid != "parseRelationalExpression" {
			specs = append([]spec{
				{"ParseExpression", orOps, mid, []string{mid}, "left"},
				{mid, andOps, "parseRelationalExpression", []string{"parseRelationalExpression"}, "left"},
			}, specs...)
		} else {
			specs = append([]spec{{"ParseExpression", mergeOps(orOps, andOps), "parseRelationalExpression", []string{"parseRelationalExpression"}, "left"}}, specs...)
		}
	}
	levels := map[string]*gramLevel{}
	parseFns := map[string]bool{}
	for _, s := range specs {
		parseFns[s.name] = true
	}
	parseFns["parseVariableOrLiteralWithFilter"] = true
	for _, s := range specs {
		f := p.Method("Parser", s.name)
		if f == nil {
			r.Unk(s.name, "-", "anchor unresolved: (*Parser).%s", s.name)
			continue
		}
		gl := extractLevel(p, f)
		levels[s.name] = gl
		pos := p.Pos(f.Pos())
		if sameOps(gl.ops, s.ops) {
			r.OK(s.name+":operators", pos, "matches exactly {%s}", opsString(gl.ops))
		} else {
			r.Bad(s.name+":operators", pos, "level %s matches {%s}, specification {%s}: operators moved to another precedence level", s.name, opsString(gl.ops), opsString(s.ops))
		}
		// callees among the parse functions
		var called []string
		for c := range gl.callsF {
			if parseFns[c] {
				called = append(called, c)
			}
		}
		sort.Strings(called)
		want := map[string]bool{}
		if s.lhs != "" {
			want[s.lhs] = true
		}
		for _, x := range s.rhs {
			want[x] = true
		}
		okCalls := len(called) == len(want)
		for _, c := range called {
			if !want[c] {
				okCalls = false
			}
		}
		if okCalls {
			r.OK(s.name+":operands", pos, "operands parsed by %v", called)
		} else {
			var w []string
			for x := range want {
				w = append(w, x)
			}
			sort.Strings(w)
			r.Bad(s.name+":operands", pos, "level %s parses its operands with %v, specification %v", s.name, called, w)
		}
		switch s.assoc {
		case "left":
			sites := gl.callsF[s.rhs[0]]
			nLoop := 0
			for _, c := range sites {
				if gl.inLoop(c.(ssa.Instruction)) {
					nLoop++
				}
			}
			selfCall := len(gl.callsF[s.name]) > 0
			if len(sites) == 2 && nLoop == 1 && !selfCall {
				r.OK(s.name+":assoc", pos, "left-associative: first operand once, further operands in a loop")
			} else {
				r.Bad(s.name+":assoc", pos, "level %s is not parsed left-associatively (operand calls %d, in loop %d, self-recursive %v): a-b-c would nest to the right", s.name, len(sites), nLoop, selfCall)
			}
			// the loop builds the new node with the previous node as FIRST operand
			checkLeftNesting(p, r, gl, s.name)
		case "right":
			if len(gl.callsF[s.name]) >= 1 && !gl.inLoop(gl.callsF[s.name][0].(ssa.Instruction)) {
				r.OK(s.name+":assoc", pos, "right operand parsed by a self-call (right-associative)")
			} else {
				r.Bad(s.name+":assoc", pos, "level %s does not parse its right operand by a self-call: ^ (and chains) would associate to the left", s.name)
			}
		}
	}
	// unary sign / not are consumed before the first term is parsed (so ^ binds tighter than unary minus; what the
	// sign is applied to is R-C07-UNARY's)
	if gl := levels["parseSimpleExpression"]; gl != nil {
		terms := gl.callsF["parseTerm"]
		var first ssa.Instruction
		for _, c := range terms {
			if !gl.inLoop(c.(ssa.Instruction)) {
				first = c.(ssa.Instruction)
			}
		}
		ok := first != nil
		for _, name := range []string{"MatchOne", "Match"} {
			for _, c := range gl.callsF[name] {
				if first == nil || ReachesFromInstr(first, c.(ssa.Instruction)) {
					ok = false
				}
			}
		}
		if ok {
			r.OK("parseSimpleExpression:unary-first", p.Pos(gl.fn.Pos()), "sign and negation are consumed before the first term is parsed (^ binds tighter than either)")
		} else {
			r.Bad("parseSimpleExpression:unary-first", p.Pos(gl.fn.Pos()), "unary sign/negation are not consumed before parsing the first term")
		}
	}
	return levels
}

// checkLeftNesting: inside the loop of a left-associative level the new node's FIRST operand field is the
// previous node.
func checkLeftNesting(p *Prog, r *Report, gl *gramLevel, name string) {
	// find stores to a first-operand field (term1/factor1) whose value is a MakeInterface of the loop-carried node;
	// the loop may be the one of a helper the level delegates to
	f := gl.fn
	found, ok := false, true
	for _, in := range gl.instrs() {
		{
			st, isSt := in.(*ssa.Store)
			if !isSt || !gl.inLoop(in) {
				continue
			}
			fa, isFA := st.Addr.(*ssa.FieldAddr)
			if !isFA {
				continue
			}
			fld := fieldName(fa.X.Type(), fa.Field)
			// the loop-carried node: a phi, possibly converted to the evaluator interface
			prev := st.Val
			if mi, isMI := prev.(*ssa.MakeInterface); isMI {
				prev = mi.X
			}
			if pa, isPa := prev.(*ssa.Parameter); isPa {
				// (the loop body as a helper that is given the node built so far)
				if bound, has := gl.bind[pa]; has && !gl.ambig[pa] {
					prev = bound
				}
			}
			if _, isPhi := prev.(*ssa.Phi); !isPhi {
				continue
			}
			found = true
			if !isFirstOperandField(fa.X.Type(), fld) {
				ok = false
				r.Bad(name+":nesting", p.InstrPos(in), "the previous sub-expression becomes operand %s of the new node (must be the first operand for left association)", fld)
			}
		}
	}
	if found && ok {
		r.OK(name+":nesting", p.Pos(f.Pos()), "in the loop the previous node becomes the first operand of the new node")
	} else if !found {
		r.Unk(name+":nesting", p.Pos(f.Pos()), "cannot recognise how the loop nests the previous node")
	}
}

// allocatesNode: f allocates a struct of the named node type.
func allocatesNode(f *ssa.Function, typ string) bool {
	for _, b := range f.Blocks {
		for _, in := range b.Instrs {
			if al, ok := in.(*ssa.Alloc); ok {
				if n := structOf(al.Type()); n != nil && n.Obj().Name() == typ {
					return true
				}
			}
		}
	}
	return false
}

// ---- evaluator ----------------------------------------------------------

type evalNode struct {
	typ     string
	parseFn string
	first   string // field name of first operand
	second  string
}

var evalNodes = []evalNode{
	{"Expression", "ParseExpression", "", ""},
	{"relationalExpression", "parseRelationalExpression", "", ""},
	{"simpleExpression", "parseSimpleExpression", "", ""},
	{"term", "parseTerm", "", ""},
}

// operandFields fills first/second with the first two IEvaluator-typed fields of the node struct (declaration order),
// so that renaming the fields does not matter.
func operandFields(p *Prog, en evalNode) evalNode {
	n := p.Named(en.typ)
	if n == nil {
		return en
	}
	st, ok := n.Underlying().(*types.Struct)
	if !ok {
		return en
	}
	var names []string
	for i := 0; i < st.NumFields(); i++ {
		if nt, ok := st.Field(i).Type().(*types.Named); ok && nt.Obj().Name() == "IEvaluator" {
			names = append(names, st.Field(i).Name())
		}
	}
	if len(names) >= 2 {
		en.first, en.second = names[0], names[1]
	}
	return en
}

// caseLabels finds comparisons of <node>.opToken.Val with string constants in f: label -> block taken when equal.
func caseLabels(p *Prog, f *ssa.Function) map[string]*ssa.BasicBlock {
	out := map[string]*ssa.BasicBlock{}
	for _, b := range f.Blocks {
		iff, ok := b.Instrs[len(b.Instrs)-1].(*ssa.If)
		if !ok {
			continue
		}
		c, pol := normCond(iff.Cond, true)
		bo, ok := c.(*ssa.BinOp)
		if !ok || (bo.Op != token.EQL && bo.Op != token.NEQ) {
			continue
		}
		s, isC := constString(bo.Y)
		if !isC || !loadsField(bo.X, "Token", "Val") {
			continue
		}
		eq := bo.Op == token.EQL
		idx := 1
		if eq == pol {
			idx = 0
		}
		out[s] = b.Succs[idx]
	}
	return out
}

var goOpFor = map[string][]token.Token{
	"<=": {token.LEQ}, ">=": {token.GEQ}, ">": {token.GTR}, "<": {token.LSS},
	"+": {token.ADD}, "-": {token.SUB}, "*": {token.MUL}, "/": {token.QUO}, "%": {token.REM},
}

var timeMethodsFor = map[string][]string{"<=": {"Before", "Equal"}, ">=": {"After", "Equal"}, ">": {"After"}, "<": {"Before"}}

// operandOrdinal: which operand (1/2) of the node does value v derive from? 0 if unknown.
func operandOrdinal(p *Prog, v ssa.Value, en evalNode, depth int) int {
	if depth > 10 {
		return 0
	}
	switch x := v.(type) {
	case *ssa.Extract:
		return operandOrdinal(p, x.Tuple, en, depth+1)
	case *ssa.Call:
		cc := x.Common()
		if cc.IsInvoke() && cc.Method.Name() == "Evaluate" {
			_, n, fld := fieldLoadBase(cc.Value)
			if n != nil && n.Obj().Name() == en.typ {
				if fld == en.first {
					return 1
				}
				if fld == en.second {
					return 2
				}
			}
			return 0
		}
		if len(cc.Args) > 0 {
			return operandOrdinal(p, cc.Args[0], en, depth+1)
		}
	case *ssa.Phi:
		o := 0
		for _, e := range x.Edges {
			oo := operandOrdinal(p, e, en, depth+1)
			if oo != 0 {
				if o != 0 && o != oo {
					return 0
				}
				o = oo
			}
		}
		return o
	case *ssa.Convert:
		return operandOrdinal(p, x.X, en, depth+1)
	case *ssa.ChangeType:
		return operandOrdinal(p, x.X, en, depth+1)
	case *ssa.MakeInterface:
		return operandOrdinal(p, x.X, en, depth+1)
	case *ssa.Parameter:
		// a helper (unexported, only called statically) the operands are handed to: what every call site passes
		o := 0
		for _, act := range paramActuals(p, x) {
			oo := operandOrdinal(p, act, en, depth+1)
			if oo == 0 || (o != 0 && o != oo) {
				return 0
			}
			o = oo
		}
		return o
	case *ssa.BinOp:
		// -1 * x
		if _, isC := constInt(x.X); isC {
			return operandOrdinal(p, x.Y, en, depth+1)
		}
		if _, isC := x.X.(*ssa.Const); isC {
			return operandOrdinal(p, x.Y, en, depth+1)
		}
	}
	return 0
}

func ruleC07OpsCase(p *Prog, a *Anchors, r *Report, levels map[string]*gramLevel) {
	r.Begin("R-C07-OPS", "parser/evaluator agreement: the operators a level can store in a node are exactly the case labels of that node's Evaluate", 4)
	labelsOf := map[string]map[string]*ssa.BasicBlock{}
	for _, en := range evalNodes {
		en = operandFields(p, en)
		f := p.Method(en.typ, "Evaluate")
		// the level(s) that build this node type (the logical node is built by one level or by an or- and an and-level)
		ops := map[opTok]bool{}
		nLevels := 0
		for _, lv := range levels {
			if lv.allocatesNode(en.typ) {
				nLevels++
				for op := range lv.ops {
					ops[op] = true
				}
			}
		}
		if f == nil || nLevels == 0 {
			r.Unk(en.typ, "-", "anchor unresolved: (*%s).Evaluate or the parse level that builds the node", en.typ)
			continue
		}
		labels := caseLabels(p, f)
		labelsOf[en.typ] = labels
		want := map[string]bool{}
		for op := range ops {
			switch {
			case en.typ == "simpleExpression" && (op.Val == "!" || op.Val == "not"):
			case op.Val == "(" || op.Val == ")":
			default:
				want[op.Val] = true
			}
		}
		var missing, extra []string
		for w := range want {
			if labels[w] == nil {
				missing = append(missing, w)
			}
		}
		for l := range labels {
			if !want[l] {
				extra = append(extra, l)
			}
		}
		sort.Strings(missing)
		sort.Strings(extra)
		if len(missing)+len(extra) == 0 {
			r.OK(en.typ+":labels", p.Pos(f.Pos()), "%d operators parsed, %d evaluated", len(want), len(labels))
		} else {
			r.Bad(en.typ+":labels", p.Pos(f.Pos()), "operators parsed but not evaluated: %v; evaluated but never parsed: %v", missing, extra)
		}
	}

	r.Begin("R-C07-CASE", "inside `case \"<op>\"` every numeric Go operation is the one the label names, with the first operand on the left; time comparisons use the method pair the label names", 10)
	for _, en := range evalNodes {
		en = operandFields(p, en)
		f := p.Method(en.typ, "Evaluate")
		labels := labelsOf[en.typ]
		if f == nil || labels == nil {
			continue
		}
		// block -> labels reaching it
		reach := map[string]map[*ssa.BasicBlock]bool{}
		for l, b := range labels {
			reach[l] = ReachableBlocks(b)
		}
		labelsOfBlock := func(b *ssa.BasicBlock) []string {
			var out []string
			for l := range labels {
				if reach[l][b] {
					out = append(out, l)
				}
			}
			sort.Strings(out)
			return out
		}
		// a case may hand its operands to a method of the node (`return expr.modulo(ctx, f1, f2)`): the method's body
		// is judged under the labels of its call sites; its parameters are what the call sites pass (operandOrdinal)
		methods, msites := nodeMethods(p, f)
		mlabels := methodLabels(f, methods, msites, labelsOfBlock)
		isNodeMethod := map[*ssa.Function]bool{}
		for _, m := range methods {
			isNodeMethod[m] = true
		}
		labelsAt := func(b *ssa.BasicBlock) []string {
			if b.Parent() == f {
				return labelsOfBlock(b)
			}
			return mlabels[b.Parent()]
		}
		var caseBlocks []*ssa.BasicBlock
		for _, fn := range append([]*ssa.Function{f}, methods...) {
			caseBlocks = append(caseBlocks, fn.Blocks...)
		}
		for _, b := range caseBlocks {
			for _, in := range b.Instrs {
				switch x := in.(type) {
				case *ssa.BinOp:
					if !isNumeric(x.X.Type()) || !isNumeric(x.Y.Type()) {
						continue
					}
					if _, isC := x.X.(*ssa.Const); isC {
						continue // -1 * x, constants
					}
					if _, isC := x.Y.(*ssa.Const); isC {
						continue // divisor == 0 etc.
					}
					ls := labelsAt(b)
					key := fmt.Sprintf("%s:%s %s", en.typ, strings.Join(ls, ","), typeName(x.X.Type()))
					if len(ls) == 0 {
						r.Unk(key, p.InstrPos(in), "numeric operation %s outside any operator case", x.Op)
						continue
					}
					okOp := true
					for _, l := range ls {
						allowed := goOpFor[l]
						has := false
						for _, t := range allowed {
							if t == x.Op {
								has = true
							}
						}
						if !has {
							okOp = false
						}
					}
					o1, o2 := operandOrdinal(p, x.X, en, 0), operandOrdinal(p, x.Y, en, 0)
					switch {
					case !okOp:
						r.Bad(key, p.InstrPos(in), "case %q computes with Go operator %s", strings.Join(ls, ","), x.Op)
					case o1 == 1 && o2 == 2:
						r.OK(key, p.InstrPos(in), "%s with operands in written order", x.Op)
					case o1 == 2 && o2 == 1:
						r.Bad(key, p.InstrPos(in), "case %q computes <second operand> %s <first operand>", strings.Join(ls, ","), x.Op)
					default:
						r.Unk(key, p.InstrPos(in), "cannot attribute the operands of %s to the node's operands (%d,%d)", x.Op, o1, o2)
					}
				case *ssa.Call:
					callee := x.Common().StaticCallee()
					if callee != nil && p.extName(callee) == "math.Mod" {
						// the float form of %: math.Mod(<first operand>, <second operand>) under the label %
						ls := labelsAt(b)
						key := fmt.Sprintf("%s:%s math.Mod", en.typ, strings.Join(ls, ","))
						o1, o2 := operandOrdinal(p, x.Common().Args[0], en, 0), operandOrdinal(p, x.Common().Args[1], en, 0)
						switch {
						case len(ls) != 1 || ls[0] != "%":
							r.Bad(key, p.InstrPos(in), "case %q computes with math.Mod", strings.Join(ls, ","))
						case o1 == 1 && o2 == 2:
							r.OK(key, p.InstrPos(in), "math.Mod with operands in written order")
						case o1 == 2 && o2 == 1:
							r.Bad(key, p.InstrPos(in), "case %q computes math.Mod(<second operand>, <first operand>)", "%")
						default:
							r.Unk(key, p.InstrPos(in), "cannot attribute the arguments of math.Mod to the node's operands (%d,%d)", o1, o2)
						}
						continue
					}
					// a three-way comparison of the package over the two operands (`compareIntegers(v1, v2) < 0`): handed the
					// operands in written order
					if callee != nil && p.InPkg(callee) && callee.Signature.Recv() == nil && len(x.Common().Args) == 2 && callee.Signature.Results().Len() == 1 && isIntType(callee.Signature.Results().At(0).Type()) {
						vt := types.NewPointer(a.Value)
						if types.Identical(x.Common().Args[0].Type(), vt) && types.Identical(x.Common().Args[1].Type(), vt) {
							ls := labelsAt(b)
							key := fmt.Sprintf("%s:%s %s", en.typ, strings.Join(ls, ","), callee.Name())
							o1, o2 := operandOrdinal(p, x.Common().Args[0], en, 0), operandOrdinal(p, x.Common().Args[1], en, 0)
							switch {
							case o1 == 1 && o2 == 2:
								r.OK(key, p.InstrPos(in), "%s(<first operand>, <second operand>)", callee.Name())
							case o1 == 2 && o2 == 1:
								r.Bad(key, p.InstrPos(in), "case %q hands its operands to %s in the wrong order: <second operand> is compared with <first operand>", strings.Join(ls, ","), callee.Name())
							default:
								r.Unk(key, p.InstrPos(in), "cannot attribute the arguments of %s to the node's operands (%d,%d)", callee.Name(), o1, o2)
							}
							continue
						}
					}
					if callee == nil || callee.Pkg == nil || callee.Pkg.Pkg.Path() != "time" || callee.Signature.Recv() == nil {
						continue
					}
					m := callee.Name()
					if m != "Before" && m != "After" && m != "Equal" {
						continue
					}
					ls := labelsAt(b)
					key := fmt.Sprintf("%s:%s time.%s", en.typ, strings.Join(ls, ","), m)
					okM := len(ls) > 0
					for _, l := range ls {
						has := false
						for _, am := range timeMethodsFor[l] {
							if am == m {
								has = true
							}
						}
						if !has {
							okM = false
						}
					}
					o1, o2 := operandOrdinal(p, x.Common().Args[0], en, 0), operandOrdinal(p, x.Common().Args[1], en, 0)
					switch {
					case !okM:
						r.Bad(key, p.InstrPos(in), "case %q compares times with %s", strings.Join(ls, ","), m)
					case o1 == 1 && o2 == 2:
						r.OK(key, p.InstrPos(in), "t1.%s(t2)", m)
					default:
						r.Bad(key, p.InstrPos(in), "time comparison operands are not (first, second): (%d,%d)", o1, o2)
					}
				}
			}
		}
		// every arithmetic/ordering label computes with its own Go operator on float AND on integer values — in the
		// case itself or in a helper it calls. (A three-way compare helper answers `<=` as "not greater", which is
		// true for NaN; only the operator itself carries float semantics.)
		for l, blk := range labels {
			ops, isNum := goOpFor[l]
			if !isNum {
				continue
			}
			fns := map[*ssa.Function]bool{}
			blocks := ReachableBlocks(blk)
			var viaHelpers []string
			for b := range blocks {
				if len(labelsOfBlock(b)) != 1 && b != blk {
					continue // shared tail blocks
				}
				for _, in := range b.Instrs {
					if ci, ok := in.(ssa.CallInstruction); ok {
						if cal := ci.Common().StaticCallee(); cal != nil && p.InPkg(cal) && cal.Blocks != nil && (cal.Signature.Recv() == nil || isNodeMethod[cal]) {
							fns[cal] = true
							viaHelpers = append(viaHelpers, cal.Name())
						}
					}
				}
			}
			hasFloat, hasInt := false, false
			scan := func(bs []*ssa.BasicBlock, only map[*ssa.BasicBlock]bool) {
				for _, b := range bs {
					if only != nil && !only[b] {
						continue
					}
					for _, in := range b.Instrs {
						// Go has no % for floats: the float form of the label is math.Mod
						if c, isCall := in.(*ssa.Call); isCall && l == "%" && c.Common().StaticCallee() != nil && p.extName(c.Common().StaticCallee()) == "math.Mod" {
							hasFloat = true
						}
						x, ok := in.(*ssa.BinOp)
						if !ok || !isNumeric(x.X.Type()) {
							continue
						}
						if _, isC := x.Y.(*ssa.Const); isC {
							// `cmp(a, b) <op> 0` over a three-way comparison of the package that returns an int: the exact
							// form for integers (there is no NaN among them; for floats the operator itself is required)
							if k, isK := constInt(x.Y); isK && k == 0 {
								if cc, isCall := x.X.(*ssa.Call); isCall && cc.Common().StaticCallee() != nil && p.InPkg(cc.Common().StaticCallee()) {
									for _, t := range ops {
										if x.Op == t {
											hasInt = true
										}
									}
								}
							}
							continue
						}
						for _, t := range ops {
							if x.Op == t {
								if bt, _ := x.X.Type().Underlying().(*types.Basic); bt != nil && bt.Info()&types.IsFloat != 0 {
									hasFloat = true
								} else {
									hasInt = true
								}
							}
						}
					}
				}
			}
			scan(f.Blocks, blocks)
			for h := range fns {
				scan(h.Blocks, nil)
			}
			key := en.typ + ":" + l + " direct"
			sort.Strings(viaHelpers)
			switch {
			case hasFloat && hasInt:
				r.OK(key, p.InstrPos(blk.Instrs[0]), "computed with Go's %v on float and integer operands", ops)
			default:
				r.Bad(key, p.InstrPos(blk.Instrs[0]), "case %q is not computed with Go's %v on both float and integer operands (float: %v, int: %v; helpers called: %v): an indirect formulation (three-way compare, negated opposite) differs for NaN and mixed kinds", l, ops, hasFloat, hasInt, viaHelpers)
			}
		}
		// "+ concatenating when a string is involved": a numeric addition under the label + is reached only when, for each
		// operand, either IsString() was false or a number kind was established — testing "a float is involved" first
		// adds "a" + 1.5 as numbers
		if blk, has := labels["+"]; has {
			blocks := ReachableBlocks(blk)
			for b := range blocks {
				if ls := labelsOfBlock(b); len(ls) != 1 || ls[0] != "+" {
					continue
				}
				for _, in := range b.Instrs {
					x, ok := in.(*ssa.BinOp)
					if !ok || x.Op != token.ADD || !isNumeric(x.X.Type()) {
						continue
					}
					if _, isC := x.Y.(*ssa.Const); isC {
						continue
					}
					okBoth := true
					for ord := 1; ord <= 2; ord++ {
						o := ord
						if !Guarded(in, func(c ssa.Value, pol bool) bool {
							cc, isCall := c.(*ssa.Call)
							if !isCall || cc.Common().StaticCallee() == nil || len(cc.Common().Args) == 0 {
								return false
							}
							if operandOrdinal(p, cc.Common().Args[0], en, 0) != o {
								return false
							}
							switch cc.Common().StaticCallee().Name() {
							case "IsString":
								return !pol
							case "IsInteger", "IsFloat", "IsNumber":
								return pol
							}
							return false
						}) {
							okBoth = false
						}
					}
					key := fmt.Sprintf("%s:+ %s not-a-string", en.typ, typeName(x.X.Type()))
					if okBoth {
						r.OK(key, p.InstrPos(in), "numeric + only when neither operand is a string (or both are numbers)")
					} else {
						r.Bad(key, p.InstrPos(in), "the numeric addition under + is reachable with a string operand (the string test does not come first for both operands): \"a\" + 1.5 is added as numbers instead of concatenated")
					}
				}
			}
		}
		// == / != / <> / in: EqualValueTo / Contains with the right polarity and operand order
		for l, blk := range labels {
			if l != "==" && l != "!=" && l != "<>" && l != "in" {
				continue
			}
			key := en.typ + ":" + l
			found := false
			for b := range ReachableBlocks(blk) {
				for _, in := range b.Instrs {
					c, ok := in.(*ssa.Call)
					if !ok || c.Common().StaticCallee() == nil {
						continue
					}
					name := c.Common().StaticCallee().Name()
					if name != "EqualValueTo" && name != "Contains" {
						continue
					}
					found = true
					o1, o2 := operandOrdinal(p, c.Common().Args[0], en, 0), operandOrdinal(p, c.Common().Args[1], en, 0)
					negated := false
					for _, u := range refs(c) {
						if un, ok := u.(*ssa.UnOp); ok && un.Op == token.NOT {
							negated = true
						}
					}
					switch {
					case l == "in" && (name != "Contains" || o1 != 2 || o2 != 1 || negated):
						r.Bad(key, p.InstrPos(in), "`a in b` must be b.Contains(a), not negated; found %s with operands (%d,%d), negated %v", name, o1, o2, negated)
					case l != "in" && name != "EqualValueTo":
						r.Bad(key, p.InstrPos(in), "%s uses %s", l, name)
					case l == "==" && negated, (l == "!=" || l == "<>") && !negated:
						r.Bad(key, p.InstrPos(in), "polarity of %s is wrong (negated: %v)", l, negated)
					default:
						r.OK(key, p.InstrPos(in), "%s → %s, negated %v", l, name, negated)
					}
				}
			}
			if !found {
				r.Bad(key, p.Pos(f.Pos()), "case %q does not compare its operands", l)
			}
		}
	}
	// power
	if f := p.Method("power", "Evaluate"); f != nil {
		en := operandFields(p, evalNode{"power", "parsePower", "", ""})
		found := false
		for _, b := range f.Blocks {
			for _, in := range b.Instrs {
				c, ok := in.(*ssa.Call)
				if !ok || c.Common().StaticCallee() == nil || p.extName(c.Common().StaticCallee()) != "math.Pow" {
					continue
				}
				found = true
				o1, o2 := operandOrdinal(p, c.Common().Args[0], en, 0), operandOrdinal(p, c.Common().Args[1], en, 0)
				if o1 == 1 && o2 == 2 {
					r.OK("power:^", p.InstrPos(in), "math.Pow(first, second)")
				} else {
					r.Bad("power:^", p.InstrPos(in), "math.Pow operands are (%d,%d)", o1, o2)
				}
			}
		}
		if !found {
			r.Bad("power:^", p.Pos(f.Pos()), "power node does not call math.Pow")
		}
	}
	ruleC07PowInt(p, r)
}

func isNumeric(T types.Type) bool {
	b, ok := T.Underlying().(*types.Basic)
	return ok && b.Info()&types.IsNumeric != 0
}

func ruleC07ShortCircuit(p *Prog, a *Anchors, r *Report) {
	r.Begin("R-C07-SC", "and/or short-circuit: the second operand is evaluated only when the first operand's truth leaves the result open (true for and, false for or)", 2)
	f := p.Method("Expression", "Evaluate")
	if f == nil {
		r.Unk("anchor", "-", "anchor unresolved: (*Expression).Evaluate")
		return
	}
	en := operandFields(p, evalNodes[0])
	labels := caseLabels(p, f)
	n := 0
	for _, b := range f.Blocks {
		for _, in := range b.Instrs {
			c, ok := in.(*ssa.Call)
			if !ok || !c.Common().IsInvoke() || c.Common().Method.Name() != "Evaluate" {
				continue
			}
			if operandOrdinal(p, c, en, 0) != 2 {
				continue
			}
			n++
			// which labels reach this block
			var ls []string
			for l, blk := range labels {
				if ReachableBlocks(blk)[b] {
					ls = append(ls, l)
				}
			}
			sort.Strings(ls)
			key := "Expression:" + strings.Join(ls, ",") + ":second"
			if len(ls) == 0 {
				r.Bad(key, p.InstrPos(in), "the second operand is evaluated before the operator is known (both operands are always evaluated: no short-circuit)")
				continue
			}
			isAnd := ls[0] == "&&" || ls[0] == "and"
			for _, l := range ls {
				if (l == "&&" || l == "and") != isAnd {
					r.Unk(key, p.InstrPos(in), "second operand evaluation shared between and/or cases")
				}
			}
			g := Guarded(in, func(cond ssa.Value, pol bool) bool {
				cc, ok := cond.(*ssa.Call)
				if !ok || cc.Common().StaticCallee() == nil || cc.Common().StaticCallee().Name() != "IsTrue" {
					return false
				}
				return operandOrdinal(p, cc.Common().Args[0], en, 0) == 1 && pol == isAnd
			})
			if g {
				r.OK(key, p.InstrPos(in), "evaluated only when first.IsTrue() == %v", isAnd)
			} else {
				r.Bad(key, p.InstrPos(in), "the second operand of %s is evaluated without (or with the wrong polarity of) the truth test of the first: no short-circuit", strings.Join(ls, "/"))
			}
		}
	}
	if n == 0 {
		r.Bad("Expression:second", p.Pos(f.Pos()), "the second operand is never evaluated")
	}
}

// ruleDivisionGuards: every integer QUO/REM (and, if withFloat, float QUO in the evaluator) with a non-constant
// divisor is reached only when the divisor was compared with zero and the zero edge left.
func ruleDivisionGuards(p *Prog, a *Anchors, r *Report, rule string, evaluatorOnly bool) {
	r.Begin(rule, "every division/modulo by a runtime value is reached only after the divisor was tested against zero; in the expression evaluator the zero edge returns an execution error", 3)
	// in the evaluator: the Evaluate methods, and the methods of the same node type an Evaluate hands (part of) a case to
	var targets []*ssa.Function
	errorLost := map[*ssa.Function]bool{}
	isTarget := map[*ssa.Function]bool{}
	for _, f := range p.Funcs {
		if evaluatorOnly && !(f.Name() == "Evaluate" && f.Signature.Recv() != nil) {
			continue
		}
		if !evaluatorOnly && !a.ExecReach()[f] && !a.CompileReach()[f] {
			continue
		}
		if !isTarget[f] {
			isTarget[f] = true
			targets = append(targets, f)
		}
		if evaluatorOnly {
			handedOn, lost := evaluatorMethods(p, f)
			for _, m := range lost {
				errorLost[m] = true
			}
			for _, m := range append(handedOn, lost...) {
				if !isTarget[m] {
					isTarget[m] = true
					targets = append(targets, m)
				}
			}
		}
	}
	for _, f := range targets {
		for _, b := range f.Blocks {
			for _, in := range b.Instrs {
				// a division: Go's / and %, and math.Mod (the float form of %)
				var bo struct {
					Y  ssa.Value
					Op string
				}
				var xType types.Type
				switch d := in.(type) {
				case *ssa.BinOp:
					if d.Op != token.QUO && d.Op != token.REM {
						continue
					}
					bo.Y, bo.Op, xType = d.Y, d.Op.String(), d.X.Type()
				case *ssa.Call:
					if d.Common().StaticCallee() == nil || p.extName(d.Common().StaticCallee()) != "math.Mod" {
						continue
					}
					bo.Y, bo.Op, xType = d.Common().Args[1], "math.Mod", d.Common().Args[0].Type()
				default:
					continue
				}
				if _, isC := bo.Y.(*ssa.Const); isC {
					continue
				}
				isInt := false
				if bt, ok := xType.Underlying().(*types.Basic); ok && bt.Info()&types.IsInteger != 0 {
					isInt = true
				}
				if !isInt && !evaluatorOnly {
					continue // float division does not panic
				}
				key := fmt.Sprintf("%s:%s %s", p.FuncName(f), bo.Op, typeName(xType))
				var zeroIf *ssa.If
				var zeroIdx int
				g := Guarded(in, func(c ssa.Value, pol bool) bool {
					ok, nonZeroWhen := zeroTest(p, c, bo.Y)
					if ok && nonZeroWhen == pol {
						return true
					}
					return false
				})
				if !g {
					if isInt && divisorNonEmptyConstTable(p, bo.Y) {
						r.Assume(key, p.InstrPos(in), "divisor is the length of a package-level table initialised from a non-empty constant and never written afterwards")
						continue
					}
					if isInt {
						r.Bad(key, p.InstrPos(in), "integer %s by %s without a zero test on every path: panics with 'integer divide by zero'", bo.Op, p.VN(bo.Y))
					} else {
						r.Bad(key, p.InstrPos(in), "float division by %s without a zero test: division by zero must be an execution error", p.VN(bo.Y))
					}
					continue
				}
				if evaluatorOnly {
					// find the zero test and check its zero edge returns an error
					for _, bb := range f.Blocks {
						iff, ok := bb.Instrs[len(bb.Instrs)-1].(*ssa.If)
						if !ok {
							continue
						}
						c, pol := normCond(iff.Cond, true)
						if ok, nonZeroWhen := zeroTest(p, c, bo.Y); ok && bb.Dominates(b) {
							zeroIf = iff
							zeroIdx = 0
							if nonZeroWhen == pol {
								zeroIdx = 1
							}
						}
					}
					if zeroIf != nil && errorReturnsOnly(f, zeroIf.Block().Succs[zeroIdx]) && errorLost[f] {
						r.Bad(key, p.InstrPos(in), "the zero edge of the divisor test returns an error from %s, but a caller in the evaluator does not hand that error on", p.FuncName(f))
					} else if zeroIf != nil && errorReturnsOnly(f, zeroIf.Block().Succs[zeroIdx]) {
						r.OK(key, p.InstrPos(in), "guarded by a zero test whose zero edge returns an execution error")
					} else {
						r.Bad(key, p.InstrPos(in), "the zero edge of the divisor test does not return an error")
					}
				} else {
					r.OK(key, p.InstrPos(in), "guarded by a zero test of the divisor")
				}
			}
		}
	}
}

// zeroTest: cond compares (a value VN-equal to) v with 0; returns the polarity under which v != 0.
func zeroTest(p *Prog, cond ssa.Value, v ssa.Value) (bool, bool) {
	bo, ok := cond.(*ssa.BinOp)
	if !ok {
		return false, false
	}
	same := func(x ssa.Value) bool { return x == v || p.VN(x) == p.VN(v) }
	isZero := func(x ssa.Value) bool {
		c, ok := x.(*ssa.Const)
		if !ok || c.Value == nil {
			return false
		}
		return c.Value.ExactString() == "0"
	}
	switch {
	case same(bo.X) && isZero(bo.Y):
		switch bo.Op {
		case token.EQL:
			return true, false
		case token.NEQ, token.GTR:
			return true, true
		case token.LEQ:
			return true, false // v <= 0 false ⇒ v > 0
		}
	case same(bo.Y) && isZero(bo.X):
		switch bo.Op {
		case token.EQL:
			return true, false
		case token.NEQ, token.LSS:
			return true, true
		}
	}
	// len(x) > 0 where v = len(x)
	return false, false
}

// divisorNonEmptyConstTable: v = len(*g) with g a package-level slice initialised once from strings.Split/Fields
// of a non-empty constant and never stored to elsewhere.
func divisorNonEmptyConstTable(p *Prog, v ssa.Value) bool {
	lo := lenOperand(v)
	if lo == nil {
		return false
	}
	u, ok := lo.(*ssa.UnOp)
	if !ok {
		return false
	}
	g, ok := u.X.(*ssa.Global)
	if !ok {
		return false
	}
	init := globalInitCall(p, g)
	if init == nil || init.Common().StaticCallee() == nil {
		return false
	}
	n := p.extName(init.Common().StaticCallee())
	if n != "strings.Split" && n != "strings.Fields" {
		return false
	}
	s, isC := constString(init.Common().Args[0])
	return isC && strings.TrimSpace(s) != ""
}

func ruleC07Sym(p *Prog, a *Anchors, r *Report) {
	r.Begin("R-C07-SYM", "longest match: in the lexer's symbol table no entry is a proper prefix of a LATER entry", 1)
	g := p.Global("TokenSymbols")
	if g == nil {
		r.Unk("anchor", "-", "anchor unresolved: TokenSymbols")
		return
	}
	var syms []string
	n := 0
	p.EachInstr(func(f *ssa.Function, in ssa.Instruction) {
		if st, ok := in.(*ssa.Store); ok && st.Addr == ssa.Value(g) {
			n++
			if s, ok := constStringSlice(st.Val); ok {
				syms = s
			}
		}
	})
	if n != 1 || len(syms) == 0 {
		r.Unk("table", "-", "TokenSymbols is not initialised exactly once from a constant list (%d stores)", n)
		return
	}
	bad := ""
	for i, s := range syms {
		for _, later := range syms[i+1:] {
			if later != s && strings.HasPrefix(later, s) {
				bad = fmt.Sprintf("%q precedes %q: the longer symbol can never be matched", s, later)
			}
		}
	}
	if bad != "" {
		r.Bad("table", p.Pos(g.Pos()), "%s", bad)
	} else {
		r.OK("table", p.Pos(g.Pos()), "%d symbols, longest-match order holds", len(syms))
	}
	// every operator the grammar matches is a symbol or keyword the lexer can produce
	kws := map[string]bool{}
	if kg := p.Global("TokenKeywords"); kg != nil {
		p.EachInstr(func(f *ssa.Function, in ssa.Instruction) {
			if st, ok := in.(*ssa.Store); ok && st.Addr == ssa.Value(kg) {
				if s, ok := constStringSlice(st.Val); ok {
					for _, k := range s {
						kws[k] = true
					}
				}
			}
		})
	}
	symSet := map[string]bool{}
	for _, s := range syms {
		symSet[s] = true
	}
	for _, name := range []string{"ParseExpression", "parseRelationalExpression", "parseSimpleExpression", "parseTerm", "parsePower", "parseFactor"} {
		if f := p.Method("Parser", name); f != nil {
			for op := range extractLevel(p, f).ops {
				key := "lexable:" + op.Typ + ":" + op.Val
				if (op.Typ == "symbol" && symSet[op.Val]) || (op.Typ == "keyword" && kws[op.Val]) {
					r.Trivial(key, p.Pos(f.Pos()), "produced by the lexer")
				} else {
					r.Bad(key, p.Pos(f.Pos()), "the grammar expects %s %q but the lexer's tables do not contain it", op.Typ, op.Val)
				}
			}
		}
	}
}

func ruleC07Fmt(p *Prog, a *Anchors, r *Report) {
	r.Begin("R-C07-FMT", "canonical printing and parsing: integers in base 10, floats with %f, booleans as True/False", 4)
	f := p.Method("Value", "String")
	if f == nil {
		r.Unk("anchor", "-", "anchor unresolved: (*Value).String")
		return
	}
	nInt, nFloat := 0, 0
	hasTrue, hasFalse := false, false
	for _, b := range f.Blocks {
		for _, in := range b.Instrs {
			switch x := in.(type) {
			case *ssa.Call:
				if x.Common().StaticCallee() == nil {
					continue
				}
				n := p.extName(x.Common().StaticCallee())
				if n == "fmt.Sprintf" {
					fs, isC := constString(x.Common().Args[0])
					vals := varargValues(x.Common().Args[1])
					if len(vals) == 1 && isFloatType(vals[0].Type()) {
						nFloat++
						if isC && fs == "%f" {
							r.OK("Value.String:float", p.InstrPos(in), "floats are printed with %%f (six decimals)")
						} else {
							r.Bad("Value.String:float", p.InstrPos(in), "floats are printed with format %q, canonical form is %%f", fs)
						}
					}
				}
			case *ssa.Return:
				if s, isC := constString(res(x, 0)); isC {
					if s == "True" {
						hasTrue = true
					}
					if s == "False" {
						hasFalse = true
					}
				}
			}
		}
	}
	if nFloat == 0 {
		r.Bad("Value.String:float", p.Pos(f.Pos()), "no float formatting found in Value.String")
	}
	if hasTrue && hasFalse {
		r.OK("Value.String:bool", p.Pos(f.Pos()), "booleans print as True / False")
	} else {
		r.Bad("Value.String:bool", p.Pos(f.Pos()), "booleans must print as True/False (True: %v, False: %v)", hasTrue, hasFalse)
	}
	// every base argument in the package is 10
	p.EachInstr(func(fn *ssa.Function, in ssa.Instruction) {
		c, ok := in.(*ssa.Call)
		if !ok || c.Common().StaticCallee() == nil {
			return
		}
		n := p.extName(c.Common().StaticCallee())
		var base ssa.Value
		switch n {
		case "strconv.FormatInt", "strconv.FormatUint":
			base = c.Common().Args[1]
		case "strconv.ParseInt", "strconv.ParseUint":
			base = c.Common().Args[1]
		default:
			return
		}
		if fn == f {
			nInt++
		}
		key := p.FuncName(fn) + ":" + n
		if k, isC := constInt(base); isC && k == 10 {
			r.OK(key, p.InstrPos(in), "base 10")
		} else {
			r.Bad(key, p.InstrPos(in), "%s with base %s: numbers must be read and printed in decimal (base 0 accepts octal/hex prefixes)", n, p.VN(base))
		}
	})
	if nInt < 2 {
		r.Bad("Value.String:int", p.Pos(f.Pos()), "integers are not printed through strconv.FormatInt/FormatUint(…, 10) (found %d)", nInt)
	}
}

func isFloatType(T types.Type) bool {
	b, ok := T.Underlying().(*types.Basic)
	return ok && b.Info()&types.IsFloat != 0
}

// ruleC07Lex: the lexer's dispatch: each token class is entered only after a character of its own class was accepted.
func ruleC07Lex(p *Prog, a *Anchors, r *Report) {
	r.Begin("R-C07-LEX", "lexer dispatch: identifiers, numbers and strings are entered only after accepting a character of their own constant class (a sign is never part of a number token)", 3)
	f := p.Method("lexer", "stateCode")
	if f == nil {
		r.Unk("anchor", "-", "anchor unresolved: (*lexer).stateCode")
		return
	}
	want := map[string]string{"stateIdentifier": "tokenIdentifierChars", "stateNumber": "tokenDigits", "stateString": "\"'"}
	seen := map[string]bool{}
	for _, ret := range returnsOf(f) {
		v := res(ret, 0)
		if ct, isCT := v.(*ssa.ChangeType); isCT {
			v = ct.X
		}
		mc, ok := v.(*ssa.MakeClosure)
		var target string
		if ok {
			fn := mc.Fn.(*ssa.Function)
			target = strings.TrimSuffix(fn.Name(), "$bound")
		} else if isNilConst(v) {
			continue
		} else if c, isCall := v.(*ssa.Call); isCall && c.Common().StaticCallee() != nil && c.Common().StaticCallee().Name() == "errorf" {
			continue
		} else {
			r.Unk("stateCode:return", p.InstrPos(ret), "unrecognised next state %s", p.VN(v))
			continue
		}
		cls, known := want[target]
		if !known {
			r.Bad("stateCode→"+target, p.InstrPos(ret), "stateCode dispatches to an unknown state %s", target)
			continue
		}
		seen[target] = true
		g := Guarded(ret, func(c ssa.Value, pol bool) bool {
			call, ok := c.(*ssa.Call)
			if !ok || !pol || call.Common().StaticCallee() == nil || call.Common().StaticCallee().Name() != "accept" {
				return false
			}
			arg := call.Common().Args[1]
			if s, isC := constString(arg); isC {
				return s == cls
			}
			if u, ok := arg.(*ssa.UnOp); ok {
				if gl, ok := u.X.(*ssa.Global); ok {
					return gl.Name() == cls
				}
			}
			return false
		})
		// and nothing else was consumed on the way: no other accept/next call true-edge… approximated by
		// requiring that the guarding accept is the only pos-advancing call dominating the return besides ignore()
		if g {
			r.OK("stateCode→"+target, p.InstrPos(ret), "entered only after accept(%s)", cls)
		} else {
			r.Bad("stateCode→"+target, p.InstrPos(ret), "%s can be entered without having accepted a character of class %s (e.g. a sign folded into a number literal changes -2^2)", target, cls)
		}
	}
	for t := range want {
		if !seen[t] {
			r.Bad("stateCode→"+t, p.Pos(f.Pos()), "stateCode never dispatches to %s", t)
		}
	}
	// number tokens consist of digits only: stateNumber accepts only tokenDigits before emitting TokenNumber
	if sn := p.Method("lexer", "stateNumber"); sn != nil {
		ok := true
		for _, b := range sn.Blocks {
			for _, in := range b.Instrs {
				c, isCall := in.(*ssa.Call)
				if !isCall || c.Common().StaticCallee() == nil {
					continue
				}
				n := c.Common().StaticCallee().Name()
				if n == "acceptRun" || n == "accept" {
					arg := c.Common().Args[1]
					name := ""
					if u, ok := arg.(*ssa.UnOp); ok {
						if gl, ok := u.X.(*ssa.Global); ok {
							name = gl.Name()
						}
					}
					if n == "acceptRun" && name != "tokenDigits" {
						ok = false
						r.Bad("stateNumber:class", p.InstrPos(in), "number tokens consume characters of class %s", name)
					}
				}
			}
		}
		if ok {
			r.OK("stateNumber:class", p.Pos(sn.Pos()), "number tokens consume only tokenDigits")
		}
	}
}

// isFirstOperandField: fld is the first IEvaluator-typed field of the struct T points to.
func isFirstOperandField(T types.Type, fld string) bool {
	n := structOf(T)
	if n == nil {
		return false
	}
	st, ok := n.Underlying().(*types.Struct)
	if !ok {
		return false
	}
	for i := 0; i < st.NumFields(); i++ {
		if nt, ok := st.Field(i).Type().(*types.Named); ok && nt.Obj().Name() == "IEvaluator" {
			return st.Field(i).Name() == fld
		}
	}
	return false
}

// ruleEvalNodesBuiltOnce: an expression node is written only by the parser function that allocates it. A later
// parser stage that reaches into an already built operand and rewrites it (constant folding a sign into a literal
// that still carries a filter chain, swapping operands …) changes what the operand means for everything that
// wraps it: filters bind tighter than any operator only if the operand a filter chain was built around stays as parsed.
func ruleEvalNodesBuiltOnce(p *Prog, a *Anchors, r *Report, rule string) {
	r.Begin(rule, "expression nodes (implementers of IEvaluator) are written only by the parser function that allocates them: no later stage rewrites an already built operand", 10)
	isEval := map[string]bool{}
	for _, n := range a.EvalTypes {
		isEval[n.Obj().Name()] = true
	}
	for _, f := range p.inPkgFuncsSorted(a.CompileReach()) {
		cnt := map[string]int{}
		for _, b := range f.Blocks {
			for _, in := range b.Instrs {
				st, ok := in.(*ssa.Store)
				if !ok {
					continue
				}
				fa, ok := st.Addr.(*ssa.FieldAddr)
				if !ok {
					continue
				}
				n := structOf(fa.X.Type())
				if n == nil || !isEval[n.Obj().Name()] {
					continue
				}
				key := p.FuncName(f) + ":" + n.Obj().Name() + "." + fieldName(fa.X.Type(), fa.Field)
				cnt[key]++
				if cnt[key] > 1 {
					key += "#" + strconv.Itoa(cnt[key])
				}
				if allocatedHere(p, fa.X, map[ssa.Value]bool{}) {
					r.OK(key, p.InstrPos(in), "written by its constructor")
				} else {
					r.Bad(key, p.InstrPos(in), "%s writes a field of a %s it did not allocate (%s): an operand built by an earlier parser stage is rewritten after the fact", p.FuncName(f), n.Obj().Name(), p.VN(fa.X))
				}
			}
		}
	}
}

// allocatedHere: v is, on every path, an object allocated by the function it is used in (through phis, also cyclic
// ones, and local cells).
func allocatedHere(p *Prog, v ssa.Value, seen map[ssa.Value]bool) bool {
	if seen[v] {
		return true // a cycle adds no new origin
	}
	seen[v] = true
	switch x := v.(type) {
	case *ssa.Alloc:
		return true
	case *ssa.Phi:
		for _, e := range x.Edges {
			if !allocatedHere(p, e, seen) {
				return false
			}
		}
		return true
	case *ssa.UnOp:
		if sv := localLoadValue(x); sv != nil {
			return allocatedHere(p, sv, seen)
		}
		if as := p.directAllocs(x, 0); len(as) > 0 {
			return true
		}
	case *ssa.Call:
		// a constructor of the package (`newLoopInfo(parent)`): every return hands back what it allocated
		if g := x.Common().StaticCallee(); g != nil && g.Blocks != nil && p.InPkg(g) && (g.Object() == nil || !g.Object().Exported()) && len(seen) <= 40 && g.Signature.Results().Len() == 1 {
			for _, ret := range returnsOf(g) {
				if !allocatedHere(p, res(ret, 0), seen) {
					return false
				}
			}
			return len(returnsOf(g)) > 0
		}
	case *ssa.Extract:
		// the node a construction helper of the package hands back (`node, err = p.parseNext(node)`): every return of
		// the helper hands back a node it allocated, the one it was given, or nil
		if c, ok := x.Tuple.(*ssa.Call); ok {
			g := c.Common().StaticCallee()
			if g == nil || g.Blocks == nil || !p.InPkg(g) || (g.Object() != nil && g.Object().Exported()) || len(seen) > 40 {
				return false
			}
			for _, ret := range returnsOf(g) {
				if x.Index >= len(ret.Results) {
					return false
				}
				rv := res(ret, x.Index)
				if k, isK := rv.(*ssa.Const); isK && k.IsNil() {
					continue
				}
				if !allocatedHere(p, rv, seen) {
					return false
				}
			}
			return true
		}
	case *ssa.Parameter:
		// a construction helper (unexported, only called statically): judged at its call sites
		f := x.Parent()
		if f.Object() != nil && f.Object().Exported() || !p.staticOnly(f, nil) || len(seen) > 40 {
			return false
		}
		node := p.CG.Nodes[f]
		if node == nil || len(node.In) == 0 {
			return false
		}
		idx := indexOfParam(f, x)
		for _, e := range node.In {
			args := callArgs(e.Site.Common())
			if idx >= len(args) || !allocatedHere(p, args[idx], seen) {
				return false
			}
		}
		return true
	}
	return false
}

// ---- R-C07-BOOL -------------------------------------------------------------

// isBoolValue: v is AsValue(<a Go bool>) — directly, through a phi, or as the result of a package function every
// success return of which is one.
func isBoolValue(p *Prog, v ssa.Value, depth int, seen map[ssa.Value]bool) bool {
	if seen[v] {
		return true
	}
	seen[v] = true
	switch x := v.(type) {
	case *ssa.Phi:
		for _, e := range x.Edges {
			if !isBoolValue(p, e, depth, seen) {
				return false
			}
		}
		return true
	case *ssa.Call:
		callee := x.Common().StaticCallee()
		if callee == nil || !p.InPkg(callee) {
			return false
		}
		if callee.Name() == "AsValue" && callee.Signature.Recv() == nil && len(x.Common().Args) == 1 {
			arg := x.Common().Args[0]
			if mi, ok := arg.(*ssa.MakeInterface); ok {
				arg = mi.X
			}
			bt, ok := arg.Type().Underlying().(*types.Basic)
			return ok && bt.Info()&types.IsBoolean != 0
		}
		if depth == 0 || callee.Blocks == nil {
			return false
		}
		rets := returnsOf(callee)
		for _, ret := range rets {
			if len(ret.Results) == 0 || !isBoolValue(p, res(ret, 0), depth-1, seen) {
				return false
			}
		}
		return len(rets) > 0
	}
	return false
}

// ruleC07Bool: "the printed form of a result is canonical (… True/False)": what a logical operator, a comparison or
// `in` yields is a boolean whatever kinds its operands have (a negation answered with the numbers 0/1/1.1 prints 1.1).
func ruleC07Bool(p *Prog, a *Anchors, r *Report) {
	r.Begin("R-C07-BOOL", "and/or, comparisons, `in` and not/! yield AsValue(<Go bool>) on every successful path, whatever the operand kinds", 4)
	for _, typ := range []string{"Expression", "relationalExpression"} {
		f := p.Method(typ, "Evaluate")
		if f == nil {
			r.Unk(typ, "-", "anchor unresolved: (*%s).Evaluate", typ)
			continue
		}
		labels := caseLabels(p, f)
		names := make([]string, 0, len(labels))
		for l := range labels {
			names = append(names, l)
		}
		sort.Strings(names)
		for _, l := range names {
			n, bad := 0, ""
			reachAll := ReachableBlocks(labels[l])
			for _, ret := range returnsOf(f) {
				if !reachAll[ret.Block()] || len(ret.Results) != 2 || !isNilConst(res(ret, 1)) {
					continue
				}
				// only returns that belong to this label alone (shared tails are judged with the label they merge from)
				own := true
				for l2, b2 := range labels {
					if l2 != l && ReachableBlocks(b2)[ret.Block()] && !reachAll[b2] {
						own = false
					}
				}
				if !own {
					continue
				}
				n++
				if !isBoolValue(p, res(ret, 0), 2, map[ssa.Value]bool{}) {
					bad = p.InstrPos(ret)
				}
			}
			key := typ + ":" + l + ":bool"
			switch {
			case bad != "":
				r.Bad(key, bad, "the result of %q is not AsValue(<bool>) on a successful path (%s returned): it prints as something else than True/False for some operand kinds", l, p.VN(res(returnsOf(f)[0], 0)))
			case n == 0:
				r.Trivial(key, p.Pos(f.Pos()), "no successful return of its own")
			default:
				r.OK(key, p.Pos(f.Pos()), "%d successful return(s), each AsValue(<bool>)", n)
			}
		}
	}
	// negation: the value that replaces the operand on the `negate` edge
	f := p.Method("simpleExpression", "Evaluate")
	if f == nil {
		r.Unk("simpleExpression", "-", "anchor unresolved: (*simpleExpression).Evaluate")
		return
	}
	n := 0
	for _, b := range f.Blocks {
		iff, ok := b.Instrs[len(b.Instrs)-1].(*ssa.If)
		if !ok {
			continue
		}
		c, pol := normCond(iff.Cond, true)
		if !loadsField(c, "simpleExpression", "negate") {
			continue
		}
		tb := b.Succs[0]
		if !pol {
			tb = b.Succs[1]
		}
		// values computed on the negate edge that flow on: phis fed from a block dominated by tb
		for _, bb := range f.Blocks {
			for _, in := range bb.Instrs {
				ph, isPhi := in.(*ssa.Phi)
				if !isPhi {
					continue
				}
				for i, e := range ph.Edges {
					pred := bb.Preds[i]
					if !tb.Dominates(pred) {
						continue
					}
					if _, isPtrValue := e.Type().(*types.Pointer); !isPtrValue {
						continue
					}
					n++
					key := "simpleExpression:not:bool"
					if isBoolValue(p, e, 2, map[ssa.Value]bool{}) {
						r.OK(key, p.InstrPos(iff), "the negated value is AsValue(<bool>)")
					} else {
						r.Bad(key, p.InstrPos(iff), "not/! replaces its operand by %s, which is not AsValue(<bool>) for every operand kind: {{ not 0.0 }} prints 1.100000 (Value.Negate answers numbers with numbers)", p.VN(e))
					}
				}
			}
		}
	}
	if n == 0 {
		r.Unk("simpleExpression:not:bool", p.Pos(f.Pos()), "cannot find the value computed on the `negate` edge of (*simpleExpression).Evaluate")
	}
}

// ruleC07PowInt: "integer arithmetic on integers" also for ^: the power node has a path that yields an integer-typed
// value (for two integer operands); computing every power in float prints 2 ^ 3 as 8.000000.
func ruleC07PowInt(p *Prog, r *Report) {
	f := p.Method("power", "Evaluate")
	if f == nil {
		r.Unk("power:^ int", "-", "anchor unresolved: (*power).Evaluate")
		return
	}
	hasInt, hasFloat := false, false
	for _, ret := range returnsOf(f) {
		c, ok := res(ret, 0).(*ssa.Call)
		if !ok || c.Common().StaticCallee() == nil || c.Common().StaticCallee().Name() != "AsValue" || len(c.Common().Args) != 1 {
			continue
		}
		arg := c.Common().Args[0]
		if mi, isMI := arg.(*ssa.MakeInterface); isMI {
			arg = mi.X
		}
		if bt, isB := arg.Type().Underlying().(*types.Basic); isB {
			if bt.Info()&types.IsInteger != 0 {
				hasInt = true
			}
			if bt.Info()&types.IsFloat != 0 {
				hasFloat = true
			}
		}
	}
	switch {
	case hasInt && hasFloat:
		r.OK("power:^ int", p.Pos(f.Pos()), "^ yields an integer on one path and a float on another (integer arithmetic on integers)")
	case hasFloat:
		r.Bad("power:^ int", p.Pos(f.Pos()), "^ computes every power in float: {{ 2 ^ 3 }} prints 8.000000 although both operands are integers (\"integer arithmetic on integers\")")
	default:
		r.Unk("power:^ int", p.Pos(f.Pos()), "cannot recognise what (*power).Evaluate returns")
	}
}
