package main

// tol_T9.go — C18 (R-C18-ROUND, R-C18-FDIV): the widthratio computation may have been moved out of
// (*tagWidthratioNode).Execute into helpers. The conversion, the ratio expression and the zero test are looked for in
// the cluster of Execute; a helper's parameters are mapped back to the values handed over at its call sites, and a
// helper's result is followed back to its returns.

import (
	"go/constant"
	"go/token"

	"golang.org/x/tools/go/ssa"
)

// floatToIntHelper: f is a package helper that does nothing but convert its one float parameter to an integer (every
// return a constant or the conversion of the parameter: a saturating converter such as floatToInt). A call of it is
// judged like the conversion it wraps; the Convert inside it is therefore not a conversion site of its own.
func floatToIntHelper(p *Prog, f *ssa.Function) bool {
	if f == nil || !p.InPkg(f) || f.Blocks == nil || len(f.Params) != 1 || f.Signature.Results().Len() != 1 || !isFloatType(f.Params[0].Type()) {
		return false
	}
	conv := false
	for _, ret := range returnsOf(f) {
		switch rv := res(ret, 0).(type) {
		case *ssa.Const:
		case *ssa.Convert:
			if rv.X != ssa.Value(f.Params[0]) {
				return false
			}
			conv = true
		default:
			return false
		}
	}
	return conv
}

// c18ConversionSites: the float→int conversions (Go conversions and calls of a converter helper) that can produce the
// number the tag writes: those in f and its closures, and those in the helpers whose result is (part of) what is
// written — the functions the computation was extracted into. The inside of a converter helper is not a site (its
// calls are).
func c18ConversionSites(p *Prog, f *ssa.Function, helpers []*ssa.Function) []ssa.Instruction {
	var out []ssa.Instruction
	seen := map[*ssa.Function]bool{}
	for _, top := range append([]*ssa.Function{f}, helpers...) {
		for _, fn := range withClosures(top) {
			if seen[fn] || fn.Blocks == nil || floatToIntHelper(p, fn) {
				continue
			}
			seen[fn] = true
			for _, b := range fn.Blocks {
				for _, in := range b.Instrs {
					if _, ok := floatToIntOperand(p, in); ok {
						out = append(out, in)
					}
				}
			}
		}
	}
	return out
}

// c18Agree: the one answer all values give ("?" if there is none, or they differ).
func c18Agree(vals []ssa.Value, of func(ssa.Value) string) string {
	out := "?"
	for i, v := range vals {
		s := of(v)
		if s == "?" || (i > 0 && s != out) {
			return "?"
		}
		out = s
	}
	return out
}

// c18FloatOfField: v = X.Float() where X is what the node field evaluated to; returns the field name. In a helper, v
// (a float parameter) or X (a *Value parameter) is what every call site hands over for it.
func c18FloatOfField(p *Prog, v ssa.Value, depth int) string {
	if depth > 3 {
		return "?"
	}
	v = stripLoad(v)
	if pa, ok := v.(*ssa.Parameter); ok {
		return c18Agree(paramActuals(p, pa), func(a ssa.Value) string { return c18FloatOfField(p, a, depth+1) })
	}
	c, ok := v.(*ssa.Call)
	if !ok || c.Common().StaticCallee() == nil || c.Common().StaticCallee().Name() != "Float" || len(c.Common().Args) == 0 {
		return "?"
	}
	return c18EvaluatedField(p, c.Common().Args[0], depth)
}

// c18EvaluatedField: v is the value result of `node.<field>.Evaluate(ctx)` (an invoke on the loaded field), possibly
// handed down through helper parameters; returns the field name.
func c18EvaluatedField(p *Prog, v ssa.Value, depth int) string {
	if depth > 3 {
		return "?"
	}
	v = stripLoad(v)
	if pa, ok := v.(*ssa.Parameter); ok {
		return c18Agree(paramActuals(p, pa), func(a ssa.Value) string { return c18EvaluatedField(p, a, depth+1) })
	}
	ex, ok := v.(*ssa.Extract)
	if !ok {
		return "?"
	}
	ev, ok := ex.Tuple.(*ssa.Call)
	if !ok || !ev.Common().IsInvoke() {
		return "?"
	}
	_, _, fld := fieldLoadBase(ev.Common().Value)
	if fld == "" {
		return "?"
	}
	return fld
}

// c18WrittenValue follows a value the tag writes or binds back to where it comes from: through interface boxing, phis,
// local cells, and the results of package helpers (a helper's result is each of its returns; a parameter returned by a
// helper is the argument of the call through which the walk entered it). Returns the position of an integer
// division/remainder among these values ("" if none) and the helpers whose results were followed.
func c18WrittenValue(p *Prog, v ssa.Value) (intDiv string, helpers []*ssa.Function) {
	seen := map[ssa.Value]bool{}
	entered := map[*ssa.Function]bool{}
	bind := map[*ssa.Parameter][]ssa.Value{}
	var walk func(v ssa.Value, d int)
	enter := func(c *ssa.Call, idx, d int) {
		cal := c.Common().StaticCallee()
		if cal == nil || !p.InPkg(cal) || cal.Blocks == nil || idx >= cal.Signature.Results().Len() {
			return
		}
		if !entered[cal] {
			entered[cal] = true
			helpers = append(helpers, cal)
		}
		for i, a := range callArgs(c.Common()) {
			if i < len(cal.Params) {
				bind[cal.Params[i]] = append(bind[cal.Params[i]], a)
			}
		}
		for _, ret := range returnsOf(cal) {
			if idx < len(ret.Results) {
				walk(res(ret, idx), d+1)
			}
		}
	}
	walk = func(v ssa.Value, d int) {
		if v == nil || seen[v] || d > 8 {
			return
		}
		seen[v] = true
		switch x := v.(type) {
		case *ssa.MakeInterface:
			walk(x.X, d+1)
		case *ssa.Phi:
			for _, e := range x.Edges {
				walk(e, d+1)
			}
		case *ssa.UnOp:
			if lv := localLoadValue(x); lv != nil {
				walk(lv, d+1)
			}
		case *ssa.BinOp:
			if intDiv == "" && isIntType(x.Type()) && (x.Op == token.QUO || x.Op == token.REM) {
				intDiv = p.InstrPos(x)
			}
		case *ssa.Call:
			enter(x, 0, d)
		case *ssa.Extract:
			if c, ok := x.Tuple.(*ssa.Call); ok {
				enter(c, x.Index, d)
			}
		case *ssa.Parameter:
			for _, a := range bind[x] {
				walk(a, d+1)
			}
		}
	}
	walk(v, 0)
	return intDiv, helpers
}

// c18ZeroTest: the edge predicate "a value recognised by isDivisor was found to be non-zero".
func c18ZeroTest(isDivisor func(ssa.Value) bool) EdgePred {
	return func(c ssa.Value, pol bool) bool {
		bo, ok := c.(*ssa.BinOp)
		if !ok || !isDivisor(bo.X) {
			return false
		}
		if k, isC := bo.Y.(*ssa.Const); !isC || k.Value == nil || constant.Sign(k.Value) != 0 {
			return false
		}
		return (bo.Op == token.NEQ && pol) || (bo.Op == token.EQL && !pol) || (bo.Op == token.GTR && pol)
	}
}

// c18DivisorZeroTested: on every path to `at` the divisor y was tested against zero — in at's own function, or, when
// that function is an extracted helper and y is one of its parameters (or a pure reading g(parameter) of one, like
// maximum.Float()), by the same test of the actual argument in front of every call of the helper.
func c18DivisorZeroTested(p *Prog, at ssa.Instruction, y ssa.Value) bool {
	if Guarded(at, c18ZeroTest(func(x ssa.Value) bool { return p.VN(x) == p.VN(y) })) {
		return true
	}
	var pa *ssa.Parameter
	var g *ssa.Function
	switch x := stripLoad(y).(type) {
	case *ssa.Parameter:
		pa = x
	case *ssa.Call:
		if cal := x.Common().StaticCallee(); cal != nil && !x.Common().IsInvoke() && len(x.Common().Args) == 1 && p.IsPure(cal) {
			pa, _ = stripLoad(x.Common().Args[0]).(*ssa.Parameter)
			g = cal
		}
	}
	if pa == nil || pa.Parent() != at.Parent() {
		return false
	}
	sites := paramActualSites(p, pa)
	for _, s := range sites {
		actual := s.val
		same := func(x ssa.Value) bool {
			if g == nil {
				return p.VN(x) == p.VN(actual)
			}
			c, ok := x.(*ssa.Call)
			return ok && c.Common().StaticCallee() == g && len(c.Common().Args) == 1 && p.VN(c.Common().Args[0]) == p.VN(actual)
		}
		if !Guarded(s.site, c18ZeroTest(same)) {
			return false
		}
	}
	return len(sites) > 0
}
