package main

// Tolerance T4 (C02, text provenance through extracted helpers): classifyText follows a text value
//   - from a helper's parameter to the actual arguments: inside a helper entered through one of its calls, to the
//     argument of THAT call (classifyFrame); in the function that owns the sink, to the arguments of all call sites of
//     the (unexported, only statically called) function — the join of their classes;
//   - from a helper's result back to its return values, parameters substituted as above.

import (
	"golang.org/x/tools/go/ssa"
)

// classifyFrame: the call through which classifyText entered the body of a package helper.
type classifyFrame struct {
	fn   *ssa.Function
	args []ssa.Value
	up   *classifyFrame
}

// classifyCtx: the innermost helper call being looked through (nil: we are in the function that owns the sink).
var classifyCtx *classifyFrame

var harmlessTextKinds = map[string]bool{"const": true, "rendered": true, "numeric": true, "time": true}

// joinTextClasses: the class of a text that is one of several alternatives. Equal kinds stay, different harmless kinds
// are still harmless ("rendered"), anything else is unknown. "cycle" alternatives (the value feeds itself) add nothing.
func joinTextClasses(acc *textClass, tc textClass, what string) (*textClass, bool) {
	if tc.kind == "cycle" {
		return acc, true
	}
	if acc == nil {
		return &tc, true
	}
	if acc.kind == tc.kind && tc.kind != "value" {
		return acc, true
	}
	if (harmlessTextKinds[acc.kind] || acc.kind == "optout") && (harmlessTextKinds[tc.kind] || tc.kind == "optout") {
		if acc.kind == "optout" || tc.kind == "optout" {
			acc.kind = "optout"
			acc.why = what + " of harmless texts and values escaped or opted out where they are handed over"
			return acc, true
		}
		acc.kind = "rendered"
		acc.why = what + " of harmless texts"
		return acc, true
	}
	return &textClass{kind: "unknown", why: what + " of " + acc.kind + " and " + tc.kind}, false
}

// classifyParamText: the text is the parameter pa.
func classifyParamText(p *Prog, a *Anchors, pa *ssa.Parameter, depth int) textClass {
	f := pa.Parent()
	idx := -1
	if f != nil {
		for i, q := range f.Params {
			if q == pa {
				idx = i
			}
		}
	}
	// (1) we came into f through a call we are looking through: the argument of that call, seen from the caller
	if fr := classifyCtx; fr != nil && fr.fn == f && idx >= 0 && idx < len(fr.args) {
		classifyCtx = fr.up
		tc := classifyText(p, a, fr.args[idx], depth+1)
		classifyCtx = fr
		return tc
	}
	// (2) f owns the sink (or is a caller of it): every call site of f supplies the text
	if classifyVisiting[classifyKey{pa, nil}] {
		return textClass{kind: "cycle"}
	}
	actuals := paramActualSites(p, pa)
	if len(actuals) == 0 {
		return textClass{kind: "unknown", why: p.VN(pa) + " (a parameter of a function whose callers are not all visible)"}
	}
	classifyVisiting[classifyKey{pa, nil}] = true
	defer delete(classifyVisiting, classifyKey{pa, nil})
	saved := classifyCtx
	classifyCtx = nil
	defer func() { classifyCtx = saved }()
	var acc *textClass
	for _, as := range actuals {
		tc := classifyText(p, a, as.val, depth+1)
		if tc.kind == "value" {
			// String() of a *Value is handed to the helper that writes it: the call site is the sink of that value, it
			// must be escaped or behind an opt-out there (the same judgement as for a direct write)
			if tc.val == nil || tc.val.Parent() != as.site.Parent() {
				return textClass{kind: "unknown", why: "String() of a *Value handed to " + p.FuncName(f) + " as " + p.VN(pa)}
			}
			visiting, ctx := classifyVisiting, classifyCtx
			ok, why := valueSinkOK(p, a, as.site, tc.val, 0) // re-enters classifyText at depth 0
			classifyVisiting, classifyCtx = visiting, ctx
			if !ok {
				return textClass{kind: "unknown", why: "handed to " + p.FuncName(f) + " at " + p.InstrPos(as.site) + ": " + why}
			}
			// a kind of its own: fine to write, but not "rendered" for the other users of classifyText (R-C02-SAFE must
			// not accept text that merely passed an opt-out as text that may be marked safe)
			tc = textClass{kind: "optout", why: "value escaped or opted out where it is handed over (" + why + ")"}
		}
		var ok bool
		if acc, ok = joinTextClasses(acc, tc, "argument "+p.VN(pa)+" of "+p.FuncName(f)+": join"); !ok {
			return *acc
		}
	}
	if acc == nil {
		return textClass{kind: "unknown", why: p.VN(pa) + " is only ever passed on from itself"}
	}
	if acc.kind != "unknown" {
		acc.why = "argument of every call of " + p.FuncName(f) + ": " + acc.why
	}
	return *acc
}

// classifyHelperResult: the text is result #0 of the call `call` of the package helper callee: the join of what the
// helper returns, its parameters standing for the arguments of this call.
func classifyHelperResult(p *Prog, a *Anchors, call *ssa.Call, callee *ssa.Function, depth int) (textClass, bool) {
	fr := &classifyFrame{fn: callee, args: call.Common().Args, up: classifyCtx}
	classifyCtx = fr
	defer func() { classifyCtx = fr.up }()
	var acc *textClass
	for _, ret := range returnsOf(callee) {
		tc := classifyText(p, a, res(ret, 0), depth+1)
		var ok bool
		if acc, ok = joinTextClasses(acc, tc, "helper "+p.extName(callee)+" returns a mix"); !ok {
			return *acc, true
		}
	}
	if acc == nil {
		return textClass{}, false
	}
	if acc.kind == "value" && acc.val != nil && acc.val.Parent() != call.Parent() {
		// the printed *Value must be a value of the calling function to be related to the guards around the sink
		var sub ssa.Value
		if pa, isPa := acc.val.(*ssa.Parameter); isPa && pa.Parent() == callee {
			for i, q := range callee.Params {
				if q == pa && i < len(fr.args) {
					sub = fr.args[i]
				}
			}
		}
		if sub == nil || sub.Parent() != call.Parent() {
			return textClass{kind: "unknown", why: "String() of a *Value inside helper " + p.extName(callee)}, true
		}
		acc.val = sub
	}
	return *acc, true
}
