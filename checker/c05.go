package main

// C05 — concurrent execution and compilation: a data race needs a write.
// R-C05-WRITE: every store reachable from the concurrently callable entries writes (a) per-execution or
// freshly allocated memory, (b) the template under construction, or (c) set state under the set's mutex.

import (
	"go/types"

	"golang.org/x/tools/go/ssa"
)

func init() { register("C05", checkC05) }

func concurrentEntries(p *Prog, a *Anchors) []*ssa.Function {
	out := append([]*ssa.Function{}, a.ExecEntries...)
	out = append(out, a.CompileEntries...)
	if f := p.Method("TemplateSet", "CleanCache"); f != nil {
		out = append(out, f)
	}
	for _, f := range a.FilterFuncs {
		out = append(out, f)
	}
	if f := p.Func("ApplyFilter"); f != nil {
		out = append(out, f)
	}
	return out
}

func checkC05(p *Prog, r *Report) {
	a := ResolveAnchors(p)
	if !anchorCheck(a, r) {
		return
	}
	r.Begin("R-C05-WRITE", "every write reachable from concurrently callable entries (Execute*, ExecuteBlocks, From*, Render*, CleanCache, filters) is to per-execution/fresh memory, to the template under construction, or to set state under the set mutex", 60)
	entries := concurrentEntries(p, a)
	reach := p.Reach(p.CG, entries, nil)
	execReach := a.ExecReach()
	es := entrySet(a)
	for _, f := range entries {
		es[f] = true
	}
	mutexFields := mutexFieldsOf(a.TemplateSet)
	heldCache := map[*ssa.Function]func(ssa.Instruction) bool{}
	held := func(in ssa.Instruction) bool {
		f := in.Parent()
		if heldCache[f] == nil {
			fs := make([]func(ssa.Instruction) bool, 0)
			for _, mf := range mutexFields {
				fs = append(fs, p.heldAt(f, mf))
			}
			heldCache[f] = func(i ssa.Instruction) bool {
				for _, h := range fs {
					if h(i) {
						return true
					}
				}
				return false
			}
		}
		return heldCache[f](in)
	}
	nExec, nCompile := 0, 0
	for _, je := range p.JudgeEffects(reach, es) {
		e := je.E
		key := p.effectKey(e)
		pos := p.InstrPos(e.Instr)
		nf, where := je.nonFresh()
		inExec := execReach[e.Fn]
		if inExec {
			nExec++
		} else {
			nCompile++
		}
		switch {
		case e.Atomic:
			r.OK(key, pos, "%s: written through sync/atomic (no data race; whether it may be written at all is R-C04-STORE's question)", e.Desc)
		case e.Target.Type == "<global>":
			r.Bad(key, pos, "%s: package-level variable written from a concurrently callable entry without synchronisation", e.Desc)
		case len(nf) == 0:
			r.OK(key, pos, "%s: object allocated by this call tree, not yet shared (%s)", e.Desc, rootsString(je.Contexts[0].Roots))
		case e.Target.Type == "TemplateSet":
			// set state: under the mutex on every path, in every judged context (the instruction itself)
			if held(e.Instr) {
				r.OK(key, pos, "%s: set state written while the set mutex is held", e.Desc)
			} else {
				r.Bad(key, pos, "%s: set state shared by all goroutines using the set is written without holding the set mutex (reached from From*/Render*/lazy include): data race", e.Desc)
			}
		case a.CompiledTypes[e.Target.Type]:
			if inExec {
				r.Bad(key, pos, "%s: compiled-tree memory shared by all concurrent executions is written during execution; origin %s (judged in %s): data race", e.Desc, rootsString(nf), where)
				continue
			}
			// compile side: the template under construction, reached through the Parser handed to the tag
			// parser (or the Parser/Template itself); decided by R-C10-FRESH
			ok := true
			for _, rt := range nf {
				if !underConstruction(rt) {
					ok = false
				}
			}
			if ok {
				r.OK(key, pos, "%s: template/parser under construction, private to the compiling goroutine (origin %s)", e.Desc, rootsString(nf))
			} else {
				r.Bad(key, pos, "%s: compile-time code writes compiled-tree memory that is not the template under construction (origin %s): shared with other goroutines", e.Desc, rootsString(nf))
			}
		case a.PerExecTypes[e.Target.Type] || e.Target.Type == "Context":
			if g := globalRoot(nf); g != "" {
				r.Bad(key, pos, "%s: the %s written here can be the object kept in package-level variable %s, which every goroutine using the package shares: unsynchronised write; origin %s (judged in %s)", e.Desc, e.Target.Type, g, rootsString(nf), where)
			} else {
				r.OK(key, pos, "%s: per-execution type %s", e.Desc, e.Target.Type)
			}
		default:
			bad := ""
			for _, rt := range nf {
				for _, ow := range rt.Owners {
					if a.CompiledTypes[ow.Type] && inExec {
						bad = ow.Type + "." + ow.Field
					}
					if ow.Type == "TemplateSet" && !held(e.Instr) {
						bad = ow.Type + "." + ow.Field
					}
				}
			}
			if g := globalRoot(nf); bad == "" && g != "" {
				r.Bad(key, pos, "%s: the object written is (reached from) the package-level variable %s, which all goroutines share: unsynchronised write (a library object that is not safe for concurrent use, e.g. a *rand.Rand, kept in a package variable); origin %s", e.Desc, g, rootsString(nf))
				continue
			}
			if bad != "" {
				r.Bad(key, pos, "%s: shared memory reached through %s is written without synchronisation; origin %s", e.Desc, bad, rootsString(nf))
			} else {
				r.OK(key, pos, "%s: not shared state (roots %s)", e.Desc, rootsString(nf))
			}
		}
	}
	r.Extra["stores_in_execution_reach"] = nExec
	r.Extra["stores_compile_only"] = nCompile

	rulePoolDiscipline(p, a, r, "R-C05-POOL")

	// the cache lock discipline is a C05 condition too
	r.Begin("R-C05-CACHE", "cache map accessed only under its mutex (same rule as R-C20-LOCK)", 4)
	if ca := resolveCacheAnchors(p, a, r); ca != nil {
		for _, f := range p.Funcs {
			accs := cacheAccesses(p, f, ca.cacheField)
			if len(accs) == 0 {
				continue
			}
			h := p.heldAt(f, ca.mutexField)
			for _, acc := range accs {
				key := p.FuncName(f) + ":" + acc.Kind
				if acc.Kind == "assign" {
					if st := acc.In.(*ssa.Store); len(p.directAllocs(st.Addr.(*ssa.FieldAddr).X, 0)) > 0 {
						r.OK(key, p.InstrPos(acc.In), "constructor")
						continue
					}
				}
				if h(acc.at()) {
					r.OK(key, p.InstrPos(acc.In), "under %s", ca.mutexField)
				} else {
					r.Bad(key, p.InstrPos(acc.In), "cache %s without the mutex", acc.Kind)
				}
			}
		}
	}
}

// underConstruction: the root is a *Parser parameter (the document/argument parser of the template being
// compiled, incl. its .template), a *Template receiver of a compile-only helper, or a *lexer.
func underConstruction(rt Root) bool {
	if rt.Kind != RParam {
		return false
	}
	n := structOf(rt.Typ)
	if n == nil {
		return false
	}
	switch n.Obj().Name() {
	case "Parser", "lexer":
		// … but not what is reached through the template's set: the set (its cache, its loaders, its globals) is
		// shared with every other template and outlives this compilation
		for _, o := range rt.Owners {
			if o.Type == "TemplateSet" || (o.Type == "Template" && o.Field == "set") {
				return false
			}
		}
		return true
	}
	_ = types.Typ
	return false
}
