package main

// tol_T10.go — R-C11-ONLY looks through helpers: the construction of the include context may live in private helper
// methods of the node (the fresh map being the helper's local that it hands back, or a parameter that is fresh at the
// call sites), and the conditions under which a failed load is swallowed may be wrapped in predicate functions (the
// predicate's parameters are mapped to the arguments of the call).

import (
	"go/constant"

	"golang.org/x/tools/go/ssa"
)

// c11Helpers: root and the private helpers it distributes its work over — package functions that are only called
// statically and that are either methods of the same receiver type as root or are called from nowhere but root and its
// helpers. root comes first.
func c11Helpers(p *Prog, root *ssa.Function) []*ssa.Function {
	recvName := func(f *ssa.Function) string {
		if f.Signature.Recv() == nil {
			return ""
		}
		if n := structOf(f.Signature.Recv().Type()); n != nil {
			return n.Obj().Name()
		}
		return ""
	}
	in := map[*ssa.Function]bool{root: true}
	out := []*ssa.Function{root}
	for i := 0; i < len(out); i++ {
		for _, b := range out[i].Blocks {
			for _, ins := range b.Instrs {
				ci, ok := ins.(ssa.CallInstruction)
				if !ok {
					continue
				}
				g := ci.Common().StaticCallee()
				if g == nil || in[g] || g.Blocks == nil || !p.InPkg(g) || g.Parent() != nil || !p.staticOnly(g, nil) {
					continue
				}
				mine := recvName(root) != "" && recvName(g) == recvName(root)
				if !mine {
					mine = true
					for _, e := range p.CG.Nodes[g].In {
						if !in[e.Caller.Func] {
							mine = false
						}
					}
				}
				if mine {
					in[g] = true
					out = append(out, g)
				}
			}
		}
	}
	return out
}

// guardedUp: on every path from the entry of root to the instruction an edge satisfying pred is taken — inside the
// instruction's own function, or, for a helper, on the way to every one of its call sites.
func guardedUp(p *Prog, root *ssa.Function, in ssa.Instruction, pred EdgePred, depth int) bool {
	if Guarded(in, pred) {
		return true
	}
	g := in.Parent()
	if g == root || depth == 0 || !p.staticOnly(g, nil) {
		return false
	}
	for _, e := range p.CG.Nodes[g].In {
		site, ok := e.Site.(ssa.Instruction)
		if !ok || !guardedUp(p, root, site, pred, depth-1) {
			return false
		}
	}
	return true
}

// c11FreshContext: the map written in helper g (≠ root) is the include context under construction: a fresh map of
// the helper that it returns, or a parameter that is a fresh map at every call site.
func c11FreshContext(p *Prog, root, g *ssa.Function, m ssa.Value) bool {
	if rs := p.Roots(m); len(rs) > 0 && allFresh(rs) {
		for _, ret := range returnsOf(g) {
			for i := range ret.Results {
				if v := stripConv(res(ret, i)); v == stripConv(m) || (p.VN(v) != "" && p.VN(v) == p.VN(stripConv(m))) {
					return true
				}
			}
		}
		return false
	}
	rs := p.RootsUp(m, map[*ssa.Function]bool{root: true}, 3)
	return len(rs) > 0 && allFresh(rs)
}

// c11LiftStore: a store that is not inside a loop of its helper is passed on every way through the helper; then the
// helper's (single) call stands for it. Returns nil when the store is conditional or the helper has several callers.
func c11LiftStore(p *Prog, root *ssa.Function, store ssa.Instruction) ssa.Instruction {
	for d := 0; d < 4 && store.Parent() != root && innermostLoopHeader(store.Block()) == nil; d++ {
		g := store.Parent()
		first := g.Blocks[0].Instrs[0]
		if first != store {
			st := store
			if ok, _ := AllExitsPass(first, func(x ssa.Instruction) bool { return x == st }); !ok {
				return nil
			}
		}
		if !p.staticOnly(g, nil) || len(p.CG.Nodes[g].In) != 1 {
			return nil
		}
		site, ok := p.CG.Nodes[g].In[0].Site.(ssa.Instruction)
		if !ok {
			return nil
		}
		store = site
	}
	return store
}

// condPred: an edge predicate that also sees the parameters of a predicate function as what the call passes for them.
type condPred func(cnd ssa.Value, pol bool, sub func(ssa.Value) ssa.Value) bool

// throughPredicates turns pr into an edge predicate: the edge `cnd == pol` establishes the fact directly, or cnd is a
// call of a package function returning bool and the fact holds whenever that function returns pol: every return that
// can yield pol is either guarded by the fact inside the function or returns a condition (possibly a short-circuit
// chain) that establishes it. Parameters of the function are replaced by the arguments of the call.
func throughPredicates(p *Prog, pr condPred) EdgePred {
	var lift func(sub func(ssa.Value) ssa.Value, depth int) EdgePred
	lift = func(sub func(ssa.Value) ssa.Value, depth int) EdgePred {
		return func(cnd ssa.Value, pol bool) bool {
			if pr(sub(cnd), pol, sub) {
				return true
			}
			call, ok := sub(cnd).(*ssa.Call)
			if !ok || depth == 0 {
				return false
			}
			g := call.Common().StaticCallee()
			if g == nil || g.Blocks == nil || !p.InPkg(g) || g.Signature.Results().Len() != 1 || g.Recover != nil {
				return false
			}
			args := callArgs(call.Common())
			inner := func(v ssa.Value) ssa.Value {
				if pa, isP := v.(*ssa.Parameter); isP && pa.Parent() == g {
					if i := indexOfParam(g, pa); i >= 0 && i < len(args) {
						return sub(args[i])
					}
				}
				return v
			}
			est := lift(inner, depth-1)
			rets := returnsOf(g)
			if len(rets) == 0 {
				return false
			}
			for _, ret := range rets {
				v := res(ret, 0)
				if k, isC := v.(*ssa.Const); isC && k.Value != nil && k.Value.Kind() == constant.Bool {
					if constant.BoolVal(k.Value) != pol {
						continue // this return does not yield pol
					}
					if !Guarded(ret, est) {
						return false
					}
					continue
				}
				c, q := normCond(v, pol)
				ok := est(c, q) || Guarded(ret, est)
				for _, cj := range expandShortCircuit(c, q, 0) {
					ok = ok || est(cj.c, cj.pol)
				}
				if !ok {
					return false
				}
			}
			return true
		}
	}
	return lift(func(v ssa.Value) ssa.Value { return v }, 3)
}
