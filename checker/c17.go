package main

// C17 — escaping filters: finite constant tables extracted from the code and checked exhaustively.
// R-C17-ESC, SLASH, JS, URL, IRI, SAFE.

import (
	"fmt"
	"go/constant"
	"go/token"
	"regexp"
	"sort"
	"strings"
	"unicode/utf8"

	"golang.org/x/tools/go/ssa"
)

func init() { register("C17", checkC17) }

type replPair struct{ Old, New string }

// extractReplacements reads the ordered replacement table applied to `in.String()` by a filter function whose
// result is AsValue(<chain>). Accepted idioms: chains of strings.Replace(…,-1) / strings.ReplaceAll,
// strings.NewReplacer(…).Replace (simultaneous), html.EscapeString.
func extractReplacements(p *Prog, f *ssa.Function) (pairs []replPair, simultaneous bool, base ssa.Value, err string) {
	rets := returnsOf(f)
	if len(rets) != 1 {
		return nil, false, nil, fmt.Sprintf("expected a single return, found %d", len(rets))
	}
	v := res(rets[0], 0)
	c, ok := v.(*ssa.Call)
	if !ok || c.Common().StaticCallee() == nil || (c.Common().StaticCallee().Name() != "AsValue" && c.Common().StaticCallee().Name() != "AsSafeValue") {
		return nil, false, nil, "result is not AsValue(...)/AsSafeValue(...): " + p.VN(v)
	}
	arg := stripConv(c.Common().Args[0])
	// the table may live in a helper (escapeHTML(s string) string) that the filter only wraps
	if hc, isCall := arg.(*ssa.Call); isCall {
		if h := hc.Common().StaticCallee(); h != nil && p.InPkg(h) && h.Blocks != nil && h.Signature.Recv() == nil && h.Signature.Results().Len() == 1 {
			if hr := returnsOf(h); len(hr) == 1 {
				pairs, simultaneous, base, err = extractReplacementChain(p, stripConv(res(hr[0], 0)))
				if err == "" {
					if pa, isP := stripLoad(base).(*ssa.Parameter); isP {
						args := callArgs(hc.Common())
						if i := indexOfParam(h, pa); i < len(args) {
							base = args[i]
						}
					}
					return pairs, simultaneous, base, ""
				}
			}
		}
	}
	return extractReplacementChain(p, arg)
}

// extractReplacementChain reads the replacement table from the text value itself.
func extractReplacementChain(p *Prog, cur ssa.Value) (pairs []replPair, simultaneous bool, base ssa.Value, err string) {
	for {
		call, ok := cur.(*ssa.Call)
		if !ok || call.Common().StaticCallee() == nil {
			break
		}
		name := p.extName(call.Common().StaticCallee())
		args := call.Common().Args
		switch name {
		case "strings.Replace":
			n, isC := constInt(args[3])
			if !isC || n >= 0 {
				return nil, false, nil, "strings.Replace with a count other than -1"
			}
			o, ok1 := constString(args[1])
			nw, ok2 := constString(args[2])
			if !ok1 || !ok2 {
				return nil, false, nil, "non-constant replacement pair"
			}
			pairs = append([]replPair{{o, nw}}, pairs...)
			cur = args[0]
			continue
		case "strings.ReplaceAll":
			o, ok1 := constString(args[1])
			nw, ok2 := constString(args[2])
			if !ok1 || !ok2 {
				return nil, false, nil, "non-constant replacement pair"
			}
			pairs = append([]replPair{{o, nw}}, pairs...)
			cur = args[0]
			continue
		case "html.EscapeString":
			if len(pairs) > 0 {
				return nil, false, nil, "html.EscapeString mixed with other replacements"
			}
			return []replPair{{"&", "&amp;"}, {"'", "&#39;"}, {"<", "&lt;"}, {">", "&gt;"}, {"\"", "&#34;"}}, true, args[0], ""
		case "(*strings.Replacer).Replace":
			if len(pairs) > 0 {
				return nil, false, nil, "Replacer mixed with other replacements"
			}
			nr, ok := args[0].(*ssa.Call)
			if !ok {
				if u, isU := args[0].(*ssa.UnOp); isU {
					if g, isG := u.X.(*ssa.Global); isG {
						nr = globalInitCall(p, g)
					}
				}
			}
			if nr == nil || nr.Common().StaticCallee() == nil || p.extName(nr.Common().StaticCallee()) != "strings.NewReplacer" {
				return nil, false, nil, "Replacer of unknown origin"
			}
			strs, ok2 := constStringSlice(nr.Common().Args[0])
			if !ok2 || len(strs)%2 != 0 {
				return nil, false, nil, "NewReplacer arguments are not constants"
			}
			for i := 0; i < len(strs); i += 2 {
				pairs = append(pairs, replPair{strs[i], strs[i+1]})
			}
			return pairs, true, args[1], ""
		}
		break
	}
	if len(pairs) == 0 {
		return nil, false, cur, "no recognised replacement idiom (strings.Replace/ReplaceAll chain, strings.NewReplacer, html.EscapeString); got " + p.VN(cur)
	}
	return pairs, false, cur, ""
}

func globalInitCall(p *Prog, g *ssa.Global) *ssa.Call {
	var out *ssa.Call
	n := 0
	p.EachInstr(func(f *ssa.Function, in ssa.Instruction) {
		if st, ok := in.(*ssa.Store); ok && st.Addr == ssa.Value(g) {
			n++
			out, _ = st.Val.(*ssa.Call)
		}
	})
	if n != 1 {
		return nil
	}
	return out
}

// constStringSlice reads a []string built from constants (varargs array literal).
func constStringSlice(v ssa.Value) ([]string, bool) {
	sl, ok := v.(*ssa.Slice)
	if !ok {
		return nil, false
	}
	arr, ok := sl.X.(*ssa.Alloc)
	if !ok {
		return nil, false
	}
	vals := map[int64]string{}
	for _, u := range refs(arr) {
		ia, ok := u.(*ssa.IndexAddr)
		if !ok {
			continue
		}
		idx, isC := constInt(ia.Index)
		if !isC {
			return nil, false
		}
		for _, uu := range refs(ia) {
			if st, ok := uu.(*ssa.Store); ok {
				s, isS := constString(st.Val)
				if !isS {
					return nil, false
				}
				vals[idx] = s
			}
		}
	}
	out := make([]string, len(vals))
	for i := range out {
		s, ok := vals[int64(i)]
		if !ok {
			return nil, false
		}
		out[i] = s
	}
	return out, true
}

// isInputString: v is in.String() of the filter's first parameter.
func isInputString(p *Prog, f *ssa.Function, v ssa.Value) bool {
	c, ok := v.(*ssa.Call)
	if !ok || c.Common().StaticCallee() == nil || c.Common().StaticCallee().Name() != "String" || len(c.Common().Args) != 1 {
		return false
	}
	return c.Common().Args[0] == ssa.Value(f.Params[0])
}

func checkC17(p *Prog, r *Report) {
	a := ResolveAnchors(p)
	if !anchorCheck(a, r) {
		return
	}
	// ---- escape / e
	r.Begin("R-C17-ESC", "escape/e: the ordered replacement table covers exactly & < > \" ' with entity replacements, & first (no later step re-escapes an earlier replacement), unambiguous to unescape", 5)
	esc, e := a.FilterFuncs["escape"], a.FilterFuncs["e"]
	switch {
	case esc == nil || e == nil:
		r.Unk("registry", "-", "anchor unresolved: filters registered as \"escape\" and \"e\"")
	case esc != e:
		r.Bad("alias", p.Pos(e.Pos()), "`e` is registered with a different function (%s) than `escape` (%s)", p.FuncName(e), p.FuncName(esc))
	default:
		r.OK("alias", p.Pos(esc.Pos()), "escape and e are the same function %s", p.FuncName(esc))
		checkReplaceTable(p, r, esc, "escape", map[string]bool{"&": true, "<": true, ">": true, "\"": true, "'": true}, func(pr replPair) string {
			if !strings.HasPrefix(pr.New, "&") || !strings.HasSuffix(pr.New, ";") || len(pr.New) < 4 {
				return fmt.Sprintf("replacement %q for %q is not an entity &…;", pr.New, pr.Old)
			}
			if strings.ContainsAny(pr.New, "<>\"'") || strings.Count(pr.New, "&") != 1 {
				return fmt.Sprintf("replacement %q contains a raw special character", pr.New)
			}
			want := map[string][]string{"&": {"&amp;", "&#38;"}, "<": {"&lt;", "&#60;"}, ">": {"&gt;", "&#62;"}, "\"": {"&quot;", "&#34;"}, "'": {"&#39;", "&apos;", "&#x27;"}}
			for _, w := range want[pr.Old] {
				if strings.EqualFold(w, pr.New) {
					return ""
				}
			}
			return fmt.Sprintf("%q is not an HTML entity for %q: unescaping does not give the input back", pr.New, pr.Old)
		})
		// escaped once, also through the template syntax: the result is marked safe, or autoescape escapes the
		// entities again ({{ x|escape }} with x = "<" would print &amp;lt;, which unescapes to &lt; and not to <)
		for _, ret := range returnsOf(esc) {
			c, ok := res(ret, 0).(*ssa.Call)
			if !ok || c.Common().StaticCallee() == nil {
				continue
			}
			if c.Common().StaticCallee().Name() == "AsSafeValue" {
				r.OK("escape:result-safe", p.InstrPos(ret), "the escaped text is marked safe: it is not escaped a second time by autoescape")
			} else {
				r.Bad("escape:result-safe", p.InstrPos(ret), "escape returns its (already escaped) text as an ordinary value: under autoescape {{ x|escape }} is escaped twice and no longer unescapes to the input, while ApplyFilter(\"escape\", x) gives the singly escaped text")
			}
		}
	}

	// ---- addslashes
	r.Begin("R-C17-SLASH", "addslashes: table is exactly \\ → \\\\, \" → \\\", ' → \\', backslash first", 4)
	if f := a.FilterFuncs["addslashes"]; f == nil {
		r.Unk("registry", "-", "anchor unresolved: filter \"addslashes\"")
	} else {
		checkReplaceTable(p, r, f, "addslashes", map[string]bool{"\\": true, "\"": true, "'": true}, func(pr replPair) string {
			if pr.New != "\\"+pr.Old {
				return fmt.Sprintf("%q is replaced by %q, not by backslash + itself", pr.Old, pr.New)
			}
			return ""
		})
	}

	ruleC17JS(p, a, r)
	ruleC17URL(p, a, r)
	ruleC17Strip(p, a, r)
	ruleC17TagNames(p, a, r)
	ruleC17Once(p, a, r)

	// ---- safe
	r.Begin("R-C17-SAFE", "safe returns its input itself, unchanged, with a nil error", 1)
	if f := a.FilterFuncs["safe"]; f == nil {
		r.Unk("registry", "-", "anchor unresolved: filter \"safe\"")
	} else {
		ok := true
		for _, ret := range returnsOf(f) {
			if res(ret, 0) != ssa.Value(f.Params[0]) || !isNilConst(res(ret, 1)) {
				ok = false
				r.Bad("safe:identity", p.InstrPos(ret), "safe returns %s, %s instead of its input and nil", p.VN(res(ret, 0)), p.VN(res(ret, 1)))
			}
		}
		if ok {
			r.OK("safe:identity", p.Pos(f.Pos()), "every return is (in, nil)")
		}
	}
}

// checkReplaceTable extracts and checks one sequential replacement table.
func checkReplaceTable(p *Prog, r *Report, f *ssa.Function, name string, want map[string]bool, perPair func(replPair) string) {
	pairs, simultaneous, base, err := extractReplacements(p, f)
	pos := p.Pos(f.Pos())
	if err != "" {
		r.Unk(name+":table", pos, "cannot read the replacement table of %s: %s", p.FuncName(f), err)
		return
	}
	if !isInputString(p, f, base) {
		r.Bad(name+":input", pos, "the replacements are applied to %s, not to in.String()", p.VN(base))
	} else {
		r.OK(name+":input", pos, "table applied to in.String()")
	}
	got := map[string]bool{}
	for _, pr := range pairs {
		if got[pr.Old] {
			r.Bad(name+":set", pos, "%q is replaced twice", pr.Old)
		}
		got[pr.Old] = true
	}
	var missing, extra []string
	for w := range want {
		if !got[w] {
			missing = append(missing, w)
		}
	}
	for g := range got {
		if !want[g] {
			extra = append(extra, g)
		}
	}
	sort.Strings(missing)
	sort.Strings(extra)
	if len(missing)+len(extra) > 0 {
		r.Bad(name+":set", pos, "the replaced strings are not exactly the promised set: missing %q, unexpected %q", missing, extra)
	} else {
		r.OK(name+":set", pos, "replaces exactly %d strings: %v", len(pairs), pairs)
	}
	for _, pr := range pairs {
		if msg := perPair(pr); msg != "" {
			r.Bad(name+":pair "+pr.Old, pos, "%s", msg)
		} else {
			r.OK(name+":pair "+pr.Old, pos, "%q → %q", pr.Old, pr.New)
		}
	}
	// sequential non-interference: no replacement text contains a string replaced by a LATER step
	if !simultaneous {
		bad := ""
		for i, pr := range pairs {
			for _, later := range pairs[i+1:] {
				if strings.Contains(pr.New, later.Old) {
					bad = fmt.Sprintf("the replacement %q of step %d contains %q, which a later step replaces again (double escaping)", pr.New, i+1, later.Old)
				}
			}
			// an earlier step must not create an `Old` of this step out of thin air either
			for _, earlier := range pairs[:i] {
				if strings.Contains(earlier.New, pr.Old) {
					bad = fmt.Sprintf("step %d replaces %q, which the earlier replacement %q introduces", i+1, pr.Old, earlier.New)
				}
			}
		}
		if bad != "" {
			r.Bad(name+":order", pos, "%s", bad)
		} else {
			r.OK(name+":order", pos, "sequential application is equivalent to simultaneous replacement (no step touches text produced by another)")
		}
	} else {
		r.OK(name+":order", pos, "simultaneous replacement idiom")
	}
	// unambiguous: replacements pairwise distinct and none a prefix of another
	amb := ""
	for i, x := range pairs {
		for j, y := range pairs {
			if i != j && strings.HasPrefix(x.New, y.New) {
				amb = fmt.Sprintf("%q is a prefix of %q", y.New, x.New)
			}
		}
	}
	if amb != "" {
		r.Bad(name+":unambiguous", pos, "%s: the output cannot be decoded uniquely", amb)
	} else {
		r.OK(name+":unambiguous", pos, "replacements are pairwise distinct and prefix-free")
	}
}

// ---- escapejs -----------------------------------------------------------

type ivl struct{ lo, hi int64 } // inclusive

type runeSet []ivl

func fullRunes() runeSet { return runeSet{{0, utf8.MaxRune}} }

func (s runeSet) norm() runeSet {
	sort.Slice(s, func(i, j int) bool { return s[i].lo < s[j].lo })
	var out runeSet
	for _, x := range s {
		if x.lo > x.hi {
			continue
		}
		if len(out) > 0 && x.lo <= out[len(out)-1].hi+1 {
			if x.hi > out[len(out)-1].hi {
				out[len(out)-1].hi = x.hi
			}
			continue
		}
		out = append(out, x)
	}
	return out
}

func (s runeSet) and(lo, hi int64) runeSet {
	var out runeSet
	for _, x := range s {
		l, h := x.lo, x.hi
		if lo > l {
			l = lo
		}
		if hi < h {
			h = hi
		}
		if l <= h {
			out = append(out, ivl{l, h})
		}
	}
	return out
}

func (s runeSet) union(o runeSet) runeSet { return append(append(runeSet{}, s...), o...).norm() }

func (s runeSet) equal(o runeSet) bool {
	a, b := s.norm(), o.norm()
	if len(a) != len(b) {
		return false
	}
	for i := range a {
		if a[i] != b[i] {
			return false
		}
	}
	return true
}

func (s runeSet) String() string {
	var parts []string
	for _, x := range s.norm() {
		if x.lo == x.hi {
			parts = append(parts, fmt.Sprintf("%q", rune(x.lo)))
		} else {
			parts = append(parts, fmt.Sprintf("%q-%q", rune(x.lo), rune(x.hi)))
		}
	}
	return "{" + strings.Join(parts, ",") + "}"
}

// restrict applies (c op K) with truth value pol to the set.
func restrict(s runeSet, op token.Token, k int64, pol bool) runeSet {
	if !pol {
		switch op {
		case token.EQL:
			op = token.NEQ
		case token.NEQ:
			op = token.EQL
		case token.LSS:
			op = token.GEQ
		case token.LEQ:
			op = token.GTR
		case token.GTR:
			op = token.LEQ
		case token.GEQ:
			op = token.LSS
		}
	}
	switch op {
	case token.EQL:
		return s.and(k, k)
	case token.NEQ:
		return s.and(0, k-1).union(s.and(k+1, utf8.MaxRune))
	case token.LSS:
		return s.and(0, k-1)
	case token.LEQ:
		return s.and(0, k)
	case token.GTR:
		return s.and(k+1, utf8.MaxRune)
	case token.GEQ:
		return s.and(k, utf8.MaxRune)
	}
	return s
}

// runesReaching computes, for rune-typed SSA value c, the set of values of c with which each block can be reached
// from c's defining block (forward dataflow over comparisons of c with constants; other conditions split nothing).
func runesReaching(c ssa.Value, start *ssa.BasicBlock) map[*ssa.BasicBlock]runeSet {
	return runesReachingFrom(c, start, fullRunes())
}

// runesReachingFrom: the same with the set of values c can have on entry to `start` given (a helper's rune parameter
// at the helper's entry block: the set with which the caller's rune reaches the call).
func runesReachingFrom(c ssa.Value, start *ssa.BasicBlock, init runeSet) map[*ssa.BasicBlock]runeSet {
	state := map[*ssa.BasicBlock]runeSet{start: init}
	// edge[{b, s}]: the values of c with which control goes from b to s. A condition that is a phi of a short-circuit
	// expression used as a value (`case a || b:` of a tagless switch) is decided per incoming edge of the phi's block.
	edge := map[[2]*ssa.BasicBlock]runeSet{}
	// chaotic iteration to the fixpoint (sets only grow; a split on a phi defined in an earlier block depends on edges
	// that are not this block's own, so every reached block is revisited until nothing changes)
	for round, changed := 0, true; changed && round < 1000; round++ {
		changed = false
		for _, b := range start.Parent().Blocks {
			cur, reached := state[b]
			if !reached {
				continue
			}
			var onTrue, onFalse runeSet
			iff, isIf := b.Instrs[len(b.Instrs)-1].(*ssa.If)
			split := isIf && len(b.Succs) == 2 && b.Succs[0] != b.Succs[1]
			if split {
				onTrue, onFalse = runeSplit(c, iff.Cond, cur, start, edge, 0)
			}
			for i, s := range b.Succs {
				if s == start || !start.Dominates(s) {
					continue // next iteration / outside the region where c is this value
				}
				out := cur
				if split {
					if i == 0 {
						out = onTrue
					} else {
						out = onFalse
					}
				}
				key := [2]*ssa.BasicBlock{b, s}
				old, seen := edge[key]
				if seen && out.equal(old) {
					continue
				}
				changed = true
				edge[key] = old.union(out)
				merged := state[s].union(out)
				if len(merged) == 0 {
					merged = runeSet{}
				}
				state[s] = merged
			}
		}
	}
	return state
}

func flipOp(op token.Token) token.Token {
	switch op {
	case token.LSS:
		return token.GTR
	case token.GTR:
		return token.LSS
	case token.LEQ:
		return token.GEQ
	case token.GEQ:
		return token.LEQ
	}
	return op
}

func constIntOrRune(v ssa.Value) (int64, bool) {
	c, ok := stripConv(v).(*ssa.Const)
	if !ok || c.Value == nil || c.Value.Kind() != constant.Int {
		return 0, false
	}
	i, exact := constant.Int64Val(c.Value)
	return i, exact
}

func ruleC17JS(p *Prog, a *Anchors, r *Report) {
	r.Begin("R-C17-JS", "escapejs: the runes written raw are exactly [A-Za-z], space and /; everything else goes through a constant \\uXXXX format", 2)
	f := a.FilterFuncs["escapejs"]
	if f == nil {
		r.Unk("registry", "-", "anchor unresolved: filter \"escapejs\"")
		return
	}
	want := runeSet{{'a', 'z'}, {'A', 'Z'}, {' ', ' '}, {'/', '/'}}
	nRaw, nFmt := 0, 0
	// the rune variable: result #0 of utf8.DecodeRuneInString (or the range value): what the filter itself writes raw,
	// or what it hands to the per-rune writer it has been split into
	rawRune := jsRawRune(p, f)
	// scan judges the sinks of one unit: the filter function itself, or a helper the per-rune writing was moved into
	// (fn is then the helper, rawRune its parameter that stands for the rune just read, and reach the values of that
	// rune per block of fn, starting from the set with which the caller reaches the call).
	var scan func(fn *ssa.Function, rawRune ssa.Value, reach map[*ssa.BasicBlock]runeSet, depth int)
	scan = func(fn *ssa.Function, rawRune ssa.Value, reach map[*ssa.BasicBlock]runeSet, depth int) {
		for _, b := range fn.Blocks {
			for _, in := range b.Instrs {
				c, ok := in.(*ssa.Call)
				if !ok || c.Common().StaticCallee() == nil {
					continue
				}
				name := p.extName(c.Common().StaticCallee())
				switch name {
				case "(*bytes.Buffer).WriteRune", "(*strings.Builder).WriteRune":
					nRaw++
					cv := c.Common().Args[1]
					var got runeSet
					if cv == rawRune && reach != nil {
						got = reach[b]
					} else {
						def, ok := cv.(ssa.Instruction)
						if !ok {
							r.Unk("escapejs:raw", p.InstrPos(in), "the raw rune is not a local value")
							continue
						}
						got = runesReaching(cv, def.Block())[b]
					}
					if got.equal(want) {
						r.OK("escapejs:raw", p.InstrPos(in), "raw set is %s", got.String())
					} else {
						r.Bad("escapejs:raw", p.InstrPos(in), "runes written unescaped are %s, promised %s", got.String(), want.String())
					}
				case "(*bytes.Buffer).WriteString", "(*strings.Builder).WriteString":
					arg := c.Common().Args[1]
					sp, ok := arg.(*ssa.Call)
					if ok && sp.Common().StaticCallee() != nil && p.extName(sp.Common().StaticCallee()) == "fmt.Sprintf" {
						if fs, isC := constString(sp.Common().Args[0]); isC && (fs == `\u%04X\u%04X` || fs == `\u%04x\u%04x`) {
							// a surrogate pair: both halves are the results of utf16.EncodeRune(<the rune just read>)
							nFmt++
							vals := varargValues(sp.Common().Args[1])
							pairOK := len(vals) == 2
							for i, v := range vals {
								ex, isEx := v.(*ssa.Extract)
								if !isEx || ex.Index != i {
									pairOK = false
									continue
								}
								ec, isCall := ex.Tuple.(*ssa.Call)
								if !isCall || ec.Common().StaticCallee() == nil || p.extName(ec.Common().StaticCallee()) != "unicode/utf16.EncodeRune" || ec.Common().Args[0] != rawRune {
									pairOK = false
								}
							}
							if pairOK {
								r.OK("escapejs:escaped:pair", p.InstrPos(in), "writes the UTF-16 surrogate pair of the rune just read, four digits each")
							} else {
								r.Bad("escapejs:escaped:pair", p.InstrPos(in), "a two-escape format is written with arguments that are not utf16.EncodeRune(<the rune just read>)")
							}
							continue
						}
						if fs, isC := constString(sp.Common().Args[0]); isC && (fs == `\u%04X` || fs == `\u%04x`) {
							nFmt++
							vals := varargValues(sp.Common().Args[1])
							if len(vals) == 1 && vals[0] != nil && vals[0] == rawRune {
								// %04X is a minimum width: the rune must fit four hex digits here
								if reach != nil {
									got := reach[b]
									var maxR int64 = -1
									for _, iv := range got {
										if iv.hi > maxR {
											maxR = iv.hi
										}
									}
									if maxR > 0xFFFF {
										r.Bad("escapejs:escaped:width", p.InstrPos(in), "the rune written with %q can be as large as U+%X here: above U+FFFF the escape gets five or six digits, which JavaScript reads as a four-digit escape followed by text", fs, maxR)
									} else {
										r.OK("escapejs:escaped:width", p.InstrPos(in), "the rune is at most U+%X here: exactly four digits", maxR)
									}
								}
								r.OK("escapejs:escaped", p.InstrPos(in), "writes Sprintf(%q, <the rune just read>)", fs)
							} else if len(vals) == 1 && vals[0] != nil {
								r.Bad("escapejs:escaped:"+p.VN(vals[0]), p.InstrPos(in), "writes the escape of %s, not of the character just read: the output does not decode to the input's characters", p.VN(vals[0]))
							} else {
								r.Unk("escapejs:escaped", p.InstrPos(in), "cannot read the Sprintf argument")
							}
							continue
						}
					}
					if s, isC := constString(arg); isC && isUEscapes(s) {
						nFmt++
						r.OK("escapejs:escaped", p.InstrPos(in), "writes the constant escape %q", s)
						continue
					}
					r.Bad("escapejs:escaped", p.InstrPos(in), "escapejs writes %s, which is neither a raw whitelisted rune nor a \\uXXXX escape", p.VN(arg))
				case "(*bytes.Buffer).WriteByte", "(*bytes.Buffer).Write":
					r.Bad("escapejs:other", p.InstrPos(in), "escapejs writes raw bytes through %s", name)
				default:
					// a package helper that is handed the buffer (or the rune just read): its sinks are sinks of the
					// filter, judged with the helper's parameter standing for the rune and the set of values the rune
					// can have at this call
					h, runeParam, isUnit := jsWriterUnit(p, c, rawRune)
					if !isUnit || depth >= 3 || h == fn || h == f {
						continue
					}
					var hreach map[*ssa.BasicBlock]runeSet
					if runeParam != nil {
						init := fullRunes()
						if reach != nil {
							init = reach[b]
						}
						hreach = runesReachingFrom(runeParam, h.Blocks[0], init)
					}
					var hr ssa.Value
					if runeParam != nil {
						hr = runeParam
					}
					scan(h, hr, hreach, depth+1)
				}
			}
		}
	}
	var reach map[*ssa.BasicBlock]runeSet
	if def, isDef := rawRune.(ssa.Instruction); isDef {
		reach = runesReaching(rawRune, def.Block())
	}
	scan(f, rawRune, reach, 0)
	// nothing is dropped: between decoding a rune and going round the loop again something is written
	for _, b := range f.Blocks {
		for i, in := range b.Instrs {
			c, ok := in.(*ssa.Call)
			if !ok || c.Common().StaticCallee() == nil || !strings.HasPrefix(p.extName(c.Common().StaticCallee()), "unicode/utf8.DecodeRune") {
				continue
			}
			var hdr *ssa.BasicBlock
			for _, h := range f.Blocks {
				if !h.Dominates(b) {
					continue
				}
				for _, pr := range h.Preds {
					if h.Dominates(pr) && (hdr == nil || hdr.Dominates(h)) {
						hdr = h
					}
				}
			}
			if hdr == nil {
				continue
			}
			first := hdr.Instrs[0]
			isWrite := func(x ssa.Instruction) bool { return jsIsWrite(p, x, 0) }
			if MustPassFrom(b, i+1, first, isWrite) {
				r.OK("escapejs:nothing-dropped", p.InstrPos(in), "every decoded rune leads to a write before the next one is read")
			} else {
				r.Bad("escapejs:nothing-dropped", p.InstrPos(in), "a decoded rune can be skipped without anything being written (e.g. U+FFFD, which is also what a genuine replacement character decodes to): the output does not decode to the input's characters")
			}
		}
	}
	if nRaw == 0 || nFmt == 0 {
		r.Unk("escapejs:shape", p.Pos(f.Pos()), "expected a raw WriteRune sink and a \\uXXXX sink (found %d/%d): idiom not recognised", nRaw, nFmt)
	}
}

func isUEscapes(s string) bool {
	if len(s) == 0 || len(s)%6 != 0 {
		return false
	}
	for i := 0; i < len(s); i += 6 {
		if s[i] != '\\' || s[i+1] != 'u' {
			return false
		}
		for _, c := range s[i+2 : i+6] {
			if !strings.ContainsRune("0123456789ABCDEFabcdef", c) {
				return false
			}
		}
	}
	return true
}

func ruleC17URL(p *Prog, a *Anchors, r *Report) {
	r.Begin("R-C17-URL", "urlencode is url.QueryEscape of the input; iriencode passes a rune raw iff it is in the constant reserved set (= the specification) and query-escapes every other rune", 3)
	if f := a.FilterFuncs["urlencode"]; f == nil {
		r.Unk("registry:urlencode", "-", "anchor unresolved")
	} else {
		ok := false
		rets := returnsOf(f)
		if len(rets) == 1 {
			if c, isC := res(rets[0], 0).(*ssa.Call); isC && c.Common().StaticCallee() != nil && c.Common().StaticCallee().Name() == "AsValue" {
				if q, isQ := stripConv(c.Common().Args[0]).(*ssa.Call); isQ && q.Common().StaticCallee() != nil && p.extName(q.Common().StaticCallee()) == "net/url.QueryEscape" && isInputString(p, f, q.Common().Args[0]) {
					ok = true
				}
			}
		}
		if ok {
			r.OK("urlencode", p.Pos(f.Pos()), "AsValue(url.QueryEscape(in.String()))")
		} else {
			r.Bad("urlencode", p.Pos(f.Pos()), "urlencode is not exactly url.QueryEscape of the input string")
		}
	}
	f := a.FilterFuncs["iriencode"]
	if f == nil {
		r.Unk("registry:iriencode", "-", "anchor unresolved")
		return
	}
	const spec = "/#%[]=:;$&()+,!?*@'~"
	nRaw, nEsc := 0, 0
	for _, b := range f.Blocks {
		for _, in := range b.Instrs {
			c, ok := in.(*ssa.Call)
			if !ok || c.Common().StaticCallee() == nil {
				continue
			}
			switch p.extName(c.Common().StaticCallee()) {
			case "(*bytes.Buffer).WriteRune", "(*strings.Builder).WriteRune":
				nRaw++
				rv := c.Common().Args[1]
				var set string
				g := Guarded(in, func(cond ssa.Value, pol bool) bool {
					cc, ok := cond.(*ssa.Call)
					if !ok || !pol || cc.Common().StaticCallee() == nil || p.extName(cc.Common().StaticCallee()) != "strings.ContainsRune" {
						return false
					}
					if cc.Common().Args[1] != rv {
						return false
					}
					s, isC := constString(cc.Common().Args[0])
					if !isC {
						return false
					}
					set = s
					return true
				})
				switch {
				case !g:
					r.Bad("iriencode:raw", p.InstrPos(in), "a rune is written raw without having been found in a constant reserved set (strings.ContainsRune(<const>, r))")
				case sortedRunes(set) != sortedRunes(spec):
					r.Bad("iriencode:raw", p.InstrPos(in), "reserved set is %q, specification is %q", set, spec)
				default:
					r.OK("iriencode:raw", p.InstrPos(in), "raw iff r ∈ %q", set)
				}
			case "(*bytes.Buffer).WriteString", "(*strings.Builder).WriteString":
				arg := c.Common().Args[1]
				q, ok := arg.(*ssa.Call)
				if ok && q.Common().StaticCallee() != nil && p.extName(q.Common().StaticCallee()) == "net/url.QueryEscape" {
					nEsc++
					r.OK("iriencode:escaped", p.InstrPos(in), "other runes are written as url.QueryEscape(string(r))")
				} else {
					r.Bad("iriencode:escaped", p.InstrPos(in), "iriencode writes %s, which is neither a reserved rune nor a query-escaped one", p.VN(arg))
				}
			case "(*bytes.Buffer).WriteByte", "(*bytes.Buffer).Write":
				r.Bad("iriencode:other", p.InstrPos(in), "iriencode writes raw bytes")
			}
		}
	}
	if nRaw != 1 || nEsc != 1 {
		r.Unk("iriencode:shape", p.Pos(f.Pos()), "expected one raw sink behind ContainsRune and one QueryEscape sink, found %d/%d: idiom not recognised", nRaw, nEsc)
	}
	// the loop ranges over the input string (by rune)
	okRange := false
	for _, b := range f.Blocks {
		for _, in := range b.Instrs {
			if rg, ok := in.(*ssa.Range); ok && isInputString(p, f, rg.X) {
				okRange = true
			}
		}
	}
	if okRange {
		r.OK("iriencode:runes", p.Pos(f.Pos()), "iterates over the runes of in.String()")
	} else {
		r.Bad("iriencode:runes", p.Pos(f.Pos()), "iriencode does not range over the runes of its input")
	}
}

func sortedRunes(s string) string {
	rs := []rune(s)
	sort.Slice(rs, func(i, j int) bool { return rs[i] < rs[j] })
	return string(rs)
}

// varargValues reads the values of a varargs slice literal (new [N]any; stores; slice), unwrapping interfaces.
func varargValues(v ssa.Value) []ssa.Value {
	sl, ok := v.(*ssa.Slice)
	if !ok {
		return nil
	}
	arr, ok := sl.X.(*ssa.Alloc)
	if !ok {
		return nil
	}
	vals := map[int64]ssa.Value{}
	for _, u := range refs(arr) {
		ia, ok := u.(*ssa.IndexAddr)
		if !ok {
			continue
		}
		idx, isC := constInt(ia.Index)
		if !isC {
			return nil
		}
		for _, uu := range refs(ia) {
			if st, ok := uu.(*ssa.Store); ok {
				vals[idx] = stripConv(st.Val)
			}
		}
	}
	out := make([]ssa.Value, len(vals))
	for i := range out {
		out[i] = vals[int64(i)]
	}
	return out
}

// ruleC17Strip: striptags removes what one constant regular expression matches, in one pass. The pattern is read from
// the source and its effect is decided on ALL strings up to length 7 over the alphabet {<, >, a, /, space}: the result
// of removing every match must not contain a complete tag (a '<' … '>' pair without angle brackets in between) —
// e.g. an innermost-match pattern glues `<scr<i>ipt>` together into `<script>`. (The pattern is a constant; evaluating
// what it denotes is table evaluation, no code of the engine is run.)
func ruleC17Strip(p *Prog, a *Anchors, r *Report) {
	r.Begin("R-C17-STRIP", "striptags: one ReplaceAllString(pattern, \"\") over the input; for every string up to length 7 over {<,>,a,/,space} the result contains no complete tag", 2)
	f := a.FilterFuncs["striptags"]
	if f == nil {
		r.Unk("registry:striptags", "-", "anchor unresolved")
		return
	}
	var calls []*ssa.Call
	for _, b := range f.Blocks {
		for _, in := range b.Instrs {
			if c, ok := in.(*ssa.Call); ok && c.Common().StaticCallee() != nil && strings.HasPrefix(p.extName(c.Common().StaticCallee()), "(*regexp.Regexp).") {
				calls = append(calls, c)
			}
		}
	}
	if len(calls) != 1 || p.extName(calls[0].Common().StaticCallee()) != "(*regexp.Regexp).ReplaceAllString" {
		r.Unk("striptags:shape", p.Pos(f.Pos()), "expected exactly one (*regexp.Regexp).ReplaceAllString call, found %d regexp calls", len(calls))
		return
	}
	c := calls[0]
	args := c.Common().Args
	repl, isC := constString(args[2])
	if !isInputString(p, f, args[1]) || !isC || repl != "" {
		r.Bad("striptags:shape", p.InstrPos(c), "the pattern is not applied to the input string with the empty replacement (src %s, repl %s)", p.VN(args[1]), p.VN(args[2]))
		return
	}
	r.OK("striptags:shape", p.InstrPos(c), "ReplaceAllString(in.String(), \"\")")
	// the pattern
	pat := ""
	if u, ok := args[0].(*ssa.UnOp); ok {
		if g, ok := u.X.(*ssa.Global); ok {
			if ic := globalInitCall(p, g); ic != nil && ic.Common().StaticCallee() != nil && strings.HasPrefix(p.extName(ic.Common().StaticCallee()), "regexp.MustCompile") {
				pat, _ = constString(ic.Common().Args[0])
			}
		}
	}
	if ic, ok := args[0].(*ssa.Call); ok && ic.Common().StaticCallee() != nil && strings.HasPrefix(p.extName(ic.Common().StaticCallee()), "regexp.MustCompile") {
		pat, _ = constString(ic.Common().Args[0])
	}
	if pat == "" {
		r.Unk("striptags:pattern", p.InstrPos(c), "the pattern is not a constant compiled by regexp.MustCompile (%s)", p.VN(args[0]))
		return
	}
	re, err := regexp.Compile(pat)
	if err != nil {
		r.Bad("striptags:pattern", p.InstrPos(c), "pattern %q does not compile: %v", pat, err)
		return
	}
	tag := regexp.MustCompile("<[^<>]*>")
	alphabet := []byte("<>a/ ")
	var witness, witnessOut string
	n := 0
	var gen func(buf []byte, left int)
	gen = func(buf []byte, left int) {
		if witness != "" {
			return
		}
		n++
		out := re.ReplaceAllString(string(buf), "")
		if tag.MatchString(out) {
			witness, witnessOut = string(buf), out
			return
		}
		if left == 0 {
			return
		}
		for _, ch := range alphabet {
			gen(append(buf, ch), left-1)
		}
	}
	gen(nil, 7)
	if witness != "" {
		r.Bad("striptags:pattern", p.InstrPos(c), "pattern %q: striptags(%q) = %q still contains a complete tag", pat, witness, witnessOut)
	} else {
		r.OK("striptags:pattern", p.InstrPos(c), "pattern %q leaves no complete tag on any of %d strings up to length 7", pat, n)
	}
}

// ruleC17TagNames: removetags validates each requested tag name with a constant pattern before building a regular
// expression from it. The pattern must accept HTML tag names (a letter followed by letters/digits) and nothing that
// would change the meaning of the expression built from it. Decided on all strings up to length 3 over {a, Z, 1, -, <, |, .}.
func ruleC17TagNames(p *Prog, a *Anchors, r *Report) {
	r.Begin("R-C17-TAGNAME", "removetags: the name-validation pattern accepts exactly letter(letter|digit)* on all strings up to length 3 over {a,Z,1,-,<,|,.} — every ordinary tag name can be removed and no regexp metacharacter gets into the expression built from the name", 1)
	f := a.FilterFuncs["removetags"]
	if f == nil {
		r.Unk("registry:removetags", "-", "anchor unresolved")
		return
	}
	// the validation: MatchString of a constant pattern, in the filter function or in the helper of its cluster the
	// validation loop over the names was moved into
	pats := tagnamePatterns(p, f)
	if len(pats) == 0 {
		r.Unk("removetags:pattern", p.Pos(f.Pos()), "no constant validation pattern found")
		return
	}
	for _, pat := range pats {
		re, err := regexp.Compile(pat)
		if err != nil {
			r.Bad("removetags:pattern", p.Pos(f.Pos()), "pattern %q does not compile", pat)
			return
		}
		ref := regexp.MustCompile(`^[a-zA-Z][a-zA-Z0-9]*$`)
		alphabet := []string{"a", "Z", "1", "-", "<", "|", "."}
		var bad string
		n := 0
		var gen func(prefix string, left int)
		gen = func(prefix string, left int) {
			if bad != "" {
				return
			}
			n++
			if re.MatchString(prefix) != ref.MatchString(prefix) {
				bad = prefix
				return
			}
			if left == 0 {
				return
			}
			for _, ch := range alphabet {
				gen(prefix+ch, left-1)
			}
		}
		gen("", 3)
		if bad != "" {
			r.Bad("removetags:pattern", p.Pos(f.Pos()), "pattern %q says %v for the tag name %q, a tag name is letter(letter|digit)*: %s", pat, re.MatchString(bad), bad, map[bool]string{true: "such a name puts regexp syntax into the expression built from it", false: "tags with that name can never be removed"}[re.MatchString(bad)])
		} else {
			r.OK("removetags:pattern", p.Pos(f.Pos()), "pattern %q agrees with letter(letter|digit)* on %d strings", pat, n)
		}
	}
	// every name is validated: in the loop over the names, no pass reaches the next one (or leaves the loop) without the
	// validation call — a name that is skipped (`if tag == "" { continue }`) still ends up in the expression joined
	// from the unfiltered list, and an empty alternative matches `<>` and `</>`
	for _, fn := range clusterOf(p, f, 2) {
		for _, b := range fn.Blocks {
			for _, in := range b.Instrs {
				c, ok := in.(*ssa.Call)
				if !ok || c.Common().StaticCallee() == nil || p.extName(c.Common().StaticCallee()) != "(*regexp.Regexp).MatchString" {
					continue
				}
				hdr := innermostLoopHeader(b)
				if hdr == nil {
					continue
				}
				skipped := false
				for _, pr := range hdr.Preds {
					if !hdr.Dominates(pr) {
						continue
					}
					if !MustPassFrom(hdr, 0, pr.Instrs[len(pr.Instrs)-1], func(x ssa.Instruction) bool { return x == ssa.Instruction(c) }) {
						skipped = true
					}
				}
				if skipped {
					r.Bad("removetags:every-name", p.InstrPos(in), "a pass of the loop over the tag names can go on to the next name without the validation call: a name that is skipped (an empty one, from \"b,i,\") is still part of the list the expression is built from — `</?(?:i|)/?>` also removes `<>` and `</>`, which nobody named")
				} else {
					r.OK("removetags:every-name", p.InstrPos(in), "every pass of the loop over the names goes through the validation")
				}
			}
		}
	}
	// the expression built from the names: instantiated for the names a and b and evaluated on all strings of up to 7
	// items over {<, >, /, a, b, -, x, space}: every plain named tag (<a>, </a>, <a/>) is matched, and everything that is
	// matched is a tag named a or b (name followed by `>`, `/` or white space) — `<ab>`, `<a-b>`, `<x>` and text stay.
	// (Whether a named tag WITH attributes is removed is left open.)
	func() {
		for _, b := range f.Blocks {
			for _, in := range b.Instrs {
				c, ok := in.(*ssa.Call)
				if !ok || c.Common().StaticCallee() == nil {
					continue
				}
				if n := p.extName(c.Common().StaticCallee()); n != "regexp.Compile" && n != "regexp.MustCompile" {
					continue
				}
				key := "removetags:expression"
				sp, isCall := c.Common().Args[0].(*ssa.Call)
				if !isCall || sp.Common().StaticCallee() == nil || p.extName(sp.Common().StaticCallee()) != "fmt.Sprintf" {
					r.Assume(key, p.InstrPos(in), "the expression is not built by fmt.Sprintf from a constant format: not evaluated")
					continue
				}
				format, okF := constString(sp.Common().Args[0])
				if !okF || strings.Count(format, "%s") != 1 || strings.Count(format, "%") != 1 {
					r.Assume(key, p.InstrPos(in), "the format is not a constant with exactly one %%s: not evaluated")
					continue
				}
				sep := ""
				foundJoin := false
				for _, bb := range f.Blocks {
					for _, x := range bb.Instrs {
						if jc, isJ := x.(*ssa.Call); isJ && jc.Common().StaticCallee() != nil && p.extName(jc.Common().StaticCallee()) == "strings.Join" {
							if sv, okS := constString(jc.Common().Args[1]); okS {
								sep, foundJoin = sv, true
							}
						}
					}
				}
				inst := "a"
				if foundJoin {
					inst = "a" + sep + "b"
				}
				pat := strings.Replace(format, "%s", inst, 1)
				re, err := regexp.Compile(pat)
				if err != nil {
					r.Bad(key, p.InstrPos(in), "the expression %q (format %q for the names a, b) does not compile", pat, format)
					continue
				}
				names := "(?:a)"
				if foundJoin {
					names = "(?:a|b)"
				}
				plain := regexp.MustCompile(`</?` + names + `/?>`)
				isNamedTag := regexp.MustCompile(`^</?` + names + `(?:[ \t\n][^<>]*)?/?>$`)
				alphabet := []string{"<", ">", "/", "a", "b", "-", "x", " "}
				bad := ""
				count := 0
				var gen func(prefix string, left int)
				gen = func(prefix string, left int) {
					if bad != "" {
						return
					}
					count++
					ms := re.FindAllStringIndex(prefix, -1)
					for _, m := range ms {
						if !isNamedTag.MatchString(prefix[m[0]:m[1]]) {
							bad = fmt.Sprintf("in %q it removes %q, which is not a tag named a or b", prefix, prefix[m[0]:m[1]])
							return
						}
					}
					for _, pm := range plain.FindAllStringIndex(prefix, -1) {
						covered := false
						for _, m := range ms {
							if m[0] <= pm[0] && pm[1] <= m[1] {
								covered = true
							}
						}
						if !covered {
							bad = fmt.Sprintf("in %q the named tag %q is not removed", prefix, prefix[pm[0]:pm[1]])
							return
						}
					}
					if left == 0 {
						return
					}
					for _, ch := range alphabet {
						gen(prefix+ch, left-1)
					}
				}
				gen("", 7)
				if bad != "" {
					r.Bad(key, p.InstrPos(in), "the expression built from the names (%q for a, b): %s", pat, bad)
				} else {
					r.OK(key, p.InstrPos(in), "%q (for the names a, b) matches every plain named tag and nothing that is not a tag of that name, on %d strings", pat, count)
				}
			}
		}
	}()
	// "removes only the named tags": what is returned is the input text after removals by the tag expression(s) and
	// nothing else (no trimming, no other rewriting), and the removal happens in ONE pass over the text — applying one
	// expression per name in turn lets the removal of one tag assemble another from the text around it
	// ("<<b>i>" with b,i loses its "<i>", with i,b it keeps it)
	for _, fn := range clusterOf(p, f, 1) {
		if fn != f {
			continue
		}
		for _, ret := range returnsOf(f) {
			if len(ret.Results) < 2 || !isNilConst(res(ret, 1)) {
				continue
			}
			c, ok := res(ret, 0).(*ssa.Call)
			if !ok || c.Common().StaticCallee() == nil || len(c.Common().Args) != 1 {
				r.Unk("removetags:only-tags", p.InstrPos(ret), "cannot recognise the value returned")
				continue
			}
			v := c.Common().Args[0]
			if mi, isMI := v.(*ssa.MakeInterface); isMI {
				v = mi.X
			}
			other, nRepl, inLoopRepl := "", 0, false
			seen := map[ssa.Value]bool{}
			var walk func(v ssa.Value)
			walk = func(v ssa.Value) {
				if seen[v] {
					return
				}
				seen[v] = true
				switch x := v.(type) {
				case *ssa.Phi:
					for _, e := range x.Edges {
						walk(e)
					}
				case *ssa.Call:
					cal := x.Common().StaticCallee()
					switch {
					case cal != nil && p.extName(cal) == "(*regexp.Regexp).ReplaceAllString":
						nRepl++
						if inLoop(x) {
							inLoopRepl = true
						}
						if rs, isC := constString(x.Common().Args[2]); !isC || rs != "" {
							other = "replacement text " + p.VN(x.Common().Args[2])
						}
						walk(x.Common().Args[1])
					case cal != nil && cal.Name() == "String" && p.InPkg(cal):
						// in.String(): the input text
					default:
						other = p.VN(x)
					}
				default:
					other = p.VN(v)
				}
			}
			walk(v)
			switch {
			case other != "":
				r.Bad("removetags:only-tags", p.InstrPos(ret), "the returned text went through %s besides the removal of the named tags: text that is no tag (surrounding white space) is changed", other)
			case nRepl == 0:
				r.Bad("removetags:only-tags", p.InstrPos(ret), "the returned text went through no tag removal")
			default:
				r.OK("removetags:only-tags", p.InstrPos(ret), "the returned text is the input after %d removal(s) by expression and nothing else", nRepl)
			}
			if inLoopRepl {
				r.Bad("removetags:single-pass", p.InstrPos(ret), "tags are removed name by name on the already modified text: removing one tag can assemble another named tag from the text around it, and the result depends on the order of the names")
			} else if nRepl > 0 {
				r.OK("removetags:single-pass", p.InstrPos(ret), "one pass over the text with one expression")
			}
		}
	}
}
