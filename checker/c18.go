package main

// C18 — data filters: the structural clauses. R-C18-UNIT (bytes vs characters), R-C18-ROUND, R-C18-BASE,
// R-C18-CAP (padding caps), R-C18-SLICE (panic-freedom preconditions of Value.Slice/Index).

import (
	"fmt"
	"go/constant"
	"go/token"
	"go/types"
	"sort"
	"strconv"
	"strings"

	"golang.org/x/tools/go/ssa"
)

func init() { register("C18", checkC18) }

func checkC18(p *Prog, r *Report) {
	a := ResolveAnchors(p)
	if !anchorCheck(a, r) {
		return
	}
	ruleC18Unit(p, a, r)
	ruleC18Round(p, a, r)
	ruleC18FloatformatDigits(p, a, r)
	ruleC18Base(p, a, r)
	ruleResourceCaps(p, a, r, "R-C18-CAP")
	ruleC18PadMeasure(p, a, r)
	ruleC18FloatDiv(p, a, r)
	ruleC18FloatToInt(p, a, r)
	ruleC18UintToInt(p, a, r)
	ruleC18Wrap(p, a, r)
	ruleC18ExactString(p, a, r)
	ruleC18PtrFormat(p, a, r)
	ruleC18FirstByLen(p, a, r)
	ruleC18ArgByValue(p, a, r)
}

type unit int

const (
	uNone  unit = iota // constants, unknown
	uBytes             // byte offsets/lengths of a string
	uChars             // characters / items
	uMixed
)

func (u unit) String() string { return [...]string{"-", "bytes", "characters", "mixed"}[u] }

// filters whose integer parameter is documented in characters
var charParamFilters = map[string]bool{
	"truncatechars": true, "center": true, "ljust": true, "rjust": true, "get_digit": true, "length_is": true, "slice": true,
	"first": true, "last": true, "length": true, "join": true, "make_list": true, "cut": true, "capfirst": true,
}

// reviewed exceptions: function -> reason why a bytes/characters mix is sound there
var unitAssumed = map[string]string{
	"filterGetdigit": "the input was checked to consist of ASCII digits only, so bytes and characters coincide",
}

type unitInfer struct {
	p     *Prog
	a     *Anchors
	f     *ssa.Function
	param bool // integer parameter counts characters
	memo  map[ssa.Value]unit
}

func (u *unitInfer) of(v ssa.Value) unit {
	if x, ok := u.memo[v]; ok {
		return x
	}
	u.memo[v] = uNone
	res := u.compute(v)
	u.memo[v] = res
	return res
}

func isStringType(T types.Type) bool {
	b, ok := T.Underlying().(*types.Basic)
	return ok && b.Info()&types.IsString != 0
}

func isRuneSlice(T types.Type) bool {
	s, ok := T.Underlying().(*types.Slice)
	if !ok {
		return false
	}
	b, ok := s.Elem().Underlying().(*types.Basic)
	return ok && (b.Kind() == types.Int32)
}

func join(a, b unit) unit {
	switch {
	case a == uNone:
		return b
	case b == uNone:
		return a
	case a == b:
		return a
	}
	return uMixed
}

func (u *unitInfer) compute(v ssa.Value) unit {
	switch x := v.(type) {
	case *ssa.Const:
		return uNone
	case *ssa.Call:
		cc := x.Common()
		if b, ok := cc.Value.(*ssa.Builtin); ok {
			switch b.Name() {
			case "len":
				if isStringType(cc.Args[0].Type()) {
					return uBytes
				}
				if isRuneSlice(cc.Args[0].Type()) {
					return uChars
				}
				return uNone
			case "min", "max":
				r := uNone
				for _, a := range cc.Args {
					r = join(r, u.of(a))
				}
				return r
			}
			return uNone
		}
		callee := cc.StaticCallee()
		if callee == nil {
			return uNone
		}
		name := u.p.extName(callee)
		switch name {
		case "unicode/utf8.RuneCountInString", "unicode/utf8.RuneCount", "(*Value).Len":
			return uChars
		case "strings.Index", "strings.IndexByte", "strings.IndexRune", "strings.LastIndex", "unicode/utf8.RuneLen":
			return uBytes
		case "(*Value).Integer":
			// the filter's own parameter (second *Value parameter)
			if u.param && len(u.f.Params) >= 2 && cc.Args[0] == ssa.Value(u.f.Params[1]) {
				return uChars
			}
			return uNone
		case "max", "min":
			r := uNone
			for _, a := range cc.Args {
				r = join(r, u.of(a))
			}
			return r
		}
		// helper parameters are typed through their call sites (see below)
		return uNone
	case *ssa.Extract:
		// utf8.DecodeRuneInString size; range over string key
		if c, ok := x.Tuple.(*ssa.Call); ok && c.Common().StaticCallee() != nil {
			n := u.p.extName(c.Common().StaticCallee())
			if (n == "unicode/utf8.DecodeRuneInString" || n == "unicode/utf8.DecodeLastRuneInString" || n == "unicode/utf8.DecodeRune") && x.Index == 1 {
				return uBytes
			}
		}
		if nx, ok := x.Tuple.(*ssa.Next); ok && x.Index == 1 {
			if rg, ok := nx.Iter.(*ssa.Range); ok && isStringType(rg.X.Type()) {
				return uBytes // key of a range over a string is a byte offset
			}
		}
		return uNone
	case *ssa.BinOp:
		switch x.Op {
		case token.ADD, token.SUB:
			return join(u.of(x.X), u.of(x.Y))
		case token.MUL, token.QUO, token.REM:
			return uNone
		}
		return uNone
	case *ssa.Phi:
		r := uNone
		for _, e := range x.Edges {
			if e == ssa.Value(x) {
				continue
			}
			r = join(r, u.of(e))
		}
		return r
	case *ssa.Convert:
		return u.of(x.X)
	case *ssa.ChangeType:
		return u.of(x.X)
	case *ssa.UnOp:
		if sv := localLoadValue(x); sv != nil {
			return u.of(sv)
		}
		if cells := u.p.cellsOf(x.X, 0); len(cells) > 0 {
			r := uNone
			for _, c := range cells {
				for _, s := range u.p.cellStores[c] {
					r = join(r, u.of(s))
				}
			}
			return r
		}
	case *ssa.Parameter:
		// integer parameter of a helper: unit of the arguments at its (static) call sites
		if b, ok := x.Type().Underlying().(*types.Basic); ok && b.Info()&types.IsInteger != 0 {
			if pu, ok := helperParamUnit[x]; ok {
				return pu
			}
		}
	}
	return uNone
}

var helperParamUnit = map[*ssa.Parameter]unit{}

func ruleC18Unit(p *Prog, a *Anchors, r *Report) {
	r.Begin("R-C18-UNIT", "sequence/string filters count in characters: no comparison or arithmetic mixes a byte quantity (len(string), range-over-string index, decode size) with a character quantity (parameter, Len(), len([]rune)); strings are never indexed/sliced with a character count nor rune slices with a byte count", 8)
	// the filter functions the property lists, through the registry
	listed := []string{"slice", "first", "last", "length", "length_is", "join", "split", "make_list", "cut", "truncatechars", "truncatewords",
		"center", "ljust", "rjust", "wordcount", "wordwrap", "linenumbers", "linebreaksbr", "capfirst", "upper", "lower", "get_digit"}
	type target struct {
		f     *ssa.Function
		param bool
		via   string
	}
	var targets []target
	seen := map[*ssa.Function]bool{}
	for _, name := range listed {
		f := a.FilterFuncs[name]
		if f == nil {
			r.Unk("registry:"+name, "-", "anchor unresolved: filter %q", name)
			continue
		}
		if seen[f] {
			continue
		}
		seen[f] = true
		targets = append(targets, target{f, charParamFilters[name], name})
	}
	// Value.Len/Index/Slice are the rune-based primitives the filters rely on
	for _, m := range []string{"Len", "Index", "Slice"} {
		if f := p.Method("Value", m); f != nil && !seen[f] {
			seen[f] = true
			targets = append(targets, target{f, false, "Value." + m})
		}
	}
	// helpers called by those filters with integer arguments: type their parameters from the call sites
	for i := 0; i < len(targets); i++ {
		t := targets[i]
		ui := &unitInfer{p: p, a: a, f: t.f, param: t.param, memo: map[ssa.Value]unit{}}
		for _, b := range t.f.Blocks {
			for _, in := range b.Instrs {
				ci, ok := in.(ssa.CallInstruction)
				if !ok {
					continue
				}
				callee := ci.Common().StaticCallee()
				if callee == nil || !p.InPkg(callee) || callee.Blocks == nil || seen[callee] || callee.Signature.Recv() != nil {
					continue
				}
				if !strings.HasPrefix(callee.Name(), "filter") {
					continue
				}
				for j, arg := range ci.Common().Args {
					if j < len(callee.Params) {
						if un := ui.of(arg); un != uNone {
							helperParamUnit[callee.Params[j]] = un
						}
					}
				}
				seen[callee] = true
				targets = append(targets, target{callee, false, t.via + "→" + callee.Name()})
			}
		}
	}
	sort.SliceStable(targets, func(i, j int) bool { return p.FuncName(targets[i].f) < p.FuncName(targets[j].f) })
	for _, t := range targets {
		ui := &unitInfer{p: p, a: a, f: t.f, param: t.param, memo: map[ssa.Value]unit{}}
		name := p.FuncName(t.f)
		n := 0
		report := func(key, pos, msg string) {
			n++
			if why, ok := unitAssumed[name]; ok {
				r.Assume(name+":"+key, pos, "%s; reviewed: %s", msg, why)
			} else {
				r.Bad(name+":"+key, pos, "%s", msg)
			}
		}
		for _, fn := range withClosures(t.f) {
			for _, b := range fn.Blocks {
				for _, in := range b.Instrs {
					switch x := in.(type) {
					case *ssa.BinOp:
						switch x.Op {
						case token.LSS, token.LEQ, token.GTR, token.GEQ, token.EQL, token.NEQ, token.ADD, token.SUB:
							ux, uy := ui.of(x.X), ui.of(x.Y)
							if (ux == uBytes && uy == uChars) || (ux == uChars && uy == uBytes) {
								report(fmt.Sprintf("%s %s/%s", x.Op, ux, uy), p.InstrPos(in), fmt.Sprintf("a %s quantity (%s) is combined with a %s quantity (%s) by %s: wrong for multi-byte text", ux, p.VN(x.X), uy, p.VN(x.Y), x.Op))
							}
						}
					case *ssa.Slice:
						want := uNone
						if isStringType(x.X.Type()) {
							want = uBytes
						} else if isRuneSlice(x.X.Type()) {
							want = uChars
						}
						if want == uNone {
							continue
						}
						for _, bound := range []ssa.Value{x.Low, x.High} {
							if bound == nil {
								continue
							}
							ub := ui.of(bound)
							if ub != uNone && ub != want {
								report(fmt.Sprintf("slice %s with %s", typeName(x.X.Type()), ub), p.InstrPos(in), fmt.Sprintf("%s is sliced with a %s bound (%s)", typeName(x.X.Type()), ub, p.VN(bound)))
							}
						}
					case *ssa.Lookup: // string index s[i]
						if isStringType(x.X.Type()) {
							if ub := ui.of(x.Index); ub == uChars {
								report("index string with characters", p.InstrPos(in), fmt.Sprintf("a string is indexed by a character count (%s)", p.VN(x.Index)))
							}
						}
					case *ssa.IndexAddr:
						if isRuneSlice(x.X.Type()) {
							if ub := ui.of(x.Index); ub == uBytes {
								report("index []rune with bytes", p.InstrPos(in), fmt.Sprintf("a rune slice is indexed by a byte offset (%s)", p.VN(x.Index)))
							}
						}
					}
				}
			}
		}
		if n == 0 {
			r.OK(name+":units", p.Pos(t.f.Pos()), "no bytes/characters mix (%s)", t.via)
		}
	}
}

func ruleC18Round(p *Prog, a *Anchors, r *Report) {
	r.Begin("R-C18-ROUND", "widthratio converts the ratio to an integer with a round-to-nearest idiom (math.Round, Floor(x+0.5)), and computes current/max*width in that operand order", 2)
	f := p.Method("tagWidthratioNode", "Execute")
	if f == nil {
		r.Unk("anchor", "-", "anchor unresolved: (*tagWidthratioNode).Execute")
		return
	}
	// what the tag writes (Sprintf operands) or binds (map update), followed back through the helpers whose results it is
	var sinks []ssa.Value
	for _, b := range f.Blocks {
		for _, in := range b.Instrs {
			switch x := in.(type) {
			case *ssa.Call:
				if cal := x.Common().StaticCallee(); cal != nil && p.extName(cal) == "fmt.Sprintf" && len(x.Common().Args) > 1 {
					if vs, ok := variadicElems(x.Common().Args[1]); ok {
						sinks = append(sinks, vs...)
					}
				}
			case *ssa.MapUpdate:
				sinks = append(sinks, x.Value)
			}
		}
	}
	var helpers []*ssa.Function
	intDivs := make([]string, len(sinks))
	for i, sv := range sinks {
		var hs []*ssa.Function
		intDivs[i], hs = c18WrittenValue(p, sv)
		helpers = append(helpers, hs...)
	}
	found := false
	// the conversion may sit in Execute or in a helper the computation was extracted into
	for _, in := range c18ConversionSites(p, f, helpers) {
		cvX, ok := floatToIntOperand(p, in)
		if !ok {
			continue
		}
		found = true
		key := "widthratio:rounding"
		c, isCall := cvX.(*ssa.Call)
		name := ""
		if isCall && c.Common().StaticCallee() != nil {
			name = p.extName(c.Common().StaticCallee())
		}
		var ratio ssa.Value
		switch name {
		case "math.Round", "math.RoundToEven":
			ratio = c.Common().Args[0]
			r.OK(key, p.InstrPos(in), "int(%s(x))", name)
		case "math.Floor":
			if bo, ok := c.Common().Args[0].(*ssa.BinOp); ok && bo.Op == token.ADD && isHalf(bo.Y) {
				ratio = bo.X
				r.OK(key, p.InstrPos(in), "int(math.Floor(x + 0.5))")
			} else {
				r.Bad(key, p.InstrPos(in), "math.Floor without +0.5 truncates instead of rounding")
			}
		case "math.Ceil":
			r.Bad(key, p.InstrPos(in), "math.Ceil(…) maps every exact integer ratio n to n+1 (or rounds everything up): not the documented value")
		default:
			if bo, ok := cvX.(*ssa.BinOp); ok && bo.Op == token.ADD && isHalf(bo.Y) {
				ratio = bo.X
				r.OK(key, p.InstrPos(in), "int(x + 0.5) for non-negative x")
			} else {
				r.Bad(key, p.InstrPos(in), "the ratio is converted with %s, which truncates instead of rounding to nearest", p.VN(cvX))
			}
		}
		if ratio != nil {
			// ratio = current/max*width
			okShape := false
			if mul, ok := ratio.(*ssa.BinOp); ok && mul.Op == token.MUL {
				if div, ok := mul.X.(*ssa.BinOp); ok && div.Op == token.QUO {
					cur, mx, w := floatOfField(p, div.X), floatOfField(p, div.Y), floatOfField(p, mul.Y)
					if cur == "current" && mx == "max" && w == "width" {
						okShape = true
					} else {
						r.Bad("widthratio:operands", p.InstrPos(in), "ratio is %s/%s*%s, documented is current/max*width", cur, mx, w)
					}
				}
			}
			if okShape {
				r.OK("widthratio:operands", p.InstrPos(in), "current/max*width")
			} else {
				r.Unk("widthratio:operands", p.InstrPos(in), "cannot recognise the ratio expression %s", p.VN(ratio))
			}
		}
	}
	if !found {
		r.Unk("widthratio:rounding", p.Pos(f.Pos()), "no float→int conversion found")
	}
	// … and that conversion is the only way the printed number comes about: what the tag writes (or binds) is, on every
	// path, a constant or the rounded ratio — not the result of an integer division (which truncates toward zero, so
	// the "add half the divisor" idiom is off by one for every negative ratio)
	for _, bad := range intDivs {
		if bad != "" {
			r.Bad("widthratio:every-path-rounds", bad, "on one path the number the tag writes is the result of an integer division: Go truncates toward zero, so (current*width + max/2)/max is off by one for every negative ratio (-30 40 100 gives -74)")
		}
	}
	if len(sinks) > 0 {
		r.OK("widthratio:sinks", p.Pos(f.Pos()), "%d value(s) written/bound examined for integer divisions", len(sinks))
	}
}

// variadicElems: the values stored into the slice literal that a variadic call receives.
func variadicElems(v ssa.Value) ([]ssa.Value, bool) {
	sl, ok := v.(*ssa.Slice)
	if !ok {
		return nil, false
	}
	arr, ok := sl.X.(*ssa.Alloc)
	if !ok {
		return nil, false
	}
	var out []ssa.Value
	for _, u := range refs(arr) {
		if ia, isIA := u.(*ssa.IndexAddr); isIA {
			for _, uu := range refs(ia) {
				if st, isSt := uu.(*ssa.Store); isSt && st.Addr == ssa.Value(ia) {
					out = append(out, st.Val)
				}
			}
		}
	}
	return out, len(out) > 0
}

// ruleC18FloatformatDigits: floatformat prints the digits of the value it was given: what FormatFloat receives is the
// input's Float() itself, not the result of arithmetic on it (a pre-rounding val*10^d/10^d changes digits of values
// that need no rounding once val*10^d leaves the exactly representable range, and is NaN for d > 308).
func ruleC18FloatformatDigits(p *Prog, a *Anchors, r *Report) {
	f := a.FilterFuncs["floatformat"]
	if f == nil {
		r.Unk("floatformat:own-digits", "-", "anchor unresolved: filter floatformat")
		return
	}
	n := 0
	for _, fn := range clusterOf(p, f, 1) {
		for _, b := range fn.Blocks {
			for _, in := range b.Instrs {
				c, ok := in.(*ssa.Call)
				if !ok || c.Common().StaticCallee() == nil || p.extName(c.Common().StaticCallee()) != "strconv.FormatFloat" {
					continue
				}
				n++
				key := "floatformat:own-digits"
				v := stripLoad(c.Common().Args[0])
				ok2 := false
				var why string
				switch x := v.(type) {
				case *ssa.Call:
					if cal := x.Common().StaticCallee(); cal != nil && cal.Name() == "Float" && p.InPkg(cal) {
						ok2 = true
					} else {
						why = "the result of " + p.calleeName(x.Common())
					}
				case *ssa.Parameter:
					ok2 = true // a helper that is handed the value
				default:
					why = p.VN(v)
				}
				if ok2 {
					r.OK(key, p.InstrPos(in), "FormatFloat receives the input's Float() itself")
				} else {
					r.Bad(key, p.InstrPos(in), "FormatFloat receives %s, not the input value itself: arithmetic in front of the formatting changes the digits of values that need no rounding (and turns huge arguments into NaN/Inf)", why)
				}
			}
		}
	}
	if n == 0 {
		r.Unk("floatformat:own-digits", p.Pos(f.Pos()), "no strconv.FormatFloat in floatformat")
	}
}

func isHalf(v ssa.Value) bool {
	c, ok := v.(*ssa.Const)
	return ok && c.Value != nil && c.Value.ExactString() == "1/2"
}

// floatOfField: v = X.Float() where X is the evaluated node field; returns the field name. Inside an extracted helper
// X (or v) is a parameter: then it is what the call sites hand over.
func floatOfField(p *Prog, v ssa.Value) string {
	return c18FloatOfField(p, v, 0)
}

// ruleC18Base: numbers are parsed/printed in base 10 everywhere in the value layer.
func ruleC18Base(p *Prog, a *Anchors, r *Report) {
	r.Begin("R-C18-BASE", "string→number conversions of the value layer are decimal: ParseInt/ParseUint/FormatInt/FormatUint use base 10, ParseFloat/Atoi are the only other parsers", 1)
	n := 0
	p.EachInstr(func(fn *ssa.Function, in ssa.Instruction) {
		c, ok := in.(*ssa.Call)
		if !ok || c.Common().StaticCallee() == nil {
			return
		}
		name := p.extName(c.Common().StaticCallee())
		switch name {
		case "strconv.ParseInt", "strconv.ParseUint", "strconv.FormatInt", "strconv.FormatUint":
			n++
			key := p.FuncName(fn) + ":" + name
			if k, isC := constInt(c.Common().Args[1]); isC && k == 10 {
				r.OK(key, p.InstrPos(in), "base 10")
			} else {
				r.Bad(key, p.InstrPos(in), "%s with base %s: zero-padded input like \"010\" would be read as octal", name, p.VN(c.Common().Args[1]))
			}
		case "strconv.Atoi", "strconv.ParseFloat", "strconv.Itoa", "strconv.FormatFloat":
			n++
			r.Trivial(p.FuncName(fn)+":"+name, p.InstrPos(in), "decimal by definition")
		case "fmt.Sscanf", "fmt.Sscan":
			r.Bad(p.FuncName(fn)+":"+name, p.InstrPos(in), "numbers parsed with %s (verb-dependent base)", name)
		}
	})
	if n == 0 {
		r.Unk("sites", "-", "no strconv call found")
	}
}

// ruleResourceCaps: sinks whose cost depends on a runtime integer are capped by a named constant and cannot be negative.
func ruleResourceCaps(p *Prog, a *Anchors, r *Report, rule string) {
	r.Begin(rule, "strings.Repeat counts, computed Sprintf widths, FormatFloat precisions and lorem counts derived from template/context numbers are compared with a cap constant (error edge) and cannot be negative at the sink", 4)
	for _, f := range p.inPkgFuncsSorted(a.ExecReach()) {
		for _, b := range f.Blocks {
			for _, in := range b.Instrs {
				c, ok := in.(*ssa.Call)
				if !ok || c.Common().StaticCallee() == nil {
					continue
				}
				name := p.extName(c.Common().StaticCallee())
				var n ssa.Value
				needNonNeg := false
				switch name {
				case "strings.Repeat":
					n = c.Common().Args[1]
					needNonNeg = true
				case "strconv.FormatFloat":
					n = c.Common().Args[2]
				case "fmt.Sprintf":
					// a computed format string with a width: Sprintf(Sprintf("%%%ds", n), …)
					if inner, ok := c.Common().Args[0].(*ssa.Call); ok && inner.Common().StaticCallee() != nil && p.extName(inner.Common().StaticCallee()) == "fmt.Sprintf" {
						vals := varargValues(inner.Common().Args[1])
						if len(vals) >= 1 {
							n = vals[0]
							needNonNeg = true // a negative width is fmt's left-justify flag and escapes the cap
						}
					}
				}
				if n == nil {
					continue
				}
				if _, isC := n.(*ssa.Const); isC {
					continue
				}
				key := p.FuncName(f) + ":" + name
				capped, capName := cappedBy(p, in, n)
				nonNeg := !needNonNeg || nonNegative(p, in, n)
				switch {
				case !capped:
					r.Bad(key, p.InstrPos(in), "%s with a count derived from a runtime number (%s) that is not compared with a cap constant on every path: a template can request gigabytes of output (or hang)", name, p.VN(n))
				case !nonNeg:
					r.Bad(key, p.InstrPos(in), "%s with a count/width that can be negative here (%s): strings.Repeat panics on a negative count, a negative fmt width pads on the other side and is not covered by the upper cap", name, p.VN(n))
				default:
					r.OK(key, p.InstrPos(in), "count capped by %s with an error edge and non-negative at the sink", capName)
				}
			}
		}
	}
	// make([]T, n, m): a negative size panics, a size computed with + or * from an unbounded runtime number can wrap
	// negative. Sizes must be lengths of existing objects, constants, or quotients/remainders/sums of such.
	for _, f := range p.inPkgFuncsSorted(a.ExecReach()) {
		cnt := 0
		for _, b := range f.Blocks {
			for _, in := range b.Instrs {
				ms, ok := in.(*ssa.MakeSlice)
				if !ok {
					continue
				}
				for _, sz := range []ssa.Value{ms.Len, ms.Cap} {
					if _, isC := sz.(*ssa.Const); isC {
						continue
					}
					cnt++
					key := p.FuncName(f) + ":make"
					if cnt > 1 {
						key += "#" + strconv.Itoa(cnt)
					}
					if sizeLike(p, in, sz, 0) {
						r.OK(key, p.InstrPos(in), "size %s is a length/constant or derived from such without a wrapping operation", p.VN(sz))
					} else {
						r.Bad(key, p.InstrPos(in), "make with size %s, which is not provably non-negative: it involves a runtime number that is not a length (an addition or multiplication with an argument from the template can wrap around; a negative size panics)", p.VN(sz))
					}
				}
			}
		}
	}
	// lorem: counted loops bounded by node.count are behind the cap test
	if f := p.Method("tagLoremNode", "Execute"); f != nil {
		nLoops := 0
		for _, b := range f.Blocks {
			iff, ok := b.Instrs[len(b.Instrs)-1].(*ssa.If)
			if !ok {
				continue
			}
			bo, ok := iff.Cond.(*ssa.BinOp)
			if !ok || bo.Op != token.LSS || !loadsField(bo.Y, "tagLoremNode", "count") {
				continue
			}
			if _, isPhi := bo.X.(*ssa.Phi); !isPhi {
				continue
			}
			nLoops++
			capped, capName := cappedBy(p, iff, bo.Y)
			if capped {
				r.OK("(*tagLoremNode).Execute:loop", p.InstrPos(iff), "loop bound node.count is capped by %s", capName)
			} else {
				r.Bad("(*tagLoremNode).Execute:loop", p.InstrPos(iff), "a loop runs node.count times without the count having been compared with a cap constant")
			}
		}
		if nLoops == 0 {
			r.Unk("(*tagLoremNode).Execute:loop", p.Pos(f.Pos()), "no counted loop over node.count found")
		}
	}
}

// cappedBy: on every path to `at`, a comparison `x > K` / `x >= K` (K a named constant ≥ 1) was false, or its
// mirror, where x is n or a value n is derived from by subtracting/adding (n = x - y with y ≥ 0 ⇒ n ≤ x).
func cappedBy(p *Prog, at ssa.Instruction, n ssa.Value) (bool, string) {
	cands := derivedFrom(p, n, 0)
	capName := ""
	// (the comparison may stand in a predicate function — exceedsMaxPadding(n) — whose parameter stands for the argument)
	g := Guarded(at, throughPredicates(p, func(c ssa.Value, pol bool, sub func(ssa.Value) ssa.Value) bool {
		bo, ok := c.(*ssa.BinOp)
		if !ok {
			return false
		}
		k, isC := constInt(bo.Y)
		if !isC || k < 1 {
			return false
		}
		match := false
		x := sub(bo.X)
		for _, cv := range cands {
			if x == cv || p.VN(x) == p.VN(cv) {
				match = true
			}
		}
		if !match {
			return false
		}
		if ((bo.Op == token.GTR || bo.Op == token.GEQ) && !pol) || ((bo.Op == token.LEQ || bo.Op == token.LSS) && pol) {
			capName = fmt.Sprintf("%d", k)
			return true
		}
		return false
	}))
	return g, capName
}

// derivedFrom: values v such that n <= v is implied by the arithmetic (n itself; x for n = x - y, n = x/2 …; phi inputs).
func derivedFrom(p *Prog, n ssa.Value, depth int) []ssa.Value {
	out := []ssa.Value{n}
	if depth > 5 {
		return out
	}
	switch x := n.(type) {
	case *ssa.BinOp:
		switch x.Op {
		case token.SUB, token.QUO, token.REM:
			out = append(out, derivedFrom(p, x.X, depth+1)...)
		case token.ADD:
			// a + b ≤ cap needs both bounded by the same source; accept when both derive from a capped value
			l, r := derivedFrom(p, x.X, depth+1), derivedFrom(p, x.Y, depth+1)
			out = append(out, l...)
			out = append(out, r...)
		}
	case *ssa.Phi:
		for _, e := range x.Edges {
			if _, isC := e.(*ssa.Const); isC {
				continue
			}
			out = append(out, derivedFrom(p, e, depth+1)...)
		}
	case *ssa.Convert:
		out = append(out, derivedFrom(p, x.X, depth+1)...)
	case *ssa.UnOp:
		if sv := localLoadValue(x); sv != nil {
			out = append(out, derivedFrom(p, sv, depth+1)...)
		}
	}
	return out
}

// nonNegative: n ≥ 0 at `at`: n is a phi of (0, x) behind x<0, or guarded by a comparison with 0 / with a value
// it was derived from (width <= len ⇒ return), or n = a/2, a%2 of a non-negative a.
func nonNegative(p *Prog, at ssa.Instruction, n ssa.Value) bool {
	switch x := n.(type) {
	case *ssa.Const:
		k, ok := constInt(x)
		return ok && k >= 0
	case *ssa.Phi:
		phiOK := true
		for _, e := range x.Edges {
			if k, isC := constInt(e); isC && k >= 0 {
				continue
			}
			// the non-constant edge must come from a path where it is ≥ 0: the clamp idiom `if t < 0 { t = 0 }`
			okEdge := false
			for i, pe := range x.Edges {
				if pe != e {
					continue
				}
				pred := x.Block().Preds[i]
				// is (pred→block) reached only when e >= 0 ?
				if edgeImpliesNonNeg(p, pred, x.Block(), e) {
					okEdge = true
				}
			}
			if !okEdge {
				phiOK = false
			}
		}
		if phiOK {
			return true
		}
		// (… or the merged value is tested itself on the way: `if n <= 0 { return }` — below)
	case *ssa.BinOp:
		switch x.Op {
		case token.QUO, token.REM:
			return nonNegative(p, at, x.X)
		case token.ADD:
			return nonNegative(p, at, x.X) && nonNegative(p, at, x.Y)
		case token.SUB:
			// a - b ≥ 0 if guarded by a > b / a >= b (the `width <= slen ⇒ return` idiom)
			return Guarded(at, func(c ssa.Value, pol bool) bool {
				bo, ok := c.(*ssa.BinOp)
				if !ok {
					return false
				}
				sameXY := p.VN(bo.X) == p.VN(x.X) && p.VN(bo.Y) == p.VN(x.Y)
				sameYX := p.VN(bo.X) == p.VN(x.Y) && p.VN(bo.Y) == p.VN(x.X)
				switch {
				case sameXY && ((bo.Op == token.LEQ || bo.Op == token.LSS) && !pol || (bo.Op == token.GTR || bo.Op == token.GEQ) && pol):
					return true
				case sameYX && ((bo.Op == token.GEQ || bo.Op == token.GTR) && !pol || (bo.Op == token.LSS || bo.Op == token.LEQ) && pol):
					return true
				}
				return false
			})
		}
	case *ssa.UnOp:
		if sv := localLoadValue(x); sv != nil {
			return nonNegative(p, at, sv)
		}
	}
	return Guarded(at, func(c ssa.Value, pol bool) bool {
		bo, ok := c.(*ssa.BinOp)
		if !ok || p.VN(bo.X) != p.VN(n) {
			return false
		}
		k, isC := constInt(bo.Y)
		if !isC {
			return false
		}
		return (bo.Op == token.LSS && k >= 0 && !pol) || (bo.Op == token.GEQ && k >= 0 && pol) || (bo.Op == token.GTR && k >= -1 && pol) || (bo.Op == token.LEQ && k >= -1 && !pol)
	})
}

// sizeLike: v is non-negative and cannot have wrapped: a constant ≥ 0, len/cap of something, a field that only ever
// holds such a value, a quotient/remainder of a size by anything, a sum/increment of sizes, a float scaling of a size
// converted back, min/max of sizes, or a phi of such.
func sizeLike(p *Prog, at ssa.Instruction, v ssa.Value, depth int) bool {
	if depth > 8 {
		return false
	}
	switch x := v.(type) {
	case *ssa.Const:
		if k, ok := constInt(x); ok {
			return k >= 0
		}
		if x.Value != nil && (x.Value.Kind() == constant.Float || x.Value.Kind() == constant.Int) {
			return constant.Sign(x.Value) >= 0
		}
		return false
	case *ssa.Call:
		bname := ""
		if b, ok := x.Common().Value.(*ssa.Builtin); ok {
			bname = b.Name()
		} else if cal := x.Common().StaticCallee(); cal != nil && p.InPkg(cal) && (cal.Name() == "min" || cal.Name() == "max") && selectsAParameter(cal) {
			bname = cal.Name() // the package's own two-argument min/max helper
		}
		if bname != "" {
			switch bname {
			case "len", "cap":
				return true
			case "min":
				// bounded by a size, and every operand non-negative
				bounded := false
				for _, a := range x.Common().Args {
					if sizeLike(p, at, a, depth+1) {
						bounded = true
					} else if !nonNegative(p, at, a) {
						return false
					}
				}
				return bounded
			case "max":
				// at least as large as a non-negative operand; the others must not be unbounded runtime numbers
				for _, a := range x.Common().Args {
					if sizeLike(p, at, a, depth+1) {
						return true
					}
				}
				return false
			}
		}
		if cal := x.Common().StaticCallee(); cal != nil {
			switch p.extName(cal) {
			case "unicode/utf8.RuneCountInString", "unicode/utf8.RuneCount", "strings.Count", "(*bytes.Buffer).Len", "(*strings.Builder).Len", "(reflect.Value).Len", "(reflect.Value).Cap", "(reflect.Value).NumField":
				return true
			}
			// a package function all of whose results are sizes
			if p.InPkg(cal) && cal.Blocks != nil && depth < 4 {
				rets := returnsOf(cal)
				all := len(rets) > 0
				for _, ret := range rets {
					if len(ret.Results) != 1 || !sizeLike(p, ret, res(ret, 0), depth+2) {
						all = false
					}
				}
				return all
			}
		}
		return false
	case *ssa.Phi:
		for _, e := range x.Edges {
			if e != ssa.Value(x) && !sizeLike(p, at, e, depth+1) {
				return false
			}
		}
		return true
	case *ssa.Convert:
		return sizeLike(p, at, x.X, depth+1)
	case *ssa.BinOp:
		switch x.Op {
		case token.QUO, token.REM, token.SHR:
			return sizeLike(p, at, x.X, depth+1)
		case token.ADD:
			return sizeLike(p, at, x.X, depth+1) && sizeLike(p, at, x.Y, depth+1)
		case token.MUL:
			// scaling by a small constant factor
			_, cx := x.X.(*ssa.Const)
			_, cy := x.Y.(*ssa.Const)
			return (cx || cy) && sizeLike(p, at, x.X, depth+1) && sizeLike(p, at, x.Y, depth+1)
		case token.SUB:
			return nonNegative(p, at, x) && sizeLike(p, at, x.X, depth+1)
		}
		return false
	case *ssa.UnOp:
		if sv := localLoadValue(x); sv != nil {
			return sizeLike(p, at, sv, depth+1)
		}
		if _, n, fld := fieldLoadBase(x); n != nil {
			// every store to the field is size-like
			cnt, ok := 0, true
			p.EachInstr(func(f *ssa.Function, in ssa.Instruction) {
				if st, isSt := in.(*ssa.Store); isSt && isFieldAddrOf(st.Addr, n.Obj().Name(), fld) {
					cnt++
					if !sizeLike(p, in, st.Val, depth+1) {
						ok = false
					}
				}
			})
			return ok && cnt > 0
		}
	}
	return false
}

// selectsAParameter: every return of f hands back one of its parameters (min/max style selection).
func selectsAParameter(f *ssa.Function) bool {
	rets := returnsOf(f)
	if len(rets) == 0 || f.Blocks == nil {
		return false
	}
	for _, ret := range rets {
		if len(ret.Results) != 1 {
			return false
		}
		var ok func(v ssa.Value, d int) bool
		ok = func(v ssa.Value, d int) bool {
			if d > 3 {
				return false
			}
			switch x := v.(type) {
			case *ssa.Parameter:
				return true
			case *ssa.Phi:
				for _, e := range x.Edges {
					if !ok(e, d+1) {
						return false
					}
				}
				return true
			}
			return false
		}
		if !ok(res(ret, 0), 0) {
			return false
		}
	}
	return true
}

func edgeImpliesNonNeg(p *Prog, pred, blk *ssa.BasicBlock, v ssa.Value) bool {
	iff, ok := pred.Instrs[len(pred.Instrs)-1].(*ssa.If)
	if !ok {
		return false
	}
	idx := 0
	if pred.Succs[1] == blk {
		idx = 1
	}
	c, pol := normCond(iff.Cond, idx == 0)
	bo, ok := c.(*ssa.BinOp)
	if !ok || bo.X != v {
		return false
	}
	k, isC := constInt(bo.Y)
	if !isC {
		return false
	}
	return (bo.Op == token.LSS && k >= 0 && !pol) || (bo.Op == token.GEQ && k >= 0 && pol) || (bo.Op == token.GTR && k >= -1 && pol) || (bo.Op == token.LEQ && k >= -1 && !pol)
}

// ruleC18PadMeasure: a padding filter measures the text it writes. The number of blanks added (strings.Repeat(" ", n))
// must be computed from the character count of the very string that is emitted, not from (*Value).Len(), which is 0
// for numbers, bools and every other non-sequence whose text is nevertheless written.
func ruleC18PadMeasure(p *Prog, a *Anchors, r *Report) {
	r.Begin("R-C18-PAD", "padding filters compute the number of blanks from the character count of the text they emit (not from Value.Len(), which is 0 for non-sequences)", 2)
	names := make([]string, 0, len(a.FilterFuncs))
	for n := range a.FilterFuncs {
		names = append(names, n)
	}
	sort.Strings(names)
	seen := map[*ssa.Function]bool{}
	for _, fname := range names {
		f := a.FilterFuncs[fname]
		if seen[f] {
			continue
		}
		seen[f] = true
		for _, b := range f.Blocks {
			for _, in := range b.Instrs {
				c, ok := in.(*ssa.Call)
				if !ok || c.Common().StaticCallee() == nil || p.extName(c.Common().StaticCallee()) != "strings.Repeat" {
					continue
				}
				if sp, isC := constString(c.Common().Args[0]); !isC || sp != " " {
					continue
				}
				// does the count derive from (*Value).Len of the input?
				usesLen, usesRunes := false, false
				var walk func(v ssa.Value, d int)
				seenV := map[ssa.Value]bool{}
				walk = func(v ssa.Value, d int) {
					if v == nil || d > 8 || seenV[v] {
						return
					}
					seenV[v] = true
					switch x := v.(type) {
					case *ssa.BinOp:
						walk(x.X, d+1)
						walk(x.Y, d+1)
					case *ssa.Phi:
						for _, e := range x.Edges {
							walk(e, d+1)
						}
					case *ssa.Convert:
						walk(x.X, d+1)
					case *ssa.UnOp:
						if sv := localLoadValue(x); sv != nil {
							walk(sv, d+1)
						}
					case *ssa.Call:
						if cal := x.Common().StaticCallee(); cal != nil {
							switch {
							case p.InPkg(cal) && cal.Name() == "Len" && len(f.Params) > 0 && x.Common().Args[0] == ssa.Value(f.Params[0]):
								usesLen = true
							case p.extName(cal) == "unicode/utf8.RuneCountInString":
								usesRunes = true
							case p.InPkg(cal) && (cal.Name() == "min" || cal.Name() == "max"):
								for _, a := range x.Common().Args {
									walk(a, d+1)
								}
							}
						}
						if b, isB := x.Common().Value.(*ssa.Builtin); isB && (b.Name() == "min" || b.Name() == "max") {
							for _, a := range x.Common().Args {
								walk(a, d+1)
							}
						}
					}
				}
				walk(c.Common().Args[1], 0)
				key := fname + ":pad-measure"
				switch {
				case usesLen:
					r.Bad(key, p.InstrPos(in), "the number of blanks is computed from in.Len(), which is 0 for numbers, bools and other non-sequences, while in.String() is written: {{ 42|%s:5 }} comes out %d characters long", fname, 7)
				case usesRunes:
					r.OK(key, p.InstrPos(in), "blanks computed from the character count of a string")
				default:
					r.Trivial(key, p.InstrPos(in), "the count does not depend on the input's length")
				}
			}
		}
	}
}

// ruleC18FloatDiv: a float quotient that is converted to an integer needs a zero test of its divisor: x/0.0 is ±Inf or
// NaN, and the conversion of those to int is an arbitrary number (printed as -9223372036854775808).
func ruleC18FloatDiv(p *Prog, a *Anchors, r *Report) {
	r.Begin("R-C18-FDIV", "a float division whose result is converted to an integer is reached only with a divisor that was tested against zero", 1)
	n := 0
	for _, f := range p.inPkgFuncsSorted(a.ExecReach()) {
		for _, b := range f.Blocks {
			for _, in := range b.Instrs {
				cvX, ok := floatToIntOperand(p, in)
				if !ok {
					continue
				}
				// find float quotients feeding the conversion
				var quos []*ssa.BinOp
				var walk func(v ssa.Value, d int)
				walk = func(v ssa.Value, d int) {
					if d > 6 {
						return
					}
					switch x := v.(type) {
					case *ssa.BinOp:
						if x.Op == token.QUO {
							if _, isC := x.Y.(*ssa.Const); !isC {
								quos = append(quos, x)
							}
						}
						walk(x.X, d+1)
						walk(x.Y, d+1)
					case *ssa.Call:
						if cal := x.Common().StaticCallee(); cal != nil && cal.Pkg != nil && cal.Pkg.Pkg.Path() == "math" {
							for _, a := range x.Common().Args {
								walk(a, d+1)
							}
						}
					case *ssa.Convert:
						walk(x.X, d+1)
					}
				}
				walk(cvX, 0)
				for _, q := range quos {
					n++
					key := p.FuncName(f) + ":int(float/…)"
					// the test in this function, or — for a helper's parameter — in front of every call of the helper
					g := c18DivisorZeroTested(p, in, q.Y)
					if g {
						r.OK(key, p.InstrPos(in), "the divisor %s was tested against zero", p.VN(q.Y))
					} else {
						r.Bad(key, p.InstrPos(in), "int(…/%s) without a zero test of the divisor: for 0 the quotient is ±Inf/NaN and its conversion an arbitrary integer (the output shows -9223372036854775808)", p.VN(q.Y))
					}
				}
			}
		}
	}
	if n == 0 {
		r.Bad("none", "-", "no float division converted to an integer found (widthratio has one): the rule no longer sees the code it was written for")
	}
}

// ruleC18FloatToInt: "for all arguments, including … huge and out-of-range ones": Go leaves the conversion of a float
// that no int can hold implementation-defined (amd64: the smallest int, also for huge POSITIVE values), so a huge bound
// silently turns into a negative one. Every conversion float→int of a runtime value is therefore reached only between
// an upper and a lower comparison of that value with constants (a saturating helper, or a range test).
func ruleC18FloatToInt(p *Prog, a *Anchors, r *Report) {
	r.Begin("R-C18-F2I", "every float→int conversion of a runtime value is reached only after the value was compared with an upper and a lower constant bound (saturation): a huge number does not flip its sign", 1)
	n := 0
	reach := a.ExecReach()
	creach := a.CompileReach()
	for _, f := range p.inPkgFuncsSorted(p.allFuncSet()) {
		if !reach[f] && !creach[f] && !reach[topLevel(f)] {
			continue
		}
		k := 0
		for _, b := range f.Blocks {
			for _, in := range b.Instrs {
				cv, ok := in.(*ssa.Convert)
				if !ok {
					continue
				}
				src, isS := cv.X.Type().Underlying().(*types.Basic)
				dst, isD := cv.Type().Underlying().(*types.Basic)
				if !isS || !isD || src.Info()&types.IsFloat == 0 || dst.Info()&types.IsInteger == 0 {
					continue
				}
				if _, isC := cv.X.(*ssa.Const); isC {
					continue
				}
				n++
				k++
				key := fmt.Sprintf("%s:convert#%d", p.FuncName(f), k)
				bound := func(upper bool) bool {
					return Guarded(in, func(c ssa.Value, pol bool) bool {
						bo, ok := c.(*ssa.BinOp)
						if !ok {
							return false
						}
						x, y, op := bo.X, bo.Y, bo.Op
						if _, isC := x.(*ssa.Const); isC {
							// K op x  ==  x op' K
							x, y = y, x
							switch op {
							case token.LSS:
								op = token.GTR
							case token.LEQ:
								op = token.GEQ
							case token.GTR:
								op = token.LSS
							case token.GEQ:
								op = token.LEQ
							}
						}
						if _, isC := y.(*ssa.Const); !isC || !(x == cv.X || p.VN(x) == p.VN(cv.X)) {
							return false
						}
						switch op {
						case token.LSS, token.LEQ: // x < K holds (pol) → upper bound
							return pol == upper
						case token.GTR, token.GEQ: // x > K holds (pol) → lower bound
							return pol != upper
						}
						return false
					})
				}
				up, lo := bound(true), bound(false)
				if scaledLength(cv.X) {
					r.Assume(key, p.InstrPos(in), "the operand is an int (a size) converted to float and scaled by a constant below 2 — a capacity hint; it leaves the int range only for sizes no buffer can have")
					continue
				}
				if up && lo {
					r.OK(key, p.InstrPos(in), "converted only between an upper and a lower constant bound")
				} else {
					r.Bad(key, p.InstrPos(in), "float→int conversion of %s without a range test (upper bound: %v, lower bound: %v): a value no int can hold converts to an arbitrary int (on amd64 the smallest one, so a huge positive slice bound, width or index becomes negative)", p.VN(cv.X), up, lo)
				}
			}
		}
	}
	if n == 0 {
		r.Trivial("none", "-", "no float→int conversion of a runtime value in engine code")
	}
}

// floatToIntOperand: in converts a float to an integer — Go's conversion, or a call of a package helper that does
// nothing else (one float parameter, one integer result, every return a constant or the conversion of the parameter:
// a saturating converter). Returns the float operand.
func floatToIntOperand(p *Prog, in ssa.Instruction) (ssa.Value, bool) {
	switch x := in.(type) {
	case *ssa.Convert:
		tb, _ := x.Type().Underlying().(*types.Basic)
		fb, _ := x.X.Type().Underlying().(*types.Basic)
		if tb != nil && fb != nil && tb.Info()&types.IsInteger != 0 && fb.Info()&types.IsFloat != 0 {
			return x.X, true
		}
	case *ssa.Call:
		if floatToIntHelper(p, x.Common().StaticCallee()) {
			return x.Common().Args[0], true
		}
	}
	return nil, false
}

// scaledLength: v is float64(<int value>) * <constant c, 0 <= c < 2>.
func scaledLength(v ssa.Value) bool {
	bo, ok := v.(*ssa.BinOp)
	if !ok || bo.Op != token.MUL {
		return false
	}
	x, y := bo.X, bo.Y
	if _, isC := x.(*ssa.Const); isC {
		x, y = y, x
	}
	k, isC := y.(*ssa.Const)
	if !isC || k.Value == nil {
		return false
	}
	f, _ := constant.Float64Val(constant.ToFloat(k.Value))
	if f < 0 || f >= 2 {
		return false
	}
	cv, ok := x.(*ssa.Convert)
	if !ok {
		return false
	}
	bt, _ := cv.X.Type().Underlying().(*types.Basic)
	return bt != nil && bt.Info()&types.IsInteger != 0
}

// ruleC18ArgByValue: a filter whose argument is a number reads it with Integer()/Float(), which also parse the quoted
// form; branching on the argument's Go kind on top of that (IsNumber …) makes `f:3` and `f:"3"` two different
// arguments although both denote 3 (and the quoted form is the only way to write a negative one). Filters that have a
// documented text mode for their argument (they also read it with String()) are a different matter and not judged.
func ruleC18ArgByValue(p *Prog, a *Anchors, r *Report) {
	r.Begin("R-C18-ARGVAL", "a filter that reads its argument only as a number decides by the argument's value, not by its Go kind: no IsNumber/IsInteger/IsFloat/IsString test of an argument that is otherwise only read with Integer()/Float()", 5)
	names := make([]string, 0, len(a.FilterFuncs))
	for n := range a.FilterFuncs {
		names = append(names, n)
	}
	sort.Strings(names)
	for _, name := range names {
		f := a.FilterFuncs[name]
		if f == nil || f.Blocks == nil || len(f.Params) < 2 {
			continue
		}
		param := f.Params[len(f.Params)-1]
		used := map[string]ssa.Instruction{}
		for _, fn := range clusterOf(p, f, 0) {
			for _, b := range fn.Blocks {
				for _, in := range b.Instrs {
					c, ok := in.(*ssa.Call)
					if !ok || c.Common().StaticCallee() == nil || c.Common().IsInvoke() || len(c.Common().Args) == 0 {
						continue
					}
					if stripLoad(c.Common().Args[0]) != ssa.Value(param) {
						continue
					}
					if recv := c.Common().StaticCallee().Signature.Recv(); recv != nil {
						used[c.Common().StaticCallee().Name()] = in
					}
				}
			}
		}
		numeric := used["Integer"] != nil || used["Float"] != nil
		if !numeric || used["String"] != nil {
			continue
		}
		key := "filter " + name + ":argument"
		var kind ssa.Instruction
		for _, k := range []string{"IsNumber", "IsInteger", "IsFloat", "IsString"} {
			if used[k] != nil {
				kind = used[k]
			}
		}
		if kind != nil {
			r.Bad(key, p.InstrPos(kind), "the filter reads its argument as a number but also branches on the argument's Go kind: %s:3 and %s:\"3\" behave differently although both are read as 3", name, name)
		} else {
			r.OK(key, p.Pos(f.Pos()), "the numeric argument is judged by its value only")
		}
	}
}
