package main

// Shapes C07 reads through (tolerance of behaviour-preserving refactorings):
//
//   - a grammar level that delegates to a helper taking the operand parser and/or the operator spelling as
//     parameters (`parseLogicalChain(parseOperand, symbol, keyword)`): the helper's body is read as part of the level,
//     with its parameters instantiated by the constants / method values of the level's call site;
//   - an operator case of a node's Evaluate that hands its operands to a method of the same node type
//     (`expr.modulo(ctx, f1, f2)`): the method's body is judged under the labels of its call sites, its parameters
//     are the operands the call sites pass.

import (
	"go/token"
	"go/types"
	"sort"
	"strings"

	"golang.org/x/tools/go/ssa"
)

// ---- grammar levels read through a helper ------------------------------------

// levelBody: one function whose instructions belong to a grammar level: the level's own function, or a helper it
// delegates to (entered through the call site `via` of the body `up`).
type levelBody struct {
	fn  *ssa.Function
	via ssa.CallInstruction
	up  *levelBody
}

// the token primitives: their calls carry the operators of a level (they are never read as helpers)
var tokenPrimitives = map[string]bool{"Match": true, "Peek": true, "MatchOne": true, "PeekOne": true}

// resolve: v with the parameters of instantiated helpers replaced by the arguments of the level's call site.
func (gl *gramLevel) resolve(v ssa.Value) ssa.Value {
	for i := 0; i < 4; i++ {
		pa, ok := v.(*ssa.Parameter)
		if !ok || gl.ambig[pa] {
			return v
		}
		a, bound := gl.bind[pa]
		if !bound {
			return v
		}
		v = a
	}
	return v
}

// constStrings: the constant string(s) v stands for: a constant, a variadic slice of constants, or a helper's
// parameter instantiated with one of these.
func (gl *gramLevel) constStrings(v ssa.Value) ([]string, bool) {
	v = gl.resolve(v)
	if s, isC := constString(v); isC {
		return []string{s}, true
	}
	if strs, ok := constStringSlice(v); ok {
		return strs, true
	}
	vals := varargValues(v)
	if len(vals) == 0 {
		return nil, false
	}
	var out []string
	for _, e := range vals {
		if e == nil {
			return nil, false
		}
		s, isC := constString(gl.resolve(e))
		if !isC {
			return nil, false
		}
		out = append(out, s)
	}
	return out, true
}

// calleeOf: the package function a call of the level invokes: statically, or through a helper's func-typed parameter
// instantiated with a method value of the level's own parser (`p.parseAndExpression`) or a function.
func (gl *gramLevel) calleeOf(p *Prog, ci ssa.CallInstruction) (callee *ssa.Function, static bool) {
	cc := ci.Common()
	if c := cc.StaticCallee(); c != nil {
		return c, true
	}
	if cc.IsInvoke() {
		return nil, false
	}
	if _, isParam := cc.Value.(*ssa.Parameter); !isParam {
		return nil, false
	}
	switch x := gl.resolve(cc.Value).(type) {
	case *ssa.Function:
		return x, false
	case *ssa.MakeClosure:
		fn, ok := x.Fn.(*ssa.Function)
		if !ok || !strings.HasSuffix(fn.Name(), "$bound") || len(x.Bindings) != 1 {
			return nil, false
		}
		// bound to the parser the level itself runs on
		if len(gl.fn.Params) == 0 || unspillParam(gl.resolve(x.Bindings[0])) != ssa.Value(gl.fn.Params[0]) {
			return nil, false
		}
		if obj, isF := fn.Object().(*types.Func); isF {
			return p.SSA.FuncValue(obj), false
		}
	}
	return nil, false
}

// levelHelper: h takes what distinguishes one grammar level from another as a parameter: a func-typed parameter it
// calls (the operand parser), or a string parameter it hands to a token primitive (the operator spelling).
func levelHelper(p *Prog, h *ssa.Function) bool {
	if h == nil || h.Blocks == nil || !p.InPkg(h) || tokenPrimitives[h.Name()] {
		return false
	}
	first := 0
	if h.Signature.Recv() != nil {
		first = 1
	}
	// … or the node under construction (`parseNextFactor(left *term)`): a piece of a level's body, not a level
	if ev := p.Iface("IEvaluator"); ev != nil {
		for i, pa := range h.Params {
			if i < first {
				continue
			}
			if pt, ok := pa.Type().(*types.Pointer); ok {
				if _, isStruct := pt.Elem().Underlying().(*types.Struct); isStruct && types.Implements(pt, ev) {
					return true
				}
			}
		}
	}
	isParam := func(v ssa.Value) bool {
		pa, ok := v.(*ssa.Parameter)
		return ok && pa.Parent() == h && indexOfParam(h, pa) >= first
	}
	for _, b := range h.Blocks {
		for _, in := range b.Instrs {
			ci, ok := in.(ssa.CallInstruction)
			if !ok {
				continue
			}
			cc := ci.Common()
			if !cc.IsInvoke() && cc.StaticCallee() == nil && isParam(cc.Value) {
				return true
			}
			if c := cc.StaticCallee(); c != nil && p.InPkg(c) && tokenPrimitives[c.Name()] && len(cc.Args) == 3 {
				if isParam(cc.Args[1]) || isParam(cc.Args[2]) {
					return true
				}
				for _, e := range varargValues(cc.Args[2]) {
					if e != nil && isParam(e) {
						return true
					}
				}
			}
		}
	}
	return false
}

// scan reads one body of the level: operators from the token primitives, callees by name; a call of a level helper is
// replaced by the helper's body under the instantiation of its parameters.
func (gl *gramLevel) scan(p *Prog, body *levelBody) {
	gl.bodies = append(gl.bodies, body)
	inHelper := body.up != nil
	depth := 0
	for x := body; x.up != nil; x = x.up {
		depth++
	}
	for _, b := range body.fn.Blocks {
		for _, in := range b.Instrs {
			ci, ok := in.(ssa.CallInstruction)
			if !ok {
				continue
			}
			callee, static := gl.calleeOf(p, ci)
			if callee == nil {
				// a local function variable that holds one of several methods of the level's parser
				// (`parseOperand := p.parseA; if … { parseOperand = p.parseB }; parseOperand()`): every one of them
				for _, fn := range gl.boundMethodsCalled(p, ci) {
					gl.callsF[fn.Name()] = append(gl.callsF[fn.Name()], ci)
					gl.callee[fn.Name()] = fn
				}
				continue
			}
			if !p.InPkg(callee) {
				continue
			}
			args := ci.Common().Args
			if static && tokenPrimitives[callee.Name()] && len(args) == 3 {
				typ := tokenTypeName(p, gl.resolve(args[1]))
				if strs, ok := gl.constStrings(args[2]); ok {
					for _, s := range strs {
						gl.ops[opTok{typ, s}] = true
					}
				} else if inHelper {
					// a spelling the instantiation does not determine: the level matches something the
					// specification cannot be compared with
					gl.ops[opTok{typ, "<" + p.VN(args[2]) + ">"}] = true
				}
			}
			if static && depth < 2 && callee != gl.fn && !gl.onChain(body, callee) && levelHelper(p, callee) && len(args) == len(callee.Params) {
				for i, pa := range callee.Params {
					if prev, bound := gl.bind[pa]; bound && prev != args[i] && p.VN(prev) != p.VN(args[i]) {
						gl.ambig[pa] = true
					}
					gl.bind[pa] = args[i]
				}
				gl.scan(p, &levelBody{fn: callee, via: ci, up: body})
				continue
			}
			gl.callsF[callee.Name()] = append(gl.callsF[callee.Name()], ci)
			gl.callee[callee.Name()] = callee
		}
	}
}

func (gl *gramLevel) onChain(body *levelBody, f *ssa.Function) bool {
	for x := body; x != nil; x = x.up {
		if x.fn == f {
			return true
		}
	}
	return false
}

// inLoop: the instruction is executed repeatedly within one run of the level: it is in a loop of its own function, or
// the helper it belongs to is entered from inside a loop.
func (gl *gramLevel) inLoop(in ssa.Instruction) bool {
	if inLoop(in) {
		return true
	}
	for _, body := range gl.bodies {
		if body.fn != in.Parent() {
			continue
		}
		for x := body; x.via != nil; x = x.up {
			if inLoop(x.via.(ssa.Instruction)) {
				return true
			}
		}
	}
	return false
}

// instrs: the instructions of the level, helpers included (each function once).
func (gl *gramLevel) instrs() []ssa.Instruction {
	var out []ssa.Instruction
	seen := map[*ssa.Function]bool{}
	for _, body := range gl.bodies {
		if seen[body.fn] {
			continue
		}
		seen[body.fn] = true
		for _, b := range body.fn.Blocks {
			out = append(out, b.Instrs...)
		}
	}
	return out
}

// allocatesNode: the level (or a helper it is read through) allocates a struct of the named node type.
func (gl *gramLevel) allocatesNode(typ string) bool {
	for _, body := range gl.bodies {
		if allocatesNode(body.fn, typ) {
			return true
		}
	}
	return false
}

// ---- operator cases handed to a method of the node ---------------------------

// nodeMethods: the methods of f's receiver type that f calls statically — directly or through another such method —
// each with its call sites inside f and inside the other methods. (A case of Evaluate moved into a method of the
// node: `return expr.modulo(ctx, f1, f2)`.)
func nodeMethods(p *Prog, f *ssa.Function) (order []*ssa.Function, sites map[*ssa.Function][]ssa.CallInstruction) {
	sites = map[*ssa.Function][]ssa.CallInstruction{}
	recv := recvNamed(f)
	if recv == nil {
		return nil, sites
	}
	seen := map[*ssa.Function]bool{f: true}
	work := []*ssa.Function{f}
	for len(work) > 0 {
		g := work[0]
		work = work[1:]
		for _, b := range g.Blocks {
			for _, in := range b.Instrs {
				ci, ok := in.(ssa.CallInstruction)
				if !ok {
					continue
				}
				m := ci.Common().StaticCallee()
				if m == nil || m == f || m.Blocks == nil || !p.InPkg(m) || recvNamed(m) != recv || m.Name() == f.Name() {
					continue
				}
				sites[m] = append(sites[m], ci)
				if !seen[m] {
					seen[m] = true
					order = append(order, m)
					work = append(work, m)
				}
			}
		}
	}
	return order, sites
}

func recvNamed(f *ssa.Function) *types.Named {
	if f == nil || f.Signature.Recv() == nil {
		return nil
	}
	return structOf(f.Signature.Recv().Type())
}

// methodLabels: the operator labels under which a method of the node runs: the labels of the blocks of Evaluate that
// call it (for a method called by another method of the node: that method's labels).
func methodLabels(f *ssa.Function, order []*ssa.Function, sites map[*ssa.Function][]ssa.CallInstruction, labelsOfBlock func(*ssa.BasicBlock) []string) map[*ssa.Function][]string {
	out := map[*ssa.Function][]string{}
	for round := 0; round <= len(order); round++ {
		for _, m := range order {
			set := map[string]bool{}
			for _, s := range sites[m] {
				var ls []string
				if s.Parent() == f {
					ls = labelsOfBlock(s.Block())
				} else {
					ls = out[s.Parent()]
				}
				for _, l := range ls {
					set[l] = true
				}
			}
			var ls []string
			for l := range set {
				ls = append(ls, l)
			}
			sort.Strings(ls)
			out[m] = ls
		}
	}
	return out
}

// evaluatorMethods: for the division rule in the expression evaluator: the methods of a node type its Evaluate
// hands (part of) a case to. handedOn: every call site hands the method's error on up to Evaluate (so that "the zero
// edge returns an execution error" inside the method is an execution error of Evaluate); lost: some caller does not.
func evaluatorMethods(p *Prog, eval *ssa.Function) (handedOn, lost []*ssa.Function) {
	order, sites := nodeMethods(p, eval)
	accepted := map[*ssa.Function]bool{eval: true}
	for _, m := range order {
		ei := errorResultIndex(m)
		ok := ei >= 0 && p.staticOnly(m, nil)
		for _, s := range sites[m] {
			if !ok || !accepted[s.Parent()] || !errorHandedOn(p, s, ei, m.Signature.Results().Len()) {
				ok = false
			}
		}
		if ok {
			accepted[m] = true
			handedOn = append(handedOn, m)
		} else {
			lost = append(lost, m)
		}
	}
	return handedOn, lost
}

// errorHandedOn: the error result of the call is returned by the caller as its own error result (directly or after
// a nil test whose non-nil edge returns an error), and never dropped.
func errorHandedOn(p *Prog, site ssa.CallInstruction, ei, nres int) bool {
	v := site.Value()
	caller := site.Parent()
	cei := errorResultIndex(caller)
	if v == nil || cei < 0 {
		return false
	}
	var ev ssa.Value
	if nres == 1 {
		ev = v
	} else {
		for _, u := range refs(v) {
			if ex, ok := u.(*ssa.Extract); ok && ex.Index == ei {
				ev = ex
			}
		}
	}
	if ev == nil {
		return false
	}
	used, dropped := errValueDiscipline(p, caller, ev)
	if !used || dropped != "" {
		return false
	}
	// it reaches a return of the caller as the error result
	returned := false
	seen := map[ssa.Value]bool{}
	var walk func(x ssa.Value, d int)
	walk = func(x ssa.Value, d int) {
		if seen[x] || d > 6 {
			return
		}
		seen[x] = true
		for _, u := range refs(x) {
			switch y := u.(type) {
			case *ssa.Return:
				if cei < len(y.Results) && res(y, cei) == x {
					returned = true
				}
			case *ssa.Phi:
				walk(y, d+1)
			}
		}
	}
	walk(ev, 0)
	return returned
}

// unspillParam: a parameter read back from the cell it was spilled to (a closure — e.g. a deferred one — captures it):
// the load of an allocation whose only store is that parameter, at the function's entry.
func unspillParam(v ssa.Value) ssa.Value {
	u, ok := v.(*ssa.UnOp)
	if !ok || u.Op != token.MUL {
		return v
	}
	al, ok := u.X.(*ssa.Alloc)
	if !ok {
		return v
	}
	var stored ssa.Value
	for _, ref := range *al.Referrers() {
		if st, ok := ref.(*ssa.Store); ok && st.Addr == ssa.Value(al) {
			if stored != nil {
				return v
			}
			stored = st.Val
		}
	}
	if pa, ok := stored.(*ssa.Parameter); ok {
		return pa
	}
	return v
}

// boundMethodsCalled: the dynamic call ci calls a local function value that is, on every way it can be reached, a
// method of the parser the level runs on, bound to that parser (a phi or a local cell of `p.parseX` values).
func (gl *gramLevel) boundMethodsCalled(p *Prog, ci ssa.CallInstruction) []*ssa.Function {
	cc := ci.Common()
	if cc.IsInvoke() || cc.StaticCallee() != nil {
		return nil
	}
	var out []*ssa.Function
	ok := true
	seen := map[ssa.Value]bool{}
	var walk func(v ssa.Value, d int)
	walk = func(v ssa.Value, d int) {
		if v == nil || seen[v] || d > 6 {
			return
		}
		seen[v] = true
		switch x := v.(type) {
		case *ssa.Phi:
			for _, e := range x.Edges {
				walk(e, d+1)
			}
		case *ssa.UnOp:
			if cell, isCell := x.X.(*ssa.Alloc); isCell {
				for _, sv := range allStoresTo(cell) {
					walk(sv, d+1)
				}
				return
			}
			ok = false
		case *ssa.MakeClosure:
			fn, isF := x.Fn.(*ssa.Function)
			if !isF || !strings.HasSuffix(fn.Name(), "$bound") || len(x.Bindings) != 1 {
				ok = false
				return
			}
			if len(gl.fn.Params) == 0 || unspillParam(gl.resolve(x.Bindings[0])) != ssa.Value(gl.fn.Params[0]) {
				ok = false
				return
			}
			if obj, isFn := fn.Object().(*types.Func); isFn {
				if target := p.SSA.FuncValue(obj); target != nil {
					out = append(out, target)
					return
				}
			}
			ok = false
		default:
			ok = false
		}
	}
	walk(cc.Value, 0)
	if !ok {
		return nil
	}
	return out
}
