package main

// R-C09-SORT, second part: the ordering is a total order only if the KIND of comparison is decided by the classes of
// the two values alone and consistently: two numbers numerically (an integer next to a float too), a number and a
// non-number by their class, two non-numbers by text. An ordering that compares 10 with 2.5 or with "1a" by text while
// it compares 2 with 10 numerically has cycles (10 < 2.5 < 3 < 10): the result of `sorted` — and the order in which a
// map is iterated — then depends on the order the values arrive in. Decided by walking the comparison function once
// per pair of classes {integer, float, other}² with the Is… predicates evaluated on the classes.

import (
	"go/constant"
	"go/token"
	"go/types"
	"sort"
	"strings"

	"golang.org/x/tools/go/ssa"
)

type valClass int

const (
	clsInt valClass = iota
	clsFloat
	clsOther
)

func (c valClass) String() string { return [...]string{"integer", "float", "other"}[c] }

// tri-state
const (
	triF = 0
	triT = 1
	triU = 2
)

type lessWalker struct {
	p     *Prog
	f     *ssa.Function
	cls   map[string]valClass // VN of operand -> class
	modes map[string]bool
	steps int
	num   bool // a numerical comparison was passed on the current path
	// evaluation of a package predicate called by the comparison function (tol_U4.go): the walker of the callee
	depth    int
	onReturn func(ret *ssa.Return, from *ssa.BasicBlock)
	cut      bool // the walk was given up somewhere (budget, loop): what it collected is incomplete
}

func (w *lessWalker) pred(name string, c valClass) int {
	b := func(x bool) int {
		if x {
			return triT
		}
		return triF
	}
	switch name {
	case "IsInteger":
		return b(c == clsInt)
	case "IsFloat":
		return b(c == clsFloat)
	case "IsNumber":
		return b(c != clsOther)
	}
	if c != clsOther {
		// IsString, IsBool, IsNil, IsTime, … of a number
		if strings.HasPrefix(name, "Is") {
			return triF
		}
	}
	return triU
}

func (w *lessWalker) eval(v ssa.Value, from *ssa.BasicBlock) int {
	switch x := v.(type) {
	case *ssa.Const:
		if x.Value != nil && x.Value.Kind() == constant.Bool {
			if constant.BoolVal(x.Value) {
				return triT
			}
			return triF
		}
	case *ssa.UnOp:
		if x.Op == token.NOT {
			switch w.eval(x.X, from) {
			case triT:
				return triF
			case triF:
				return triT
			}
		}
	case *ssa.BinOp:
		if x.Op == token.EQL || x.Op == token.NEQ {
			if bt, ok := x.X.Type().Underlying().(*types.Basic); ok && bt.Info()&types.IsBoolean != 0 {
				a, b := w.eval(x.X, from), w.eval(x.Y, from)
				if a != triU && b != triU {
					if (a == b) == (x.Op == token.EQL) {
						return triT
					}
					return triF
				}
			}
		}
	case *ssa.Phi:
		if from != nil && x.Block() != nil {
			for i, pb := range x.Block().Preds {
				if pb == from {
					return w.eval(x.Edges[i], nil)
				}
			}
		}
	case *ssa.Call:
		if callee := x.Common().StaticCallee(); callee != nil && len(x.Common().Args) > 0 {
			if c, ok := w.cls[w.p.VN(x.Common().Args[0])]; ok {
				if t := w.pred(callee.Name(), c); t != triU {
					return t
				}
			}
			// a predicate of the package that wraps the Is… tests (isIntegerPair(a, b)): walked with the classes of the
			// arguments bound to its parameters
			return w.evalPredicateCall(x)
		}
	}
	return triU
}

// modeOf classifies what a return value compares.
func (w *lessWalker) modeOf(v ssa.Value, from *ssa.BasicBlock) string {
	if phi, ok := v.(*ssa.Phi); ok && from != nil {
		for i, pb := range phi.Block().Preds {
			if pb == from {
				return w.modeOf(phi.Edges[i], nil)
			}
		}
	}
	bo, ok := v.(*ssa.BinOp)
	if ok {
		// a.Cmp(b) < 0 on math/big numbers: exact
		if c, isCall := bo.X.(*ssa.Call); isCall && c.Common().StaticCallee() != nil && c.Common().StaticCallee().Name() == "Cmp" && c.Common().StaticCallee().Pkg != nil && c.Common().StaticCallee().Pkg.Pkg.Path() == "math/big" {
			return "exact"
		}
	}
	if ok && (bo.Op == token.LSS || bo.Op == token.GTR || bo.Op == token.LEQ || bo.Op == token.GEQ) {
		if bt, ok := bo.X.Type().Underlying().(*types.Basic); ok {
			switch {
			case bt.Info()&types.IsFloat != 0:
				return "float"
			case bt.Info()&types.IsInteger != 0:
				return "integer"
			case bt.Info()&types.IsString != 0:
				return "text"
			}
		}
	}
	switch w.eval(v, from) {
	case triT, triF:
		return "class"
	}
	if _, _, isNil := condIsNilTest(v); isNil {
		return "nil-test" // `bi == nil`: a number without a value (NaN) is put first
	}
	if c, ok := v.(*ssa.Call); ok && c.Common().StaticCallee() != nil && strings.HasPrefix(c.Common().StaticCallee().Name(), "Is") {
		return "class"
	}
	return "?"
}

func (w *lessWalker) walk(b, from *ssa.BasicBlock, seen map[*ssa.BasicBlock]int) {
	w.steps++
	if w.steps > 20000 || seen[b] > 2 {
		w.cut = true
		return
	}
	seen[b]++
	defer func() { seen[b]-- }()
	// a numerical comparison on the way (an exact Cmp of math/big numbers): what follows it on this path breaks ties
	// between numerically equal values
	prevNum := w.num
	defer func() { w.num = prevNum }()
	for _, in := range b.Instrs {
		if c, ok := in.(*ssa.Call); ok && c.Common().StaticCallee() != nil && c.Common().StaticCallee().Name() == "Cmp" && c.Common().StaticCallee().Pkg != nil && c.Common().StaticCallee().Pkg.Pkg.Path() == "math/big" {
			w.num = true
		}
		// … or the operands were turned into exact numbers (a call that yields a math/big number): between two
		// numbers that have none (NaN) the text decides
		if c, ok := in.(*ssa.Call); ok {
			if pt, isP := c.Type().(*types.Pointer); isP {
				if nt, isN := pt.Elem().(*types.Named); isN && nt.Obj().Pkg() != nil && nt.Obj().Pkg().Path() == "math/big" {
					w.num = true
				}
			}
		}
	}
	switch t := b.Instrs[len(b.Instrs)-1].(type) {
	case *ssa.If:
		switch w.eval(t.Cond, from) {
		case triT:
			w.walk(b.Succs[0], b, seen)
		case triF:
			w.walk(b.Succs[1], b, seen)
		default:
			w.walk(b.Succs[0], b, seen)
			w.walk(b.Succs[1], b, seen)
		}
	case *ssa.Jump:
		w.walk(b.Succs[0], b, seen)
	case *ssa.Return:
		if w.onReturn != nil {
			w.onReturn(t, from)
		} else if len(t.Results) == 1 {
			m := w.modeOf(t.Results[0], from)
			if m == "text" && w.num {
				m = "tie-break"
			}
			w.modes[m] = true
		}
	}
}

// comparisonFunction: the function of Less' cluster that holds the ordering: the one with a numeric/text `<` whose
// operands come from two values it asks Is… predicates of.
func comparisonFunction(p *Prog, less *ssa.Function) (*ssa.Function, []string) {
	for _, fn := range clusterOf(p, less, 1) {
		if recv := fn.Signature.Recv(); recv != nil && fn != less {
			continue
		}
		ops := map[string]bool{}
		for _, b := range fn.Blocks {
			for _, in := range b.Instrs {
				c, ok := in.(*ssa.Call)
				if !ok || c.Common().StaticCallee() == nil || len(c.Common().Args) == 0 {
					continue
				}
				n := c.Common().StaticCallee().Name()
				if n == "IsInteger" || n == "IsFloat" || n == "IsNumber" {
					ops[p.VN(c.Common().Args[0])] = true
				}
			}
		}
		if len(ops) == 2 {
			var out []string
			for k := range ops {
				out = append(out, k)
			}
			sort.Strings(out)
			return fn, out
		}
	}
	return nil, nil
}

func ruleC09SortTotal(p *Prog, a *Anchors, r *Report) {
	for _, f := range p.inPkgFuncsSorted(p.allFuncSet()) {
		if f.Name() != "Less" || f.Signature.Recv() == nil || f.Signature.Params().Len() != 2 || f.Signature.Results().Len() != 1 {
			continue
		}
		cmp, ops := comparisonFunction(p, f)
		if cmp == nil {
			r.Assume(p.FuncName(f)+":classes", p.Pos(f.Pos()), "the ordering does not ask two values for their numeric class (Is… predicates); the rule cannot read the kind of comparison off this shape")
			continue
		}
		modesOf := func(ca, cb valClass) []string {
			w := &lessWalker{p: p, f: cmp, cls: map[string]valClass{ops[0]: ca, ops[1]: cb}, modes: map[string]bool{}}
			w.walk(cmp.Blocks[0], nil, map[*ssa.BasicBlock]int{})
			var out []string
			for m := range w.modes {
				out = append(out, m)
			}
			sort.Strings(out)
			return out
		}
		only := func(ms []string, allowed ...string) bool {
			for _, m := range ms {
				ok := false
				for _, al := range allowed {
					if m == al {
						ok = true
					}
				}
				if !ok {
					return false
				}
			}
			return len(ms) > 0
		}
		// an integer next to a float: numerically
		key := p.FuncName(f) + ":mixed-numbers"
		m1, m2 := modesOf(clsInt, clsFloat), modesOf(clsFloat, clsInt)
		has := func(ms []string, m string) bool {
			for _, x := range ms {
				if x == m {
					return true
				}
			}
			return false
		}
		numeric := func(ms []string) bool {
			return (has(ms, "float") || has(ms, "exact")) && only(ms, "float", "exact", "tie-break", "nil-test")
		}
		if numeric(m1) && numeric(m2) {
			r.OK(key, p.Pos(cmp.Pos()), "an integer and a float are compared numerically (%v)", m1)
		} else {
			r.Bad(key, p.Pos(cmp.Pos()), "an integer next to a float is not compared numerically (integer/float: %v, float/integer: %v) while two integers and two floats are: 10 sorts before 2.5 and after 3 — the ordering has cycles, so the result of `sorted` and the iteration order of a map depend on the order of arrival", m1, m2)
		}
		// a number next to something else: by class
		key = p.FuncName(f) + ":number-vs-other"
		bad := ""
		for _, pr := range [][2]valClass{{clsInt, clsOther}, {clsOther, clsInt}, {clsFloat, clsOther}, {clsOther, clsFloat}} {
			if ms := modesOf(pr[0], pr[1]); !only(ms, "class") {
				bad += " " + pr[0].String() + "/" + pr[1].String() + ":" + strings.Join(ms, ",")
			}
		}
		if bad == "" {
			r.OK(key, p.Pos(cmp.Pos()), "a number and a non-number are ordered by their class alone")
		} else {
			r.Bad(key, p.Pos(cmp.Pos()), "a number next to a value that is no number is compared by content (%s) although numbers are compared numerically among themselves: 2 < 10 < \"1a\" < 2 — no total order, so the result of `sorted` and the iteration order of a map depend on the order of arrival", strings.TrimSpace(bad))
		}
	}
}

// R-C09-STATEONCE: what a tag remembers between its executions within one rendering (ifchanged's previous values) lives in
// the rendering's node state. A fresh state object may be installed only where none was stored yet: a tag that starts
// afresh under any other condition (a new run of an inner loop, another calling context) forgets the previous
// iteration, and `ifchanged` prints what did not change.
func ruleC09StateOnce(p *Prog, a *Anchors, r *Report) {
	r.Begin("R-C09-STATEONCE", "a node installs a freshly allocated state object for the rendering only on the edge on which no state was stored yet (the stored state is nil)", 1)
	n := 0
	for _, f := range p.inPkgFuncsSorted(a.ExecReach()) {
		for _, b := range f.Blocks {
			for _, in := range b.Instrs {
				c, ok := in.(*ssa.Call)
				if !ok || c.Common().StaticCallee() == nil || !c11WritesNodeState(c.Common().StaticCallee()) || !p.InPkg(c.Common().StaticCallee()) {
					continue
				}
				args := c.Common().Args
				v := args[len(args)-1]
				if mi, isMI := v.(*ssa.MakeInterface); isMI {
					v = mi.X
				}
				if _, isAlloc := v.(*ssa.Alloc); !isAlloc {
					continue
				}
				n++
				key := p.FuncName(f) + ":fresh-state"
				absent := Guarded(in, func(cond ssa.Value, pol bool) bool {
					// `state, ok := ctx.getNodeState(node).(*T)`: not ok means nothing (of that type) is stored
					if ex, isEx := cond.(*ssa.Extract); isEx && ex.Index == 1 && !pol {
						if ta, isTA := ex.Tuple.(*ssa.TypeAssert); isTA && ta.CommaOk {
							if c, isC := ta.X.(*ssa.Call); isC && c.Common().StaticCallee() != nil && c11ReadsNodeState(c.Common().StaticCallee()) {
								return true
							}
						}
					}
					x, eq, isNil := condIsNilTest(cond)
					if !isNil || eq != pol {
						return false
					}
					// x comes out of getNodeState
					for d := 0; d < 4 && x != nil; d++ {
						switch t := x.(type) {
						case *ssa.Extract:
							x = t.Tuple
						case *ssa.TypeAssert:
							x = t.X
						case *ssa.Call:
							return t.Common().StaticCallee() != nil && c11ReadsNodeState(t.Common().StaticCallee())
						default:
							return false
						}
					}
					return false
				})
				if absent {
					r.OK(key, p.InstrPos(in), "a fresh state is installed only when the rendering has none for this node")
				} else {
					r.Bad(key, p.InstrPos(in), "%s can replace the state it stored earlier in the same rendering by a fresh one (the store is not limited to the edge on which the stored state is nil): what the tag remembered from the previous iteration is lost — ifchanged prints an unchanged value again, e.g. at every new run of an inner loop", p.FuncName(f))
				}
			}
		}
	}
	if n == 0 {
		r.Trivial("none", "-", "no node installs a freshly allocated state object")
	}
}

// R-C09-MAPREV: "`for` renders its body once per element in order (reversed, sorted, and key/value over maps as
// requested)". The keys of a map are always visited in sorted order, so `reversed` has a meaning for a map as well:
// the reverse of what the loop without it renders. In the map arm of the iteration the direction is decided by the
// reverse flag alone — not only together with `sorted`.
func ruleC09MapReversed(p *Prog, a *Anchors, r *Report) {
	r.Begin("R-C09-MAPREV", "where the iteration sorts the keys of a map, the descending sort is taken exactly when the `reversed` flag is set (not only together with `sorted`), the ascending one exactly when it is not", 1)
	it := p.Method("Value", "IterateOrder")
	if it == nil {
		r.Unk("anchor", "-", "anchor unresolved: (*Value).IterateOrder")
		return
	}
	var bools []*ssa.Parameter
	for _, pa := range it.Params {
		if bt, ok := pa.Type().Underlying().(*types.Basic); ok && bt.Kind() == types.Bool {
			bools = append(bools, pa)
		}
	}
	if len(bools) != 2 {
		r.Unk("flags", p.Pos(it.Pos()), "expected two boolean flags (reverse, sorted), found %d", len(bools))
		return
	}
	reverse, sorted := bools[0], bools[1]
	// a context: the function a sort stands in, with its parameters bound to the arguments of the call in IterateOrder
	// (sortValues(keys, reverse), v.iterateMap(fn, empty, reverse)); nil binding = IterateOrder itself
	type sortCtx struct {
		fn   *ssa.Function
		bind map[*ssa.Parameter]ssa.Value
	}
	ctxs := []sortCtx{{it, nil}}
	for _, b := range it.Blocks {
		for _, in := range b.Instrs {
			c, ok := in.(*ssa.Call)
			if !ok || c.Common().StaticCallee() == nil || !p.InPkg(c.Common().StaticCallee()) || c.Common().StaticCallee().Blocks == nil || c.Common().StaticCallee() == it {
				continue
			}
			h := c.Common().StaticCallee()
			bind := map[*ssa.Parameter]ssa.Value{}
			for i, arg := range callArgs(c.Common()) {
				if i < len(h.Params) {
					bind[h.Params[i]] = arg
				}
			}
			ctxs = append(ctxs, sortCtx{h, bind})
		}
	}
	resolve := func(v ssa.Value, cx sortCtx) ssa.Value {
		v = unspillParam(v)
		if pa, ok := v.(*ssa.Parameter); ok && cx.bind != nil {
			if a, has := cx.bind[pa]; has {
				return unspillParam(a)
			}
		}
		return v
	}
	fromMapKeys := func(v ssa.Value, cx sortCtx) bool {
		for d := 0; d < 6; d++ {
			v = resolve(v, cx)
			switch x := v.(type) {
			case *ssa.MakeInterface:
				v = x.X
			case *ssa.ChangeType:
				v = x.X
			case *ssa.Call:
				if x.Common().StaticCallee() != nil && p.extName(x.Common().StaticCallee()) == "(reflect.Value).MapKeys" {
					return true
				}
				return false
			default:
				return false
			}
		}
		return false
	}
	n := 0
	seenKey := map[string]bool{}
	for _, cx := range ctxs {
		cx := cx
		isFlag := func(pa *ssa.Parameter, want bool) func(ssa.Value, bool) bool {
			return func(c ssa.Value, pol bool) bool { return resolve(c, cx) == ssa.Value(pa) && pol == want }
		}
		for _, b := range cx.fn.Blocks {
			for _, in := range b.Instrs {
				c, ok := in.(*ssa.Call)
				if !ok || c.Common().StaticCallee() == nil || p.extName(c.Common().StaticCallee()) != "sort.Sort" {
					continue
				}
				arg := c.Common().Args[0]
				desc := false
				if mi, isMI := arg.(*ssa.MakeInterface); isMI {
					arg = mi.X
				}
				if rc, isCall := arg.(*ssa.Call); isCall && rc.Common().StaticCallee() != nil && p.extName(rc.Common().StaticCallee()) == "sort.Reverse" {
					desc = true
					arg = rc.Common().Args[0]
				}
				if !fromMapKeys(arg, cx) {
					continue
				}
				n++
				key := "map:ascending"
				if desc {
					key = "map:descending"
				}
				if seenKey[key] {
					key += "#" + itoa(int64(n))
				}
				seenKey[key] = true
				if desc {
					switch {
					case !Guarded(in, isFlag(reverse, true)):
						r.Bad(key, p.InstrPos(in), "the keys of a map are sorted in descending order without the `reversed` flag being set")
					case Guarded(in, isFlag(sorted, true)):
						r.Bad(key, p.InstrPos(in), "the keys of a map are visited in reverse only when `sorted` is given as well: {%% for k, v in m reversed %%} renders the same as without `reversed`, although the keys of a map are always visited in sorted order")
					default:
						r.OK(key, p.InstrPos(in), "descending exactly under the `reversed` flag")
					}
				} else {
					if Guarded(in, isFlag(reverse, false)) {
						r.OK(key, p.InstrPos(in), "ascending only when `reversed` is not set")
					} else {
						r.Bad(key, p.InstrPos(in), "the keys of a map are sorted in ascending order also when `reversed` is set")
					}
				}
			}
		}
	}
	if n == 0 {
		r.Unk("map-arm", p.Pos(it.Pos()), "no sort of map keys found in the iteration")
	}
}

// R-C09-IF `else:last`. The if node pairs its i-th body with its i-th condition and takes one body more than there
// are conditions as the else-part — which is right only if `else` is the last part. The parser's loop accepts elif,
// else and endif in every pass, so it has to remember that it has seen `else` and refuse anything but endif after it:
// some boolean that the loop carries from one pass to the next (set from the end tag's name) guards an error return.
// Without it {% if a %}A{% else %}E{% elif b %}B{% endif %} compiles and renders the else-part for b, and B for
// neither.
func ruleC09IfElseLast(p *Prog, a *Anchors, r *Report) {
	f := a.TagParsers["if"]
	if f == nil {
		r.Unk("else:last", "-", "anchor unresolved: the parser registered as \"if\"")
		return
	}
	var wrapCall ssa.Instruction
	for _, b := range f.Blocks {
		for _, in := range b.Instrs {
			if c, ok := in.(*ssa.Call); ok && c.Common().StaticCallee() != nil && c.Common().StaticCallee().Name() == "WrapUntilTag" && innermostLoopHeader(b) != nil {
				wrapCall = in
			}
		}
	}
	if wrapCall == nil {
		r.Unk("else:last", p.Pos(f.Pos()), "no WrapUntilTag call inside a loop of the if-parser")
		return
	}
	hdr := innermostLoopHeader(wrapCall.Block())
	// loop-carried booleans: bool phis in the loop header (or cells stored inside the loop) …
	isCarried := func(v ssa.Value) bool {
		if u, isU := v.(*ssa.UnOp); isU && u.Op == token.MUL {
			if _, isAlloc := u.X.(*ssa.Alloc); isAlloc {
				for _, sv := range refs(u.X) {
					if st, isSt := sv.(*ssa.Store); isSt && hdr.Dominates(st.Block()) {
						return true
					}
				}
			}
		}
		if phi, isPhi := v.(*ssa.Phi); isPhi && phi.Block() == hdr {
			if bt, isB := phi.Type().Underlying().(*types.Basic); isB && bt.Info()&types.IsBoolean != 0 {
				return true
			}
		}
		return false
	}
	guarded := false
	for _, b := range f.Blocks {
		if !hdr.Dominates(b) || !errorReturnsOnly(f, b) || len(b.Instrs) == 0 {
			continue
		}
		if Guarded(b.Instrs[0], func(c ssa.Value, pol bool) bool { return isCarried(c) }) {
			guarded = true
		}
	}
	// … or the loop goes on only after an `elif` (every back edge lies on the Endtag == "elif" side): `else` ends it, and
	// what follows the else-part is checked outside the loop
	if !guarded {
		isElifEdge := func(c ssa.Value, pol bool) bool {
			bo, ok := c.(*ssa.BinOp)
			if !ok || (bo.Op != token.EQL && bo.Op != token.NEQ) {
				return false
			}
			for _, pr := range [][2]ssa.Value{{bo.X, bo.Y}, {bo.Y, bo.X}} {
				if s, isC := constString(pr[1]); isC && s == "elif" && loadsField(pr[0], "NodeWrapper", "Endtag") {
					return (bo.Op == token.EQL) == pol
				}
			}
			return false
		}
		back, all := 0, true
		for _, pr := range hdr.Preds {
			if !hdr.Dominates(pr) || len(pr.Instrs) == 0 {
				continue
			}
			back++
			if !Guarded(pr.Instrs[len(pr.Instrs)-1], isElifEdge) {
				all = false
			}
		}
		if back > 0 && all {
			// … and after the loop, what follows an else is accepted only when it is closed by endif: a refusal guarded
			// by an Endtag comparison stands outside the loop
			for _, b := range f.Blocks {
				if hdr.Dominates(b) && ReachableBlocks(b)[hdr] {
					continue // inside the loop
				}
				if !errorReturnsOnly(f, b) || len(b.Instrs) == 0 {
					continue
				}
				if Guarded(b.Instrs[0], func(c ssa.Value, pol bool) bool {
					bo, ok := c.(*ssa.BinOp)
					if !ok || (bo.Op != token.EQL && bo.Op != token.NEQ) {
						return false
					}
					for _, pr := range [][2]ssa.Value{{bo.X, bo.Y}, {bo.Y, bo.X}} {
						if s, isC := constString(pr[1]); isC && s == "endif" && loadsField(pr[0], "NodeWrapper", "Endtag") {
							return (bo.Op == token.NEQ) == pol
						}
					}
					return false
				}) {
					guarded = true
				}
			}
		}
	}
	// … or the names handed to WrapUntilTag differ from pass to pass
	if c := wrapCall.(*ssa.Call); len(c.Common().Args) > 1 {
		if _, isPhi := c.Common().Args[1].(*ssa.Phi); isPhi {
			guarded = true
		}
	}
	if guarded {
		r.OK("else:last", p.InstrPos(wrapCall), "the loop remembers across passes that `else` was seen and refuses (or no longer accepts) elif/else after it")
	} else {
		r.Bad("else:last", p.InstrPos(wrapCall), "the if-parser accepts elif, else and endif in every pass of its loop and carries nothing from pass to pass that says `else` was seen: {%% if a %%}A{%% else %%}E{%% elif b %%}B{%% endif %%} compiles, and since the node takes a body without condition as the else-part only at the end, it renders E when b is the first true condition and B when none is")
	}
}
