package main

// C09 — branching and looping: R-C09-STATE, COMPL, IF, FOR, LOOPINFO, IDX, IFCH.

import (
	"go/token"
	"go/types"
	"math"
	"strings"

	"golang.org/x/tools/go/ssa"
)

func init() { register("C09", checkC09) }

func checkC09(p *Prog, r *Report) {
	a := ResolveAnchors(p)
	if !anchorCheck(a, r) {
		return
	}
	// cycle / ifchanged keep their position per render: no store into their node types during execution
	ruleC09State(p, a, r)
	ruleC09Compl(p, a, r)
	ruleC09If(p, a, r)
	ruleC09For(p, a, r)
	ruleC09LoopInfo(p, a, r)
	ruleC09Idx(p, a, r)
	ruleC09Ifchanged(p, a, r)
	ruleC09Shared(p, a, r)
	ruleC09SortOrder(p, a, r)
	ruleC09SortTotal(p, a, r)
	ruleC09StateOnce(p, a, r)
	ruleC09MapReversed(p, a, r)
}

func ruleC09State(p *Prog, a *Anchors, r *Report) {
	r.Begin("R-C09-STATE", "cycle and ifchanged keep their position in per-execution memory: execution never stores into their compiled nodes", 1)
	n := 0
	for _, je := range p.JudgeEffects(a.ExecReach(), entrySet(a)) {
		e := je.E
		if e.Target.Type != "tagCycleNode" && e.Target.Type != "tagIfchangedNode" {
			continue
		}
		n++
		nf, where := je.nonFresh()
		if len(nf) > 0 {
			r.Bad(p.effectKey(e), p.InstrPos(e.Instr), "%s during execution (origin %s, judged in %s): the position survives into the next rendering and is shared by concurrent renderings", e.Desc, rootsString(nf), where)
		} else {
			r.OK(p.effectKey(e), p.InstrPos(e.Instr), "%s: fresh object", e.Desc)
		}
	}
	// the state they do keep must be keyed per execution: it is read/written through ExecutionContext
	for _, typ := range []string{"tagCycleNode", "tagIfchangedNode"} {
		f := p.Method(typ, "Execute")
		if f == nil {
			r.Unk(typ, "-", "anchor unresolved: (*%s).Execute", typ)
			continue
		}
		uses := false
		for _, fn := range p.inPkgFuncsSorted(p.Reach(p.CG, []*ssa.Function{f}, map[*ssa.Function]bool{a.NewTemplate: true})) {
			for _, b := range fn.Blocks {
				for _, in := range b.Instrs {
					if mu, ok := in.(*ssa.MapUpdate); ok {
						if _, n, _ := fieldLoadBase(mu.Map); n != nil && n.Obj().Name() == "ExecutionContext" {
							uses = true
						}
					}
				}
			}
		}
		if uses {
			r.OK(typ+":state-in-context", p.Pos(f.Pos()), "state is written into a map owned by the ExecutionContext")
		} else {
			r.Bad(typ+":state-in-context", p.Pos(f.Pos()), "%s keeps no per-execution state at all: cycle cannot advance / ifchanged cannot compare within one rendering", typ)
		}
	}
	if n == 0 {
		r.Trivial("stores", "-", "0 stores into tagCycleNode/tagIfchangedNode reachable from execution")
	}
}

// ruleC09Shared: the map in which cycle/ifchanged keep their state is one per rendering: made when the root execution
// context is made and handed on by reference to every child context. (If it is made lazily by whichever context
// stores first, a tag in a nested loop writes into a map its siblings and later iterations never see.)
func ruleC09Shared(p *Prog, a *Anchors, r *Report) {
	r.Begin("R-C09-SHARED", "the per-rendering state map of cycle/ifchanged is allocated with the root execution context and shared by reference with every child context", 2)
	// the field: ExecutionContext.<f> of map type that the two tags' state is written into
	fields := map[string]bool{}
	for _, typ := range []string{"tagCycleNode", "tagIfchangedNode"} {
		f := p.Method(typ, "Execute")
		if f == nil {
			continue
		}
		for _, fn := range p.inPkgFuncsSorted(p.Reach(p.CG, []*ssa.Function{f}, map[*ssa.Function]bool{a.NewTemplate: true})) {
			for _, b := range fn.Blocks {
				for _, in := range b.Instrs {
					if mu, ok := in.(*ssa.MapUpdate); ok {
						if _, n, fld := fieldLoadBase(mu.Map); n != nil && n.Obj().Name() == "ExecutionContext" && fld != "Private" && fld != "Public" && fld != "Shared" {
							fields[fld] = true
						}
					}
				}
			}
		}
	}
	if len(fields) != 1 {
		r.Unk("state-field", "-", "expected exactly one ExecutionContext map field holding tag state, found %v", sortedKeys(fields))
		return
	}
	field := sortedKeys(fields)[0]
	newChild := p.Func("NewChildExecutionContext")
	var rootCtor *ssa.Function
	// the root constructor: the function allocating an ExecutionContext that is not NewChildExecutionContext and is
	// called from the execution funnel
	p.EachInstr(func(f *ssa.Function, in ssa.Instruction) {
		if al, ok := in.(*ssa.Alloc); ok && f != newChild {
			if pt, ok := al.Type().(*types.Pointer); ok && types.Identical(pt.Elem(), a.ExecCtx) && p.InPkg(f) {
				rootCtor = f
			}
		}
	})
	if newChild == nil || rootCtor == nil {
		r.Unk("anchor", "-", "anchor unresolved: NewChildExecutionContext / the root context constructor")
		return
	}
	check := func(f *ssa.Function, key string, want func(v ssa.Value) bool, okMsg, badMsg string) {
		var st *ssa.Store
		n := 0
		for _, b := range f.Blocks {
			for _, in := range b.Instrs {
				if s, ok := in.(*ssa.Store); ok && isFieldAddrOf(s.Addr, "ExecutionContext", field) {
					st = s
					n++
				}
			}
		}
		if n == 0 {
			// a helper that is handed the new context and the one it comes from (child.inheritRendering(parent)) sets it
			for _, b := range f.Blocks {
				for _, in := range b.Instrs {
					c, ok := in.(*ssa.Call)
					if !ok || c.Common().StaticCallee() == nil || c.Common().StaticCallee().Blocks == nil || !p.InPkg(c.Common().StaticCallee()) {
						continue
					}
					g := c.Common().StaticCallee()
					args := callArgs(c.Common())
					for _, gb := range g.Blocks {
						for _, gi := range gb.Instrs {
							gs, ok := gi.(*ssa.Store)
							if !ok || !isFieldAddrOf(gs.Addr, "ExecutionContext", field) {
								continue
							}
							// the value: the same field of a parameter of g for which f passes one of its own parameters
							base, bn, bfld := fieldLoadBase(gs.Val)
							gp, isGP := base.(*ssa.Parameter)
							if bn == nil || bn.Obj().Name() != "ExecutionContext" || bfld != field || !isGP {
								continue
							}
							idx := indexOfParam(g, gp)
							if idx < 0 || idx >= len(args) {
								continue
							}
							if _, fromParam := stripLoad(args[idx]).(*ssa.Parameter); !fromParam {
								continue
							}
							okAll := true
							for _, ret := range returnsOf(f) {
								if !MustPass(ret, func(x ssa.Instruction) bool { return x == ssa.Instruction(c) }) {
									okAll = false
								}
							}
							if okAll && want(gs.Val) {
								r.OK(key, p.InstrPos(in), "%s (through %s)", okMsg, p.FuncName(g))
								return
							}
						}
					}
				}
			}
		}
		switch {
		case n == 0:
			r.Bad(key, p.Pos(f.Pos()), "%s does not set ExecutionContext.%s: %s", p.FuncName(f), field, badMsg)
		case n > 1 || !want(st.Val):
			r.Bad(key, p.InstrPos(st), "ExecutionContext.%s is set to %s: %s", field, p.VN(st.Val), badMsg)
		default:
			// on every path to the return
			ok := true
			for _, ret := range returnsOf(f) {
				if !MustPass(ret, func(x ssa.Instruction) bool { return x == ssa.Instruction(st) }) {
					ok = false
				}
			}
			if ok {
				r.OK(key, p.InstrPos(st), "%s", okMsg)
			} else {
				r.Bad(key, p.InstrPos(st), "ExecutionContext.%s is not set on every path: %s", field, badMsg)
			}
		}
	}
	check(rootCtor, p.FuncName(rootCtor)+":alloc", func(v ssa.Value) bool { _, ok := v.(*ssa.MakeMap); return ok },
		"the root context gets a freshly made state map", "without a map made here, the first tag that stores state makes one in its own (child) context only")
	check(newChild, "NewChildExecutionContext:share", func(v ssa.Value) bool {
		base, n, fld := fieldLoadBase(v)
		_, isParam := base.(*ssa.Parameter)
		return n != nil && n.Obj().Name() == "ExecutionContext" && fld == field && isParam
	}, "the child context refers to its parent's state map", "a child context with its own (or no) state map hides the positions stored by the tags executed in it from the next iteration")
	// a template executed by another one (include, ssi) is part of the same rendering: where the executor builds the
	// context of such a nested execution it takes over the state map of the context that executes it. (Otherwise
	// {% for x in xs %}{% include "row" %}{% endfor %} with an ifchanged/cycle in row starts anew in every pass.)
	ex := a.ExecCore
	var from *ssa.Parameter
	if ex != nil {
		for _, pa := range ex.Params[1:] {
			if pt, ok := pa.Type().(*types.Pointer); ok && types.Identical(pt.Elem(), a.ExecCtx) {
				from = pa
			}
		}
	}
	key := "nested-execution:share"
	switch {
	case ex == nil:
		r.Unk(key, "-", "anchor unresolved: the executor")
	case from == nil:
		r.Bad(key, p.Pos(ex.Pos()), "the executor is not told which context executes a nested template (no *ExecutionContext parameter): every include/ssi starts a rendering of its own, with fresh cycle/ifchanged state")
	default:
		taken := false
		for _, b := range ex.Blocks {
			for _, in := range b.Instrs {
				s, ok := in.(*ssa.Store)
				if !ok || !isFieldAddrOf(s.Addr, "ExecutionContext", field) {
					continue
				}
				base, n, fld := fieldLoadBase(s.Val)
				if n != nil && n.Obj().Name() == "ExecutionContext" && fld == field && stripLoad(base) == ssa.Value(from) {
					taken = Guarded(in, func(c ssa.Value, pol bool) bool {
						x, eq, isNil := condIsNilTest(c)
						return isNil && stripLoad(x) == ssa.Value(from) && eq != pol
					})
				}
			}
		}
		if !taken {
			// the take-over was extracted into a helper the executor calls with `from` (ctx.continueRendering(from)): the
			// nil test may stand there as an early return
			taken = u4StateTakenOverInHelper(p, ex, from, field, false, 0)
		}
		// the tags that execute templates hand their own context over
		handed, sites := true, 0
		for _, e := range p.Callers(p.CG, ex) {
			caller := e.Site.Parent()
			args := callArgs(e.Site.Common())
			idx := indexOfParam(ex, from)
			if idx >= len(args) {
				continue
			}
			arg := stripLoad(args[idx])
			if isNilConst(arg) {
				continue // executed by the caller of the library
			}
			sites++
			// through the delegating wrappers: the argument is the wrapper's own parameter or the tag's ctx
			if _, isP := arg.(*ssa.Parameter); !isP {
				handed = false
			}
			_ = caller
		}
		// … all the way from the tags: a function that has an execution context of its own (a node's Execute) and starts
		// a nested execution — directly or through the delegating wrappers — hands over exactly that context, on
		// every path (not nil for one form of the tag: {% include … only %} is part of the rendering, too)
		type hop struct {
			fn  *ssa.Function
			idx int
		}
		seenHop := map[*ssa.Function]bool{ex: true}
		work := []hop{{ex, indexOfParam(ex, from)}}
		for len(work) > 0 {
			h := work[0]
			work = work[1:]
			for _, e := range p.Callers(p.CG, h.fn) {
				site, isInstr := e.Site.(ssa.Instruction)
				caller := e.Site.Parent()
				args := callArgs(e.Site.Common())
				if !isInstr || caller == nil || !p.InPkg(caller) || h.idx >= len(args) {
					continue
				}
				arg := unspillParam(args[h.idx])
				own := paramOfType(topLevel(caller), types.NewPointer(a.ExecCtx))
				if pa, isP := arg.(*ssa.Parameter); isP && pa.Parent() == caller && caller.Signature.Recv() != nil && structOf(caller.Signature.Recv().Type()) == a.Template {
					// a delegating wrapper (a method of the template that passes its parameter on): follow its callers
					if !seenHop[caller] {
						seenHop[caller] = true
						work = append(work, hop{caller, indexOfParam(caller, pa)})
					}
					continue
				}
				if own == nil || topLevel(caller) != caller {
					continue // an entry point of the library: no executing context
				}
				if structOf(caller.Signature.Recv().Type()) == a.Template {
					continue
				}
				hkey := p.FuncName(caller) + ":hands-context-on"
				if arg == ssa.Value(own) {
					r.OK(hkey, p.InstrPos(site), "the nested execution is handed the context of the tag that starts it")
				} else {
					r.Bad(hkey, p.InstrPos(site), "%s starts a nested execution without handing over its own context on every path (argument: %s): that execution is a rendering of its own — cycle and ifchanged in the included template start anew in every pass of a loop, and the macro depth counts from zero", p.FuncName(caller), p.VN(args[h.idx]))
				}
			}
		}
		switch {
		case !taken:
			r.Bad(key, p.Pos(ex.Pos()), "the context of a nested execution does not take over the state map of the context that executes it")
		case !handed || sites == 0:
			r.Bad(key, p.Pos(ex.Pos()), "no tag hands its own context to the nested execution (call sites with a context: %d)", sites)
		default:
			r.OK(key, p.Pos(ex.Pos()), "a nested execution takes over the state map of the executing context (%d call site(s) hand it on)", sites)
		}
	}
}

// branchShape describes an ifequal-like Execute: result = EqualValueTo(first, second) [negated?]; then/else wrappers.
type branchShape struct {
	negated   bool
	order     [2]int
	thenOnPol bool // thenWrapper executed on the edge where the (possibly negated) condition is true
	elseOnPol bool
	ok        bool
	why       string
}

func eqBranchShape(p *Prog, f *ssa.Function, typ string) branchShape {
	bs := branchShape{}
	en := operandFields(p, evalNode{typ, "", "", ""})
	var eq *ssa.Call
	for _, b := range f.Blocks {
		for _, in := range b.Instrs {
			if c, ok := in.(*ssa.Call); ok && c.Common().StaticCallee() != nil && c.Common().StaticCallee().Name() == "EqualValueTo" {
				eq = c
			}
		}
	}
	if eq == nil {
		bs.why = "no EqualValueTo call"
		return bs
	}
	bs.order = [2]int{operandOrdinal(p, eq.Common().Args[0], en, 0), operandOrdinal(p, eq.Common().Args[1], en, 0)}
	// find executions of thenWrapper / elseWrapper
	for _, b := range f.Blocks {
		for _, in := range b.Instrs {
			ci, ok := in.(ssa.CallInstruction)
			if !ok || ci.Common().StaticCallee() == nil || ci.Common().StaticCallee().Name() != "Execute" || len(ci.Common().Args) == 0 {
				continue
			}
			which := ""
			if loadsField(ci.Common().Args[0], typ, "thenWrapper") {
				which = "then"
			} else if loadsField(ci.Common().Args[0], typ, "elseWrapper") {
				which = "else"
			} else {
				continue
			}
			onTrue := Guarded(in, func(c ssa.Value, pol bool) bool { return c == ssa.Value(eq) && pol })
			onFalse := Guarded(in, func(c ssa.Value, pol bool) bool { return c == ssa.Value(eq) && !pol })
			if !onTrue && !onFalse {
				bs.why = which + " wrapper not controlled by the comparison"
				return bs
			}
			if which == "then" {
				bs.thenOnPol = onTrue
			} else {
				bs.elseOnPol = onTrue
			}
		}
	}
	bs.ok = true
	return bs
}

func ruleC09Compl(p *Prog, a *Anchors, r *Report) {
	r.Begin("R-C09-COMPL", "ifequal and ifnotequal are complementary: same comparison of (first, second), then/else executed on opposite edges", 2)
	fe, fn := p.Method("tagIfEqualNode", "Execute"), p.Method("tagIfNotEqualNode", "Execute")
	if fe == nil || fn == nil {
		r.Unk("anchor", "-", "anchor unresolved: ifequal/ifnotequal Execute")
		return
	}
	se, sn := eqBranchShape(p, fe, "tagIfEqualNode"), eqBranchShape(p, fn, "tagIfNotEqualNode")
	if !se.ok || !sn.ok {
		r.Unk("shape", p.Pos(fe.Pos()), "cannot recognise the comparison shape (%s / %s)", se.why, sn.why)
		return
	}
	if se.order == [2]int{1, 2} && sn.order == [2]int{1, 2} {
		r.OK("operands", p.Pos(fe.Pos()), "both compare first.EqualValueTo(second)")
	} else {
		r.Bad("operands", p.Pos(fe.Pos()), "operand order differs: ifequal %v, ifnotequal %v", se.order, sn.order)
	}
	if se.thenOnPol && !se.elseOnPol {
		r.OK("ifequal:polarity", p.Pos(fe.Pos()), "then on equal, else on unequal")
	} else {
		r.Bad("ifequal:polarity", p.Pos(fe.Pos()), "ifequal executes then on equal=%v, else on equal=%v", se.thenOnPol, se.elseOnPol)
	}
	if !sn.thenOnPol && sn.elseOnPol {
		r.OK("ifnotequal:polarity", p.Pos(fn.Pos()), "then on unequal, else on equal")
	} else {
		r.Bad("ifnotequal:polarity", p.Pos(fn.Pos()), "ifnotequal executes then on equal=%v, else on equal=%v: not the complement of ifequal", sn.thenOnPol, sn.elseOnPol)
	}
}

func ruleC09If(p *Prog, a *Anchors, r *Report) {
	r.Begin("R-C09-IF", "if: the i-th body runs only when the i-th condition is true and ends the tag; the else body runs only after the last condition was false; firstof prints the first true argument and stops", 3)
	ruleC09IfElseLast(p, a, r)
	f := p.Method("tagIfNode", "Execute")
	if f == nil {
		r.Unk("anchor", "-", "anchor unresolved: (*tagIfNode).Execute")
		return
	}
	// the condition evaluation and its IsTrue test
	var isTrue *ssa.Call
	var condIdx ssa.Value
	for _, b := range f.Blocks {
		for _, in := range b.Instrs {
			c, ok := in.(*ssa.Call)
			if !ok {
				continue
			}
			if c.Common().IsInvoke() && c.Common().Method.Name() == "Evaluate" {
				if u, ok := c.Common().Value.(*ssa.UnOp); ok {
					if ia, ok := u.X.(*ssa.IndexAddr); ok && loadsField(ia.X, "tagIfNode", "conditions") {
						condIdx = ia.Index
					}
				}
			}
			if c.Common().StaticCallee() != nil && c.Common().StaticCallee().Name() == "IsTrue" {
				isTrue = c
			}
		}
	}
	if isTrue == nil || condIdx == nil {
		r.Unk("shape", p.Pos(f.Pos()), "cannot find the condition loop / IsTrue test")
		return
	}
	if ascendingIndex(condIdx) {
		r.OK("order", p.Pos(f.Pos()), "conditions are tried in ascending order")
	} else {
		r.Bad("order", p.Pos(f.Pos()), "conditions are not tried in written order")
	}
	nBody, nElse := 0, 0
	for _, b := range f.Blocks {
		for _, in := range b.Instrs {
			ci, ok := in.(ssa.CallInstruction)
			if !ok || ci.Common().StaticCallee() == nil || ci.Common().StaticCallee().Name() != "Execute" || len(ci.Common().Args) == 0 {
				continue
			}
			u, ok := ci.Common().Args[0].(*ssa.UnOp)
			if !ok {
				continue
			}
			ia, ok := u.X.(*ssa.IndexAddr)
			if !ok || !loadsField(ia.X, "tagIfNode", "wrappers") {
				continue
			}
			onTrue := Guarded(in, func(c ssa.Value, pol bool) bool { return c == ssa.Value(isTrue) && pol })
			onFalse := Guarded(in, func(c ssa.Value, pol bool) bool { return c == ssa.Value(isTrue) && !pol })
			// the executed wrapper's result is returned directly (ends the tag)
			returned := false
			if v, isV := in.(ssa.Value); isV {
				for _, u := range refs(v) {
					if _, isRet := u.(*ssa.Return); isRet {
						returned = true
					}
					if st, isSt := u.(*ssa.Store); isSt && st.Val == v {
						returned = true
					}
				}
			}
			// after a body ran the tag must end: the condition loop is not re-entered
			if hdr := loopHeaderOf(condIdx); hdr != nil {
				for _, s := range in.Block().Succs {
					if ReachableBlocks(s)[hdr] {
						returned = false
					}
				}
			}
			switch {
			case ia.Index == condIdx || p.VN(ia.Index) == p.VN(condIdx):
				nBody++
				if onTrue && returned {
					r.OK("body", p.InstrPos(in), "wrappers[i] runs on conditions[i].IsTrue() and its result is returned")
				} else {
					r.Bad("body", p.InstrPos(in), "wrappers[i] is not executed exactly on the true edge of conditions[i] (on true: %v, returned: %v)", onTrue, returned)
				}
			default:
				nElse++
				// else: wrappers[i+1] on the false edge, guarded by "last condition" test
				lin, okLin := linearOf(ia.Index, condIdx, nil)
				last := Guarded(in, func(c ssa.Value, pol bool) bool {
					bo, ok := c.(*ssa.BinOp)
					if !ok || bo.Op != token.EQL || !pol {
						return false
					}
					// len(conditions) == i+1
					lo := lenOperand(bo.X)
					return lo != nil && loadsField(lo, "tagIfNode", "conditions")
				})
				if onFalse && okLin && lin.a == 1 && lin.c == 1 && last && returned {
					r.OK("else", p.InstrPos(in), "wrappers[i+1] runs only after the last condition was false")
				} else {
					r.Bad("else", p.InstrPos(in), "the else body is not restricted to 'last condition false' (false edge %v, index i+1 %v, last-condition test %v)", onFalse, okLin && lin.a == 1 && lin.c == 1, last)
				}
			}
		}
	}
	if nBody != 1 || nElse != 1 {
		r.Unk("shape", p.Pos(f.Pos()), "expected one body and one else execution, found %d/%d", nBody, nElse)
	}
	// firstof: sink guarded by IsTrue +, followed by return
	ff := p.Method("tagFirstofNode", "Execute")
	if ff == nil {
		r.Unk("firstof", "-", "anchor unresolved: (*tagFirstofNode).Execute")
		return
	}
	for _, b := range ff.Blocks {
		for _, in := range b.Instrs {
			ci, ok := in.(ssa.CallInstruction)
			if !ok || !ci.Common().IsInvoke() || ci.Common().Method.Name() != "WriteString" {
				continue
			}
			g := Guarded(in, func(c ssa.Value, pol bool) bool {
				cc, ok := c.(*ssa.Call)
				return ok && pol && cc.Common().StaticCallee() != nil && cc.Common().StaticCallee().Name() == "IsTrue"
			})
			// after the sink the function returns without looping again
			loops := false
			for _, s := range b.Succs {
				if ReachableBlocks(s)[b] {
					loops = true
				}
			}
			if g && !loops {
				r.OK("firstof", p.InstrPos(in), "prints only a true argument and returns right after")
			} else {
				r.Bad("firstof", p.InstrPos(in), "firstof's output is not restricted to the first true argument (guarded %v, continues looping %v)", g, loops)
			}
		}
	}
}

func ruleC09For(p *Prog, a *Anchors, r *Report) {
	r.Begin("R-C09-FOR", "for: the body runs in the per-item callback, the empty block only in the empty callback; reversed/sorted are passed in their own positions", 3)
	f := p.Method("tagForNode", "Execute")
	iter := p.Method("Value", "IterateOrder")
	if f == nil || iter == nil {
		r.Unk("anchor", "-", "anchor unresolved: (*tagForNode).Execute / (*Value).IterateOrder")
		return
	}
	calls := callsTo(f, iter)
	if len(calls) != 1 {
		r.Unk("iterate", p.Pos(f.Pos()), "expected one IterateOrder call, found %d", len(calls))
		return
	}
	args := calls[0].Common().Args
	closureOf := func(v ssa.Value) *ssa.Function {
		if mc, ok := v.(*ssa.MakeClosure); ok {
			return mc.Fn.(*ssa.Function)
		}
		return nil
	}
	item, empty := closureOf(args[1]), closureOf(args[2])
	if item == nil || empty == nil {
		r.Unk("callbacks", p.InstrPos(calls[0].(ssa.Instruction)), "callbacks are not closures")
		return
	}
	executes := func(fn *ssa.Function, field string) bool {
		for _, b := range fn.Blocks {
			for _, in := range b.Instrs {
				if ci, ok := in.(ssa.CallInstruction); ok && ci.Common().StaticCallee() != nil && ci.Common().StaticCallee().Name() == "Execute" && len(ci.Common().Args) > 0 && loadsField(ci.Common().Args[0], "tagForNode", field) {
					return true
				}
			}
		}
		return false
	}
	if executes(item, "bodyWrapper") && !executes(item, "emptyWrapper") && executes(empty, "emptyWrapper") && !executes(empty, "bodyWrapper") && !executes(f, "bodyWrapper") && !executes(f, "emptyWrapper") {
		r.OK("callbacks", p.InstrPos(calls[0].(ssa.Instruction)), "body only in the item callback, empty only in the empty callback")
	} else {
		r.Bad("callbacks", p.InstrPos(calls[0].(ssa.Instruction)), "body/empty blocks are not executed exclusively in their own callbacks")
	}
	if loadsField(args[3], "tagForNode", "reversed") && loadsField(args[4], "tagForNode", "sorted") {
		r.OK("modifiers", p.InstrPos(calls[0].(ssa.Instruction)), "IterateOrder(…, node.reversed, node.sorted)")
	} else {
		r.Bad("modifiers", p.InstrPos(calls[0].(ssa.Instruction)), "reversed/sorted are not passed in their own positions (%s, %s)", p.VN(args[3]), p.VN(args[4]))
	}
	if types.Identical(args[0].Type(), types.NewPointer(a.Value)) {
		r.OK("object", p.InstrPos(calls[0].(ssa.Instruction)), "iterates the evaluated object")
	}
	// the empty part runs when the loop has no position of its own: `forloop` there is the enclosing loop's. The context
	// it is executed in must not be the one whose "forloop" entry this node has set to its own (fresh) record
	{
		cellOfCtx := func(v ssa.Value, mc *ssa.MakeClosure) ssa.Value {
			// the variable a context value is read from: a local cell of Execute, seen from a closure through its binding
			u, ok := v.(*ssa.UnOp)
			if !ok {
				return v
			}
			switch ad := u.X.(type) {
			case *ssa.Alloc:
				return ad
			case *ssa.FreeVar:
				if mc != nil {
					fn := mc.Fn.(*ssa.Function)
					for i, fv := range fn.FreeVars {
						if fv == ad && i < len(mc.Bindings) {
							return mc.Bindings[i]
						}
					}
				}
			}
			return v
		}
		var own []ssa.Value // contexts whose forloop entry is this loop's record
		for _, b := range f.Blocks {
			for _, in := range b.Instrs {
				mu, ok := in.(*ssa.MapUpdate)
				if !ok {
					continue
				}
				if k, isK := constString(mu.Key); !isK || k != "forloop" {
					if mi, isMI := mu.Key.(*ssa.MakeInterface); !isMI {
						continue
					} else if k2, isK2 := constString(mi.X); !isK2 || k2 != "forloop" {
						continue
					}
				}
				base, n, _ := fieldLoadBase(mu.Map)
				if n == nil || n.Obj().Name() != "ExecutionContext" {
					continue
				}
				own = append(own, cellOfCtx(base, nil))
			}
		}
		// the record under "forloop" is made by this execution: a record kept anywhere else (the node, the node state of
		// the rendering) is shared by the executions of the same tag that are under way at once — a macro that calls
		// itself from inside its loop — and the inner one resets and advances what the outer one still reads
		for _, b := range f.Blocks {
			for _, in := range b.Instrs {
				mu, ok := in.(*ssa.MapUpdate)
				if !ok {
					continue
				}
				kv := mu.Key
				if mi, isMI := kv.(*ssa.MakeInterface); isMI {
					kv = mi.X
				}
				if k, isK := constString(kv); !isK || k != "forloop" {
					continue
				}
				val := mu.Value
				if mi, isMI := val.(*ssa.MakeInterface); isMI {
					val = mi.X
				}
				if n := structOf(val.Type()); n == nil || n.Obj().Name() != "tagForLoopInformation" {
					continue
				}
				if allocatedHere(p, val, map[ssa.Value]bool{}) {
					r.OK("own-record", p.InstrPos(in), "the loop record bound to forloop is allocated by this execution")
				} else {
					r.Bad("own-record", p.InstrPos(in), "the record bound to forloop (%s) is not one this execution allocated: kept per tag (in the node or the rendering's node state) it is shared by the executions of the same for tag that are under way at once — a macro that calls itself from inside its loop, as in tree rendering — and after the inner run forloop.Counter/Last of the outer one are the inner run's: `{%% if not forloop.Last %%},{%% endif %%}` loses its separators after the first node with children", p.VN(val))
				}
			}
		}
		emc, _ := args[2].(*ssa.MakeClosure)
		var bad ssa.Instruction
		found := false
		for _, b := range empty.Blocks {
			for _, in := range b.Instrs {
				ci, ok := in.(ssa.CallInstruction)
				if !ok || ci.Common().StaticCallee() == nil || ci.Common().StaticCallee().Name() != "Execute" || len(ci.Common().Args) < 2 || !loadsField(ci.Common().Args[0], "tagForNode", "emptyWrapper") {
					continue
				}
				found = true
				cv := cellOfCtx(ci.Common().Args[1], emc)
				for _, o := range own {
					if o == cv {
						bad = in
					}
				}
			}
		}
		switch {
		case !found || len(own) == 0:
			r.Assume("empty-position", p.Pos(empty.Pos()), "the context the empty part is executed in could not be related to the one that carries the loop's own forloop record")
		case bad != nil:
			r.Bad("empty-position", p.InstrPos(bad), "the empty part is executed in the context whose `forloop` this node has just set to its own fresh record: inside {%% empty %%} forloop.Counter is 0, Revcounter 0, First true and Last false — a position that does not exist — instead of the position of the enclosing loop, which is where the rendering stands when the inner loop has nothing to iterate")
		default:
			r.OK("empty-position", p.Pos(empty.Pos()), "the empty part is not executed in the context that carries this loop's own forloop record")
		}
	}
	// the item callback stops the iteration on error
	stops := false
	for _, ret := range returnsOf(item) {
		if b, isC := constBool(res(ret, 0)); isC && !b {
			stops = true
		}
	}
	if stops {
		r.OK("error-stops", p.Pos(item.Pos()), "an error in the body stops the loop")
	} else {
		r.Bad("error-stops", p.Pos(item.Pos()), "the item callback never returns false: an execution error in the body does not stop the loop")
	}
}

// linear form a*x + b*y + c of an integer SSA value over two symbols.
type linForm struct{ a, b, c int64 }

func linearOf(v ssa.Value, x, y ssa.Value) (linForm, bool) {
	if v == x {
		return linForm{1, 0, 0}, true
	}
	if y != nil && v == y {
		return linForm{0, 1, 0}, true
	}
	if k, ok := constInt(v); ok {
		return linForm{0, 0, k}, true
	}
	switch t := v.(type) {
	case *ssa.BinOp:
		l, ok1 := linearOf(t.X, x, y)
		r, ok2 := linearOf(t.Y, x, y)
		if !ok1 || !ok2 {
			return linForm{}, false
		}
		switch t.Op {
		case token.ADD:
			return linForm{l.a + r.a, l.b + r.b, l.c + r.c}, true
		case token.SUB:
			return linForm{l.a - r.a, l.b - r.b, l.c - r.c}, true
		}
	case *ssa.Convert:
		return linearOf(t.X, x, y)
	case *ssa.ChangeType:
		return linearOf(t.X, x, y)
	case *ssa.UnOp:
		if t.Op == token.SUB {
			l, ok := linearOf(t.X, x, y)
			return linForm{-l.a, -l.b, -l.c}, ok
		}
	}
	return linForm{}, false
}

func ruleC09LoopInfo(p *Prog, a *Anchors, r *Report) {
	r.Begin("R-C09-LOOPINFO", "forloop fields: every exported field is maintained; Counter=idx+1, Counter0=idx, Revcounter=count-idx, Revcounter0=count-idx-1, First ⇔ idx=0, Last ⇔ idx+1=count (checked as linear forms of the callback's idx/count)", 6)
	li := p.Named("tagForLoopInformation")
	f := p.Method("tagForNode", "Execute")
	if li == nil || f == nil || len(f.AnonFuncs) == 0 {
		r.Unk("anchor", "-", "anchor unresolved: tagForLoopInformation / for item callback")
		return
	}
	var item *ssa.Function
	for _, fn := range f.AnonFuncs {
		if fn.Signature.Params().Len() == 4 {
			item = fn
		}
	}
	if item == nil {
		r.Unk("callback", p.Pos(f.Pos()), "item callback (idx, count, key, value) not found")
		return
	}
	idx, count := ssa.Value(item.Params[0]), ssa.Value(item.Params[1])
	// a helper the callback hands idx and count to (advanceForLoopInfo(info, idx, count))
	helperIdx := map[*ssa.Function][2]ssa.Value{}
	for _, b := range item.Blocks {
		for _, in := range b.Instrs {
			ci, ok := in.(ssa.CallInstruction)
			if !ok || ci.Common().StaticCallee() == nil || !p.InPkg(ci.Common().StaticCallee()) || ci.Common().StaticCallee().Blocks == nil {
				continue
			}
			h := ci.Common().StaticCallee()
			var hi, hc ssa.Value
			for ai, arg := range ci.Common().Args {
				if ai < len(h.Params) {
					if arg == idx {
						hi = h.Params[ai]
					}
					if arg == count {
						hc = h.Params[ai]
					}
				}
			}
			if hi != nil && hc != nil {
				helperIdx[h] = [2]ssa.Value{hi, hc}
			}
		}
	}
	want := map[string]linForm{"Counter": {1, 0, 1}, "Counter0": {1, 0, 0}, "Revcounter": {-1, 1, 0}, "Revcounter0": {-1, 1, -1}}
	st := li.Underlying().(*types.Struct)
	assigned := map[string]bool{}
	scan := withClosures(f)
	for h := range helperIdx {
		scan = append(scan, h)
	}
	// … and the functions Execute hands the making of the record to (`newLoopInfo(parent)`)
	for _, cf := range clusterOf(p, f, 2) {
		dup := false
		for _, x := range scan {
			if x == cf {
				dup = true
			}
		}
		if !dup {
			scan = append(scan, cf)
		}
	}
	for _, fn := range scan {
		idx, count := idx, count
		inItem := fn == item
		if hv, ok := helperIdx[fn]; ok {
			idx, count = hv[0], hv[1]
			inItem = true
		}
		for _, b := range fn.Blocks {
			for _, in := range b.Instrs {
				s, ok := in.(*ssa.Store)
				if !ok {
					continue
				}
				fa, ok := s.Addr.(*ssa.FieldAddr)
				if !ok || structOf(fa.X.Type()) == nil || structOf(fa.X.Type()).Obj().Name() != "tagForLoopInformation" {
					continue
				}
				fld := fieldName(fa.X.Type(), fa.Field)
				assigned[fld] = true
				key := "forloop." + fld
				if w, isNum := want[fld]; isNum {
					if !inItem {
						r.Bad(key, p.InstrPos(in), "%s is assigned outside the per-item callback", fld)
						continue
					}
					got, ok := linearOf(s.Val, idx, count)
					if !ok {
						r.Unk(key, p.InstrPos(in), "cannot express the stored value %s as a linear form of idx/count", p.VN(s.Val))
					} else if got != w {
						r.Bad(key, p.InstrPos(in), "%s = %d*idx + %d*count + %d, reference is %d*idx + %d*count + %d", fld, got.a, got.b, got.c, w.a, w.b, w.c)
					} else {
						r.OK(key, p.InstrPos(in), "%s = %d*idx + %d*count + %d", fld, got.a, got.b, got.c)
					}
					continue
				}
				switch fld {
				case "First", "Last":
					if !inItem {
						if bv, isC := constBool(s.Val); isC && fld == "First" && bv {
							r.OK(key+":init", p.InstrPos(in), "First starts true")
						} else if fld == "First" {
							r.Bad(key+":init", p.InstrPos(in), "First is initialised with %s", p.VN(s.Val))
						}
						continue
					}
					// direct form: First = (idx == 0); Last = (idx+1 == count)
					checkCond := func(c ssa.Value, pol bool) (bool, bool) {
						bo, ok := c.(*ssa.BinOp)
						if !ok {
							return false, false
						}
						l, ok1 := linearOf(bo.X, idx, count)
						rr, ok2 := linearOf(bo.Y, idx, count)
						if !ok1 || !ok2 {
							return false, false
						}
						d := linForm{l.a - rr.a, l.b - rr.b, l.c - rr.c} // X - Y
						if fld == "First" {
							// set false when idx >= 1: accepted tests: idx==1 (d=(1,0,-1) EQL), idx>0, idx>=1, idx!=0
							switch {
							case bo.Op == token.EQL && (d == linForm{1, 0, -1} || d == linForm{-1, 0, 1}):
								return true, pol
							case bo.Op == token.GTR && d == linForm{1, 0, 0}, bo.Op == token.GEQ && d == linForm{1, 0, -1}, bo.Op == token.NEQ && (d == linForm{1, 0, 0} || d == linForm{-1, 0, 0}):
								return true, pol
							case bo.Op == token.LSS && d == linForm{-1, 0, 0}:
								return true, pol
							}
							return false, false
						}
						// Last: idx+1 == count  ⇔ X-Y = ±(idx - count + 1)
						if bo.Op == token.EQL && (d == linForm{1, -1, 1} || d == linForm{-1, 1, -1}) {
							return true, pol
						}
						return false, false
					}
					bv, isC := constBool(s.Val)
					if !isC {
						// First = idx == 0
						if bo, ok := s.Val.(*ssa.BinOp); ok && bo.Op == token.EQL {
							l, ok1 := linearOf(bo.X, idx, count)
							rr, ok2 := linearOf(bo.Y, idx, count)
							d := linForm{l.a - rr.a, l.b - rr.b, l.c - rr.c}
							if ok1 && ok2 && ((fld == "First" && (d == linForm{1, 0, 0} || d == linForm{-1, 0, 0})) || (fld == "Last" && (d == linForm{1, -1, 1} || d == linForm{-1, 1, -1}))) {
								r.OK(key, p.InstrPos(in), "%s computed directly from idx/count", fld)
								continue
							}
						}
						r.Bad(key, p.InstrPos(in), "%s is assigned %s, which is not the reference condition", fld, p.VN(s.Val))
						continue
					}
					wantVal := fld == "Last" // First is cleared (false), Last is set (true)
					g := Guarded(in, func(c ssa.Value, pol bool) bool {
						ok, wpol := checkCond(c, pol)
						return ok && wpol
					})
					if bv == wantVal && g {
						r.OK(key, p.InstrPos(in), "%s = %v exactly under the reference condition", fld, bv)
					} else {
						r.Bad(key, p.InstrPos(in), "%s = %v is not guarded by the reference condition (First cleared from the second item on / Last set when idx+1 == count)", fld, bv)
					}
				case "Parentloop":
					r.OK(key, p.InstrPos(in), "Parentloop linked to the enclosing loop's information")
				}
			}
		}
	}
	for i := 0; i < st.NumFields(); i++ {
		fld := st.Field(i).Name()
		if !st.Field(i).Exported() {
			continue
		}
		if !assigned[fld] {
			r.Bad("forloop."+fld+":maintained", p.Pos(f.Pos()), "exported field %s of the loop information is never assigned (it silently stays at its zero value)", fld)
		}
	}
}

// ruleC09Idx: Value.IterateOrder calls the item callback with an ascending item index and the item count.
func ruleC09Idx(p *Prog, a *Anchors, r *Report) {
	r.Begin("R-C09-IDX", "IterateOrder hands the callback idx = 0,1,2,… (an induction variable stepping by one per ITEM, never a byte offset) and count = the number of items", 3)
	f := p.Method("Value", "IterateOrder")
	if f == nil {
		r.Unk("anchor", "-", "anchor unresolved: (*Value).IterateOrder")
		return
	}
	// the callback is called in IterateOrder itself or in a method/helper it hands the callback to (iterateMap)
	type cbSite struct {
		fn *ssa.Function
		cb ssa.Value
	}
	cbs := []cbSite{{f, f.Params[1]}}
	for _, b := range f.Blocks {
		for _, in := range b.Instrs {
			c, ok := in.(*ssa.Call)
			if !ok || c.Common().StaticCallee() == nil || !p.InPkg(c.Common().StaticCallee()) || c.Common().StaticCallee().Blocks == nil {
				continue
			}
			for i, arg := range callArgs(c.Common()) {
				if stripLoad(arg) == ssa.Value(f.Params[1]) && i < len(c.Common().StaticCallee().Params) {
					cbs = append(cbs, cbSite{c.Common().StaticCallee(), c.Common().StaticCallee().Params[i]})
				}
			}
		}
	}
	n := 0
	for _, cbsite := range cbs {
		fnParam := cbsite.cb
		for _, b := range cbsite.fn.Blocks {
			for _, in := range b.Instrs {
				c, ok := in.(*ssa.Call)
				if !ok || c.Common().Value != fnParam {
					continue
				}
				n++
				args := c.Common().Args
				key := "IterateOrder:callback"
				idxOK := ascendingIndex(args[0])
				if !idxOK {
					// range over a slice: idx phi pattern handled by ascendingIndex; range over string/map yields Extract(next)
					r.Bad(key+":idx", p.InstrPos(in), "idx argument %s is not an induction variable that steps by one per item (e.g. it is the key of a range over a string, i.e. a byte offset)", p.VN(args[0]))
				} else {
					r.OK(key+":idx", p.InstrPos(in), "idx is an ascending induction variable")
				}
				// count: len(...) of the iterated collection or a variable holding it
				cnt := args[1]
				if u, isU := cnt.(*ssa.UnOp); isU {
					if sv := localLoadValue(u); sv != nil {
						cnt = sv
					}
				}
				isLen := lenOperand(cnt) != nil
				if cc, isCall := cnt.(*ssa.Call); isCall && cc.Common().StaticCallee() != nil {
					nm := p.extName(cc.Common().StaticCallee())
					if nm == "(reflect.Value).Len" || nm == "unicode/utf8.RuneCountInString" {
						isLen = true
					}
				}
				if isLen {
					r.OK(key+":count", p.InstrPos(in), "count is a length (%s)", p.VN(cnt))
				} else {
					r.Bad(key+":count", p.InstrPos(in), "count argument %s is not the length of the iterated collection", p.VN(cnt))
				}
				// the loop bound of idx is the same count
				if hdr := loopHeaderOf(args[0]); hdr != nil && idxOK {
					bounded := false
					if iff, ok := hdr.Instrs[len(hdr.Instrs)-1].(*ssa.If); ok {
						if bo, ok := iff.Cond.(*ssa.BinOp); ok && bo.Op == token.LSS {
							if bo.Y == cnt || p.VN(bo.Y) == p.VN(cnt) || lenMatches(p, bo.Y, cnt) {
								bounded = true
							}
						}
					}
					if bounded {
						r.OK(key+":bound", p.InstrPos(in), "the loop runs idx < count")
					} else {
						r.Unk(key+":bound", p.InstrPos(in), "cannot relate the loop bound to the count argument")
					}
				}
			}
		}
	}
	if n < 3 {
		r.Bad("IterateOrder:callback", p.Pos(f.Pos()), "expected the item callback to be invoked for maps, slices/arrays and strings (3 sites), found %d", n)
	}
}

func lenMatches(p *Prog, bound ssa.Value, cnt ssa.Value) bool {
	// range loops compare idx with len(slice) while count may be a separately computed Len() of the same collection:
	// accept when both are lengths (the collection identity is checked by the element access)
	return lenOperand(bound) != nil && (lenOperand(cnt) != nil || strings.Contains(p.VN(cnt), "Len"))
}

// ruleC09Ifchanged: all watched expressions are evaluated on every execution and the complete new list replaces
// the remembered one.
func ruleC09Ifchanged(p *Prog, a *Anchors, r *Report) {
	r.Begin("R-C09-IFCH", "ifchanged evaluates every watched expression on each execution (no early exit) and remembers exactly those values for the next comparison", 2)
	f := p.Method("tagIfchangedNode", "Execute")
	if f == nil {
		r.Unk("anchor", "-", "anchor unresolved: (*tagIfchangedNode).Execute")
		return
	}
	// the evaluation loop: invoke Evaluate on watchedExpr[i] — in Execute itself or in a helper it calls
	var evalCall *ssa.Call
	var idx ssa.Value
	exec := f
	var helperCall ssa.Instruction
	cands := []*ssa.Function{f}
	for _, b := range f.Blocks {
		for _, in := range b.Instrs {
			if ci, ok := in.(ssa.CallInstruction); ok {
				if cal := ci.Common().StaticCallee(); cal != nil && p.InPkg(cal) && cal.Blocks != nil {
					cands = append(cands, cal)
				}
			}
		}
	}
	for _, fn := range cands {
		for _, b := range fn.Blocks {
			for _, in := range b.Instrs {
				c, ok := in.(*ssa.Call)
				if !ok || !c.Common().IsInvoke() || c.Common().Method.Name() != "Evaluate" {
					continue
				}
				if u, ok := c.Common().Value.(*ssa.UnOp); ok {
					if ia, ok := u.X.(*ssa.IndexAddr); ok && loadsField(ia.X, "tagIfchangedNode", "watchedExpr") {
						evalCall, idx = c, ia.Index
						f = fn
					}
				}
			}
		}
	}
	if f != exec {
		for _, c := range callsTo(exec, f) {
			helperCall = c.(ssa.Instruction)
		}
	}
	hdr := loopHeaderOf(idx)
	if hdr == nil || !ascendingIndex(idx) {
		r.Bad("eval-loop", p.InstrPos(evalCall), "watched expressions are not evaluated by an ascending loop over all of them")
		return
	}
	// exits of the evaluation loop: only the header's exhaustion edge or error returns
	loopBlocks := map[*ssa.BasicBlock]bool{}
	for _, b := range f.Blocks {
		if hdr.Dominates(b) && ReachableBlocks(b)[hdr] {
			loopBlocks[b] = true
		}
	}
	early := ""
	for b := range loopBlocks {
		for _, s := range b.Succs {
			if loopBlocks[s] || b == hdr {
				continue
			}
			// leaving the loop from inside the body: must be an error return
			if !errorReturnsOnly(f, s) {
				early = p.InstrPos(b.Instrs[len(b.Instrs)-1])
			}
		}
	}
	if early != "" {
		r.Bad("eval-loop:complete", early, "the loop that evaluates the watched expressions can be left early without an error: the remaining values keep stale contents and later comparisons are wrong")
	} else {
		r.OK("eval-loop:complete", p.InstrPos(evalCall), "every watched expression is evaluated unless an error aborts the tag")
	}
	// comparison is separate from evaluation: EqualValueTo is not called inside the evaluation loop
	for b := range loopBlocks {
		for _, in := range b.Instrs {
			if c, ok := in.(*ssa.Call); ok && c.Common().StaticCallee() != nil && c.Common().StaticCallee().Name() == "EqualValueTo" {
				r.Bad("eval-loop:separate", p.InstrPos(in), "values are compared while they are still being evaluated (a difference found early leaves later values unevaluated)")
			}
		}
	}
	// what is remembered is a copy: the *Value returned by Evaluate may be an addressable view of a field that is
	// updated in place before the next execution (forloop.Counter), so remembering it compares the field with itself
	if evalCall != nil {
		var evalVal ssa.Value
		for _, u := range refs(evalCall) {
			if ex, ok := u.(*ssa.Extract); ok && ex.Index == 0 {
				evalVal = ex
			}
		}
		kept := ""
		var walk func(v ssa.Value, depth int)
		seenV := map[ssa.Value]bool{}
		walk = func(v ssa.Value, depth int) {
			if v == nil || depth > 4 || seenV[v] {
				return
			}
			seenV[v] = true
			for _, u := range refs(v) {
				switch u := u.(type) {
				case *ssa.Store:
					if u.Val == v {
						kept = p.InstrPos(u)
					}
				case *ssa.Phi:
					walk(u, depth+1)
				case *ssa.MakeInterface:
					walk(u, depth+1)
				case *ssa.ChangeType:
					walk(u, depth+1)
				}
			}
		}
		walk(evalVal, 0)
		if evalVal == nil {
			r.Unk("remember:detached", p.InstrPos(evalCall), "the value result of Evaluate is not identifiable")
		} else if kept != "" {
			r.Bad("remember:detached", kept, "the *Value returned by Evaluate is itself kept for the next comparison: when it is a view of a field that changes in place (forloop.Counter, a field of a pointer in the context) the tag later compares the field with itself and never sees a change")
		} else {
			r.OK("remember:detached", p.InstrPos(evalCall), "the evaluated *Value is only read; what is remembered is built from a copy of its content")
		}
	}
	// the remembered values are replaced by the complete new list
	stored := false
	for _, b := range exec.Blocks {
		for _, in := range b.Instrs {
			st, ok := in.(*ssa.Store)
			if !ok {
				continue
			}
			fa, ok := st.Addr.(*ssa.FieldAddr)
			if !ok || fieldName(fa.X.Type(), fa.Field) != "lastValues" {
				continue
			}
			stored = true
			if (f == exec && hdr.Dominates(st.Block()) && !loopBlocks[st.Block()]) || (f != exec && helperCall != nil && Dominates(helperCall, st)) {
				r.OK("remember", p.InstrPos(in), "the new value list replaces the remembered one after all expressions were evaluated")
			} else {
				r.Bad("remember", p.InstrPos(in), "the remembered values are updated before/while the expressions are evaluated")
			}
		}
	}
	if !stored {
		r.Bad("remember", p.Pos(f.Pos()), "the evaluated values are never remembered (ifchanged would compare against nothing or against stale data updated in place)")
	}
	// a two-way branch in both of its forms: with watched values and with its own rendered content as what is watched,
	// the else-part is executed somewhere (the content form once had no arm for "unchanged" at all)
	{
		var formIf *ssa.If
		for _, b := range exec.Blocks {
			iff, ok := b.Instrs[len(b.Instrs)-1].(*ssa.If)
			if !ok {
				continue
			}
			if bo, isBo := iff.Cond.(*ssa.BinOp); isBo && (bo.Op == token.EQL || bo.Op == token.NEQ || bo.Op == token.GTR) {
				if l := lenOperand(bo.X); l != nil && loadsField(l, "tagIfchangedNode", "watchedExpr") {
					formIf = iff
				}
			}
		}
		if formIf == nil {
			r.Unk("else:both-forms", p.Pos(exec.Pos()), "cannot find the test that tells the two forms of the tag apart (len(watchedExpr))")
		} else {
			elseIn := func(start *ssa.BasicBlock) bool {
				for _, fn := range clusterOf(p, exec, 1) {
					for _, b := range fn.Blocks {
						if fn == exec && !start.Dominates(b) {
							continue
						}
						for _, in := range b.Instrs {
							c, ok := in.(*ssa.Call)
							if !ok || c.Common().StaticCallee() == nil || c.Common().StaticCallee().Name() != "Execute" || len(c.Common().Args) == 0 {
								continue
							}
							if loadsField(c.Common().Args[0], "tagIfchangedNode", "elseWrapper") {
								return true
							}
						}
					}
				}
				return false
			}
			s0, s1 := formIf.Block().Succs[0], formIf.Block().Succs[1]
			if elseIn(s0) && elseIn(s1) {
				r.OK("else:both-forms", p.InstrPos(formIf), "the else-part is executed in the form with watched values and in the form that watches its own content")
			} else {
				r.Bad("else:both-forms", p.InstrPos(formIf), "one of the two forms of ifchanged never executes the else-part (with watched values: %v / %v by edge): {%% ifchanged %%}…{%% else %%}…{%% endifchanged %%} renders nothing when the content did not change", elseIn(s0), elseIn(s1))
			}
		}
	}
	// the content form compares the rendered body with what it remembered — and remembers nothing before the first
	// execution. An empty body equals "nothing" (bytes.Equal(nil, []byte{})), so the unchanged arm must also know that
	// there WAS a previous execution, or the very first pass of a loop renders the else-part.
	for _, b := range exec.Blocks {
		for _, in := range b.Instrs {
			c, ok := in.(*ssa.Call)
			if !ok || c.Common().StaticCallee() == nil || c.Common().StaticCallee().Name() != "Execute" || len(c.Common().Args) == 0 || !loadsField(c.Common().Args[0], "tagIfchangedNode", "elseWrapper") {
				continue
			}
			byContent := Guarded(in, func(cond ssa.Value, pol bool) bool {
				cc, isCall := cond.(*ssa.Call)
				return isCall && pol && cc.Common().StaticCallee() != nil && p.extName(cc.Common().StaticCallee()) == "bytes.Equal"
			})
			if !byContent {
				continue
			}
			seenFlag := Guarded(in, func(cond ssa.Value, pol bool) bool {
				// a bool field of the remembered state that says "executed before"
				if u, isU := cond.(*ssa.UnOp); isU && u.Op == token.MUL && pol {
					if fa, isFA := u.X.(*ssa.FieldAddr); isFA {
						if n := structOf(fa.X.Type()); n != nil && n.Obj().Name() == "tagIfchangedState" {
							if bt, isB := u.Type().Underlying().(*types.Basic); isB && bt.Kind() == types.Bool {
								return true
							}
						}
					}
				}
				return false
			})
			// … or the remembered content != nil — which says "executed before" only if an execution never remembers nil:
			// the Bytes() of a zero bytes.Buffer nothing was written to IS nil, so a body that rendered nothing would
			// look like no execution at all
			seenNil := !seenFlag && Guarded(in, func(cond ssa.Value, pol bool) bool {
				x, eq, isNil := condIsNilTest(cond)
				return isNil && eq != pol && loadsField(x, "tagIfchangedState", "lastContent")
			})
			if seenNil {
				for _, sb := range exec.Blocks {
					for _, si := range sb.Instrs {
						st, isSt := si.(*ssa.Store)
						if !isSt || !isFieldAddrOf(st.Addr, "tagIfchangedState", "lastContent") {
							continue
						}
						if !c09NonNilBytes(p, st.Val, 0) {
							seenNil = false
							r.Bad("else:not-first:remembers-nil", p.InstrPos(si), "\"not executed yet\" is read from the remembered content being nil, but an execution can remember nil itself (%s — the Bytes() of a buffer nothing was written to): after a pass whose body rendered nothing the tag believes it never ran, and the else-part is lost for as long as the body stays empty", p.VN(st.Val))
						}
					}
				}
				if !seenNil {
					continue
				}
			}
			seen := seenFlag || seenNil
			if seen {
				r.OK("else:not-first", p.InstrPos(in), "the content form reaches its else-part only when the tag was executed before in this rendering")
			} else {
				r.Bad("else:not-first", p.InstrPos(in), "the content form decides \"unchanged\" by bytes.Equal with what it remembered alone: before the first execution it remembers nothing, which equals an empty body — {%% ifchanged %%}{{ x }}{%% else %%}-{%% endifchanged %%} renders `-` in the first pass of a loop when x is empty")
			}
		}
	}
	// "differs from the previous iteration": the comparator must answer "same" for two equal values of every kind.
	// (*Value).EqualValueTo does not: it returns false as soon as one side is the nil value and for everything ==
	// cannot compare (read off its own source below). A tag that decides by EqualValueTo alone therefore prints on
	// every iteration while the watched value stays nil, or stays an equal list/map.
	partial := p.Method("Value", "EqualValueTo")
	partialWhy := ""
	if partial != nil {
		for _, ret := range returnsOf(partial) {
			if k, isC := res(ret, 0).(*ssa.Const); isC && k.Value != nil && k.Value.String() == "false" {
				if Guarded(ret, func(c ssa.Value, pol bool) bool {
					cc, ok := c.(*ssa.Call)
					return ok && cc.Common().StaticCallee() != nil && p.extName(cc.Common().StaticCallee()) == "(reflect.Value).IsValid" && !pol
				}) {
					partialWhy = p.InstrPos(ret)
				}
			}
		}
	}
	usesPartial, other := "", ""
	for _, fn := range clusterOf(p, exec, 2) {
		if fn == partial {
			continue
		}
		for _, b := range fn.Blocks {
			for _, in := range b.Instrs {
				c, ok := in.(*ssa.Call)
				if !ok || c.Common().StaticCallee() == nil {
					continue
				}
				switch cal := c.Common().StaticCallee(); {
				case cal == partial:
					usesPartial = p.InstrPos(in)
				case p.extName(cal) == "reflect.DeepEqual", cal.Name() == "IsNil" && p.InPkg(cal):
					other = p.InstrPos(in)
				}
			}
		}
	}
	switch {
	case usesPartial != "" && partialWhy != "" && other == "":
		r.Bad("compare:every-kind", usesPartial, "watched values are compared by EqualValueTo alone, which answers false whenever a side is nil (%s) and for slices/maps: {%% ifchanged x %%} prints on every iteration while x stays nil or stays an equal list", partialWhy)
	case usesPartial != "":
		r.OK("compare:every-kind", usesPartial, "EqualValueTo is not the only decider (also %s): nil and uncomparable values are compared too", other)
	case other != "":
		r.OK("compare:every-kind", other, "compared without EqualValueTo")
	default:
		r.Unk("compare:every-kind", p.Pos(exec.Pos()), "no comparison of the remembered with the new values found")
	}
}

// ruleC09SortOrder: "sorted … as requested": the ordering that `sorted` uses compares two integers as integers (Go's
// < on the Integer() of both, reached when both are integers) and has a float form for the rest of the numbers. An
// ordering that reads every number as a float cannot tell integers above 2^53 apart: they tie, and the "sorted" order of
// such ids or timestamps is whatever order they arrived in (for a map: random).
func ruleC09SortOrder(p *Prog, a *Anchors, r *Report) {
	r.Begin("R-C09-SORT", "the Less functions used for `sorted` compare integers with Go's integer < (under IsInteger of both values) and other numbers with the float <", 2)
	n := 0
	for _, f := range p.inPkgFuncsSorted(p.allFuncSet()) {
		if f.Name() != "Less" || f.Signature.Recv() == nil || f.Signature.Params().Len() != 2 || f.Signature.Results().Len() != 1 {
			continue
		}
		n++
		key := p.FuncName(f) + ":integers"
		hasInt, intGuarded, hasFloat := false, true, false
		for _, fn := range clusterOf(p, f, 1) {
			if recv := fn.Signature.Recv(); recv != nil && fn != f {
				continue // accessors of Value etc.: the ordering is what Less and its plain helpers compare
			}
			for _, b := range fn.Blocks {
				for _, in := range b.Instrs {
					x, ok := in.(*ssa.BinOp)
					if !ok || (x.Op != token.LSS && x.Op != token.GTR) || !isNumeric(x.X.Type()) {
						continue
					}
					if _, isC := x.Y.(*ssa.Const); isC {
						continue
					}
					bt, _ := x.X.Type().Underlying().(*types.Basic)
					if bt == nil {
						continue
					}
					if bt.Info()&types.IsFloat != 0 {
						hasFloat = true
						continue
					}
					if bt.Info()&types.IsInteger == 0 {
						continue
					}
					// operands: Integer() of two values, each shown IsInteger()
					recvOf := func(v ssa.Value) ssa.Value {
						c, ok := v.(*ssa.Call)
						if !ok || c.Common().StaticCallee() == nil || c.Common().StaticCallee().Name() != "Integer" || len(c.Common().Args) == 0 {
							return nil
						}
						return c.Common().Args[0]
					}
					rx, ry := recvOf(x.X), recvOf(x.Y)
					if rx == nil || ry == nil {
						continue
					}
					hasInt = true
					for _, rv := range []ssa.Value{rx, ry} {
						v := rv
						if !Guarded(in, func(c ssa.Value, pol bool) bool {
							cc, ok := c.(*ssa.Call)
							if ok && pol && cc.Common().StaticCallee() != nil && cc.Common().StaticCallee().Name() == "IsInteger" && len(cc.Common().Args) > 0 && p.VN(cc.Common().Args[0]) == p.VN(v) {
								return true
							}
							// a predicate of the package that wraps the test (isIntegerPair(a, b)): every way on which it answers true
							// establishes IsInteger() of the parameter v is passed for
							return ok && pol && u4PredicateShowsInteger(p, cc, v, 0)
						}) {
							intGuarded = false
						}
					}
				}
			}
		}
		// numbers compared exactly through math/big (Cmp) need neither of the two machine comparisons
		exact := false
		var intCmp, floatCmp ssa.Instruction
		for _, fn := range clusterOf(p, f, 2) {
			if recv := fn.Signature.Recv(); recv != nil && fn != f {
				continue
			}
			for _, b := range fn.Blocks {
				for _, in := range b.Instrs {
					if c, ok := in.(*ssa.Call); ok && c.Common().StaticCallee() != nil && c.Common().StaticCallee().Name() == "Cmp" && c.Common().StaticCallee().Pkg != nil && c.Common().StaticCallee().Pkg.Pkg.Path() == "math/big" {
						exact = true
					}
					if x, ok := in.(*ssa.BinOp); ok && (x.Op == token.LSS || x.Op == token.GTR) && isNumeric(x.X.Type()) {
						if _, isC := x.Y.(*ssa.Const); isC {
							continue
						}
						if bt, _ := x.X.Type().Underlying().(*types.Basic); bt != nil {
							if bt.Info()&types.IsFloat != 0 {
								floatCmp = in
							} else if bt.Info()&types.IsInteger != 0 {
								if c, isCall := x.X.(*ssa.Call); isCall && c.Common().StaticCallee() != nil && c.Common().StaticCallee().Name() == "Integer" {
									intCmp = in
								}
							}
						}
					}
				}
			}
		}
		// distinct values must not tie: Integer() saturates unsigned values beyond the int range (all of them become
		// MaxInt), and a float comparison treats NaN as equal to everything while the others differ — in both cases
		// "neither less" is not transitive and the sort result depends on the order of arrival (for a map: random)
		if intCmp != nil {
			saturates := false
			if acc := p.Method("Value", "Integer"); acc != nil {
				for _, ret := range returnsOf(acc) {
					if k, isK := constInt(ret.Results[0]); isK && (k == math.MaxInt64 || k == math.MinInt64) {
						saturates = true
					}
				}
			}
			if saturates {
				r.Bad(p.FuncName(f)+":integers-distinct", p.InstrPos(intCmp), "two integers are ordered by Integer() < Integer(), and Integer() maps every unsigned value beyond the int range to the same number: distinct uint64 keys above MaxInt64 all tie, so a map with such keys is iterated in Go's random map order")
			} else {
				r.OK(p.FuncName(f)+":integers-distinct", p.InstrPos(intCmp), "Integer() maps distinct integers to distinct numbers")
			}
		}
		if floatCmp != nil {
			nanGuard := Guarded(floatCmp, func(c ssa.Value, pol bool) bool {
				if cc, ok := c.(*ssa.Call); ok && cc.Common().StaticCallee() != nil && p.extName(cc.Common().StaticCallee()) == "math.IsNaN" {
					return !pol
				}
				if bo, ok := c.(*ssa.BinOp); ok && bo.Op == token.NEQ && bo.X == bo.Y {
					return !pol
				}
				return false
			})
			if nanGuard {
				r.OK(p.FuncName(f)+":nan", p.InstrPos(floatCmp), "the float comparison is reached only for numbers that are not NaN")
			} else {
				r.Bad(p.FuncName(f)+":nan", p.InstrPos(floatCmp), "floats are ordered by < without a NaN test: NaN is \"equal\" to every number while the others differ, so one NaN key makes the order of all the float keys of a map depend on Go's random map order")
			}
		}
		if exact {
			// "exact" only if an integer gets into the big number as an integer: one built from Float() has lost
			// everything beyond 2^53 before the comparison starts
			viaInt := false
			for _, fn := range clusterOf(p, f, 2) {
				for _, b := range fn.Blocks {
					for _, in := range b.Instrs {
						if c, ok := in.(*ssa.Call); ok && c.Common().StaticCallee() != nil && c.Common().StaticCallee().Pkg != nil && c.Common().StaticCallee().Pkg.Pkg.Path() == "math/big" {
							switch c.Common().StaticCallee().Name() {
							case "SetInt64", "SetUint64", "NewInt", "SetInt":
								viaInt = true
							}
						}
					}
				}
			}
			if viaInt {
				r.OK(p.FuncName(f)+":exact-integers", p.Pos(f.Pos()), "integers enter the exact comparison as integers (SetInt64/SetUint64)")
			} else {
				r.Bad(p.FuncName(f)+":exact-integers", p.Pos(f.Pos()), "the numbers handed to the exact comparison are all built from float64 values: integers beyond 2^53 have lost their last digits before they are compared, so distinct keys tie again")
			}
		}
		switch {
		case exact && !hasInt && !hasFloat:
			r.OK(key, p.Pos(f.Pos()), "numbers are compared exactly (math/big Cmp)")
		case !hasInt:
			r.Bad(key, p.Pos(f.Pos()), "the ordering has no integer comparison (Integer() < Integer()): two integers are compared as floats (or as text), so distinct integers above 2^53 tie and `sorted` leaves them in arrival order")
		case !intGuarded:
			r.Bad(key, p.Pos(f.Pos()), "the integer comparison is not under IsInteger() of both values")
		case !hasFloat:
			r.Bad(key, p.Pos(f.Pos()), "the ordering has no float comparison: 1.5 and 1.25 are compared as text or truncated")
		default:
			r.OK(key, p.Pos(f.Pos()), "integers by integer <, other numbers by float <")
		}
	}
	if n == 0 {
		r.Unk("Less", "-", "no Less method found in the package (the ordering used by `sorted` is not recognised)")
	}
}

// c09NonNilBytes: the byte slice v is never nil: made here (make, a literal, a conversion), or the Bytes() of a buffer
// that bytes.NewBuffer wrapped around such a slice.
func c09NonNilBytes(p *Prog, v ssa.Value, d int) bool {
	if d > 6 {
		return false
	}
	switch x := v.(type) {
	case *ssa.MakeSlice:
		return true
	case *ssa.Slice:
		if _, isAlloc := x.X.(*ssa.Alloc); isAlloc {
			return true // a composite literal
		}
		return c09NonNilBytes(p, x.X, d+1)
	case *ssa.Phi:
		for _, e := range x.Edges {
			if !c09NonNilBytes(p, e, d+1) {
				return false
			}
		}
		return true
	case *ssa.UnOp:
		if sv := stripLoad(x); sv != ssa.Value(x) {
			return c09NonNilBytes(p, sv, d+1)
		}
	case *ssa.Call:
		callee := x.Common().StaticCallee()
		if callee == nil {
			return false
		}
		switch p.extName(callee) {
		case "(*bytes.Buffer).Bytes":
			return c09NonNilBytes(p, x.Common().Args[0], d+1)
		case "bytes.NewBuffer":
			return c09NonNilBytes(p, x.Common().Args[0], d+1)
		}
	}
	return false
}
