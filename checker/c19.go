package main

// C19 — filter chains: R-C19-ORDER, APPLY, SCOPE, NILPARAM, UNKNOWN, REG, GROW, BIND.

import (
	"go/token"
	"go/types"
	"strings"

	"golang.org/x/tools/go/ssa"
)

func init() { register("C19", checkC19) }

func checkC19(p *Prog, r *Report) {
	a := ResolveAnchors(p)
	if !anchorCheck(a, r) {
		return
	}
	ruleC19Order(p, a, r)
	ruleC19Param(p, a, r)
	ruleArgScope(p, a, r, "R-C19-ARGSCOPE")
	ruleC19Unknown(p, a, r)
	ruleC19DeferredNames(p, a, r)
	ruleC19Reg(p, a, r)
	ruleC19Grow(p, a, r)
	ruleFilterBindsTightest(p, a, r, "R-C19-BIND")
	ruleEvalNodesBuiltOnce(p, a, r, "R-C19-BUILT")
	ruleC19Unwrap(p, a, r)
	ruleC19EndArgs(p, a, r)
	ruleTagArgsConsumed(p, a, r, "R-C19-TAGARGS")
}

// chainLoop describes a loop over a slice of filter-call structs in an execution function.
type chainLoop struct {
	f      *ssa.Function
	field  string // Type.field of the chain
	idx    ssa.Value
	header *ssa.BasicBlock
	elem   *ssa.UnOp // load of the element
}

// findChainLoops: execution-reachable functions that index a slice field whose element is a pointer to a struct
// with a field of type FilterFunction or a `name string` + IEvaluator parameter (the two filter-call structs).
func findChainLoops(p *Prog, a *Anchors) []chainLoop {
	isFilterCallStruct := func(T types.Type) bool {
		pt, ok := T.(*types.Pointer)
		if !ok {
			return false
		}
		st, ok := pt.Elem().Underlying().(*types.Struct)
		if !ok {
			return false
		}
		hasName, hasParam := false, false
		for i := 0; i < st.NumFields(); i++ {
			f := st.Field(i)
			if f.Name() == "name" && types.Identical(f.Type(), types.Typ[types.String]) {
				hasName = true
			}
			if n, ok := f.Type().(*types.Named); ok && n.Obj().Name() == "IEvaluator" {
				hasParam = true
			}
		}
		return hasName && hasParam
	}
	var out []chainLoop
	for _, f := range p.inPkgFuncsSorted(a.ExecReach()) {
		for _, b := range f.Blocks {
			for _, in := range b.Instrs {
				u, ok := in.(*ssa.UnOp)
				if !ok || u.Op != token.MUL {
					continue
				}
				ia, ok := u.X.(*ssa.IndexAddr)
				if !ok {
					continue
				}
				sl, ok := ia.X.Type().Underlying().(*types.Slice)
				if !ok || !isFilterCallStruct(sl.Elem()) {
					continue
				}
				_, n, fld := fieldLoadBase(ia.X)
				if n == nil {
					continue
				}
				out = append(out, chainLoop{f: f, field: n.Obj().Name() + "." + fld, idx: ia.Index, header: loopHeaderOf(ia.Index), elem: u})
			}
		}
	}
	return out
}

// applicationCall: the call in the loop body that applies one filter: a call whose arguments include the loop
// element (or a field of it) and a *Value; returns the call and the index of its *Value "input" argument candidates.
func applicationCalls(p *Prog, a *Anchors, cl chainLoop) []*ssa.Call {
	var out []*ssa.Call
	valPtr := types.NewPointer(a.Value)
	for _, b := range cl.f.Blocks {
		for _, in := range b.Instrs {
			c, ok := in.(*ssa.Call)
			if !ok {
				continue
			}
			usesElem, hasVal := false, false
			for _, arg := range callArgs(c.Common()) {
				if arg == ssa.Value(cl.elem) {
					usesElem = true
				}
				if base, _, _ := fieldLoadBase(arg); base != nil && base == ssa.Value(cl.elem) {
					usesElem = true
				}
				if types.Identical(arg.Type(), valPtr) {
					hasVal = true
				}
			}
			// result must include a *Value
			resVal := false
			if tup, ok := c.Type().(*types.Tuple); ok {
				for i := 0; i < tup.Len(); i++ {
					if types.Identical(tup.At(i).Type(), valPtr) {
						resVal = true
					}
				}
			}
			if usesElem && hasVal && resVal {
				out = append(out, c)
			}
		}
	}
	return out
}

func ruleC19Order(p *Prog, a *Anchors, r *Report) {
	r.Begin("R-C19-ORDER", "wherever a filter chain is applied: ascending iteration, each filter's input is the previous filter's output (seeded with the value / rendered body), the result is the last output, and no successful exit skips the chain", 2)
	loops := findChainLoops(p, a)
	seen := map[string]bool{}
	for _, cl := range loops {
		name := p.FuncName(cl.f)
		if seen[name+cl.field] {
			continue
		}
		seen[name+cl.field] = true
		pos := p.InstrPos(cl.elem)
		if !ascendingIndex(cl.idx) || cl.header == nil {
			r.Bad(name+":ascending", pos, "the chain %s is not walked in ascending order (index %s): filters must be applied in written order", cl.field, p.VN(cl.idx))
			continue
		}
		apps := applicationCalls(p, a, cl)
		if len(apps) == 0 {
			delete(seen, name+cl.field)
			continue // the chain is only inspected here (e.g. FilterApplied), not applied
		}
		if len(apps) != 1 {
			r.Unk(name+":application", pos, "expected exactly one filter application call in the chain loop, found %d", len(apps))
			continue
		}
		r.OK(name+":ascending", pos, "chain %s is walked with an ascending index", cl.field)
		app := apps[0]
		// loop-carried value: a phi in the header whose back-edge operand is result #0 of the application
		var carried *ssa.Phi
		for _, in := range cl.header.Instrs {
			phi, ok := in.(*ssa.Phi)
			if !ok {
				continue
			}
			for _, e := range phi.Edges {
				if ex, ok := e.(*ssa.Extract); ok && ex.Tuple == ssa.Value(app) && ex.Index == 0 {
					carried = phi
				}
				if e == ssa.Value(app) {
					carried = phi
				}
			}
		}
		if carried == nil {
			r.Bad(name+":threading", p.InstrPos(app), "the output of one filter is not carried into the next iteration (every filter would see the original value)")
			continue
		}
		inputOK := false
		for _, arg := range callArgs(app.Common()) {
			if arg == ssa.Value(carried) {
				inputOK = true
			}
		}
		if inputOK {
			r.OK(name+":threading", p.InstrPos(app), "filter input is the loop-carried value %s, whose next value is the filter's output", carried.Name())
		} else {
			r.Bad(name+":threading", p.InstrPos(app), "the filter is not applied to the previous filter's output")
		}
		// the final result is the carried value: returned or written
		used := false
		for _, u := range refs(carried) {
			switch u := u.(type) {
			case *ssa.Return:
				used = true
			case ssa.CallInstruction:
				// value.String() then WriteString, outside the loop
				if u != ssa.CallInstruction(app) && !cl.header.Dominates(u.Block()) || u.Block() != app.Block() {
					if c, ok := u.(*ssa.Call); ok && c.Common().StaticCallee() != nil && c.Common().StaticCallee().Name() == "String" {
						used = true
					}
				}
			case *ssa.Store:
				used = true // defer-spilled result
			}
		}
		if used {
			r.OK(name+":result", pos, "the value left by the last filter is what the function returns/writes")
		} else {
			r.Bad(name+":result", pos, "the chain's final value is not what the function returns or writes")
		}
		// no successful exit without passing the chain loop header
		for _, ret := range successReturns(cl.f) {
			hdr := cl.header
			if MustPass(ret, func(x ssa.Instruction) bool { return x.Block() == hdr }) {
				r.OK(name+":no-skip", p.InstrPos(ret), "successful return passes the chain loop")
			} else {
				r.Bad(name+":no-skip", p.InstrPos(ret), "a successful return is reachable without going through the filter chain (an empty/unknown input would skip the filters, and an unregistered name would render silently)")
			}
		}
	}
	// the loop is left only when the chain is exhausted (at the header) or on an error
	for _, cl := range loops {
		name := p.FuncName(cl.f)
		if !seen[name+cl.field] || cl.header == nil || seen["exit:"+name+cl.field] {
			continue
		}
		seen["exit:"+name+cl.field] = true
		fromHdr := ReachableBlocks(cl.header)
		inLoop := map[*ssa.BasicBlock]bool{cl.header: true}
		for b := range fromHdr {
			if ReachableBlocks(b)[cl.header] {
				inLoop[b] = true
			}
		}
		for _, b := range cl.f.Blocks {
			if !inLoop[b] || b == cl.header {
				continue
			}
			for _, s := range b.Succs {
				if inLoop[s] {
					continue
				}
				key := name + ":loop-exit"
				pos := p.InstrPos(b.Instrs[len(b.Instrs)-1])
				if errorReturnsOnly(cl.f, s) {
					r.OK(key, pos, "the chain loop is left early only with an error")
				} else {
					r.Bad(key, pos, "the chain loop over %s can be left before the last filter without an error: the remaining filters would be skipped", cl.field)
				}
			}
		}
	}
	delete(seen, "")
	nsites := 0
	for k := range seen {
		if !strings.HasPrefix(k, "exit:") {
			nsites++
		}
	}
	if nsites < 2 {
		r.Bad("sites", "-", "expected the two chain application sites (expression filter chain and filter tag); found %d", nsites)
	}
}

// ruleC19Param: the parameter of each filter application is AsValue(nil) when absent, else the parameter
// expression evaluated with the function's own ctx; all three routes agree.
func ruleC19Param(p *Prog, a *Anchors, r *Report) {
	r.Begin("R-C19-SCOPE", "a filter's argument is its parameter expression evaluated in the current execution context (never cached or evaluated elsewhere), or AsValue(nil) when absent — on every route (chain, filter tag, ApplyFilter)", 3)
	asValue := p.Func("AsValue")
	valPtr := types.NewPointer(a.Value)
	isNilValue := func(v ssa.Value) bool {
		c, ok := v.(*ssa.Call)
		if !ok || c.Common().StaticCallee() != asValue {
			return false
		}
		return isNilConst(stripConv(c.Common().Args[0]))
	}
	nilMarker := ssa.Value(ssa.NewConst(nil, types.Typ[types.UntypedNil]))
	type site struct {
		f     *ssa.Function
		call  ssa.CallInstruction
		param ssa.Value
	}
	var sites []site
	// (1) calls through a FilterFunction value
	p.EachInstr(func(f *ssa.Function, in ssa.Instruction) {
		ci, ok := in.(ssa.CallInstruction)
		if !ok {
			return
		}
		cc := ci.Common()
		if cc.IsInvoke() || cc.StaticCallee() != nil {
			// (2) ApplyFilter(name, value, param) with non-constant name
			if cc.StaticCallee() != nil && cc.StaticCallee().Name() == "ApplyFilter" && p.InPkg(cc.StaticCallee()) && len(cc.Args) == 3 {
				if _, isConst := constString(cc.Args[0]); !isConst && a.ExecReach()[f] && p.FuncName(f) != "MustApplyFilter" {
					sites = append(sites, site{f, ci, cc.Args[2]})
				}
			}
			return
		}
		if n, ok := cc.Value.Type().(*types.Named); ok && n.Obj().Name() == "FilterFunction" && len(cc.Args) == 2 {
			// engine-internal use of a constant-named filter (escape) is not a template filter application
			if lk, isLk := cc.Value.(*ssa.Lookup); isLk {
				if _, isConst := constString(lk.Index); isConst {
					return
				}
			}
			sites = append(sites, site{f, ci, cc.Args[1]})
		}
	})
	for _, s := range sites {
		name := p.FuncName(s.f)
		key := name + ":param"
		pos := p.InstrPos(s.call.(ssa.Instruction))
		ctxp := paramOfType(s.f, types.NewPointer(a.ExecCtx))
		// enumerate the sources of the parameter value
		var srcs []ssa.Value
		var walk func(v ssa.Value, d int)
		seen := map[ssa.Value]bool{}
		walk = func(v ssa.Value, d int) {
			if seen[v] || d > 8 {
				return
			}
			seen[v] = true
			if phi, ok := v.(*ssa.Phi); ok {
				for _, e := range phi.Edges {
					walk(e, d+1)
				}
				return
			}
			if u, ok := v.(*ssa.UnOp); ok && u.Op == token.MUL {
				if cells := p.cellsOf(u.X, 0); len(cells) > 0 {
					for _, c := range cells {
						for _, sv := range p.cellStores[c] {
							walk(sv, d+1)
						}
					}
					return
				}
			}
			srcs = append(srcs, v)
		}
		walk(s.param, 0)
		bad := ""
		evaluated := false
		for _, v := range srcs {
			switch {
			case v == nilMarker:
			case isNilConst(v):
				// ApplyFilter itself substitutes; the parameter of the public API
			case isNilValue(v):
			case v == ssa.Value(paramOfTypeIdx(s.f, valPtr, 1)):
				// pass-through of the caller-supplied parameter (ApplyFilter's own param)
			default:
				ex, ok := v.(*ssa.Extract)
				var c *ssa.Call
				if ok {
					c, _ = ex.Tuple.(*ssa.Call)
				}
				// the evaluation may live in a small helper (evaluateParam(ctx)): accept when the helper is handed
				// this function's ctx and every value it returns is Evaluate(<its ctx>) or AsValue(nil)
				if c != nil && c.Common().StaticCallee() != nil && p.InPkg(c.Common().StaticCallee()) && ctxp != nil {
					h := c.Common().StaticCallee()
					hctx := paramOfType(h, types.NewPointer(a.ExecCtx))
					passes := false
					for i, arg := range c.Common().Args {
						if arg == ssa.Value(ctxp) && hctx != nil && i < len(h.Params) && h.Params[i] == hctx {
							passes = true
						}
					}
					okH := passes
					sawEval, sawNil := false, false
					for _, ret := range returnsOf(h) {
						rv := res(ret, 0)
						switch {
						case isNilConst(rv):
						case isNilValue(rv):
							sawNil = true
						default:
							e2, isEx := rv.(*ssa.Extract)
							var c2 *ssa.Call
							if isEx {
								c2, _ = e2.Tuple.(*ssa.Call)
							}
							if c2 != nil && c2.Common().IsInvoke() && c2.Common().Method.Name() == "Evaluate" && len(c2.Common().Args) == 1 && c2.Common().Args[0] == ssa.Value(hctx) {
								sawEval = true
							} else {
								okH = false
							}
						}
					}
					if okH && sawEval {
						evaluated = true
						if sawNil {
							srcs = append(srcs, nilMarker)
						}
						continue
					}
				}
				if c == nil || !c.Common().IsInvoke() || c.Common().Method.Name() != "Evaluate" {
					bad = "parameter value " + p.VN(v) + " is not the result of evaluating the parameter expression here"
					continue
				}
				if ctxp == nil || len(c.Common().Args) != 1 || c.Common().Args[0] != ssa.Value(ctxp) {
					bad = "the parameter expression is evaluated with " + p.VN(c.Common().Args[0]) + ", not the current execution context"
					continue
				}
				evaluated = true
			}
		}
		switch {
		case bad != "":
			r.Bad(key, pos, "%s", bad)
		case name == "ApplyFilter":
			r.OK(key, pos, "public API: caller-supplied parameter, nil replaced by AsValue(nil)")
		case !evaluated:
			r.Bad(key, pos, "the filter never receives an evaluated parameter expression")
		default:
			r.OK(key, pos, "parameter = Evaluate(ctx) of the parameter expression, or AsValue(nil)")
		}
		// nil substitution present
		hasNil := false
		for _, v := range srcs {
			if isNilValue(v) || v == nilMarker {
				hasNil = true
			}
		}
		if hasNil {
			r.OK(name+":nil-param", pos, "a missing parameter is passed as AsValue(nil)")
		} else if name != "ApplyFilter" || true {
			if name == "ApplyFilter" {
				// ApplyFilter: param == nil test
				r.Bad(name+":nil-param", pos, "a missing parameter is not replaced by AsValue(nil) before the filter function is called")
			} else {
				r.Bad(name+":nil-param", pos, "a missing parameter is not replaced by AsValue(nil) before the filter function is called (the three application routes must agree)")
			}
		}
	}
	if len(sites) < 3 {
		r.Bad("sites", "-", "expected three application routes (filterCall.Execute, filter tag, ApplyFilter), found %d", len(sites))
	}
}

func paramOfTypeIdx(f *ssa.Function, T types.Type, nth int) *ssa.Parameter {
	n := 0
	for _, pa := range f.Params {
		if types.Identical(pa.Type(), T) {
			if n == nth {
				return pa
			}
			n++
		}
	}
	return nil
}

func ruleC19Unknown(p *Prog, a *Anchors, r *Report) {
	r.Begin("R-C19-UNKNOWN", "a name missing from the tag/filter registry is an error: the miss edge of every registry lookup returns a non-nil error and the looked-up value is used only on the hit edge", 3)
	for _, reg := range []*ssa.Global{a.FilterRegistry, a.TagRegistry} {
		p.EachInstr(func(f *ssa.Function, in ssa.Instruction) {
			lk, ok := in.(*ssa.Lookup)
			if !ok || !isLoadOfGlobal(lk.X, reg) {
				return
			}
			name := p.FuncName(f)
			key := name + ":lookup " + reg.Name()
			pos := p.InstrPos(in)
			if _, isConst := constString(lk.Index); isConst {
				r.Trivial(key+":const", pos, "constant, engine-internal name")
				return
			}
			top := topLevel(f).Name()
			if top == "FilterExists" || existsPredicate(p, topLevel(f), reg) || strings.HasPrefix(top, "Register") || strings.HasPrefix(top, "Replace") || top == "BanTag" || top == "BanFilter" {
				r.Trivial(key+":api", pos, "registry API itself")
				return
			}
			if !lk.CommaOk {
				r.Bad(key, pos, "registry lookup without the comma-ok form: an unregistered name yields a nil entry instead of an error")
				return
			}
			var okEx, valEx *ssa.Extract
			for _, u := range refs(lk) {
				if ex, isEx := u.(*ssa.Extract); isEx {
					if ex.Index == 1 {
						okEx = ex
					} else {
						valEx = ex
					}
				}
			}
			if okEx == nil {
				r.Bad(key, pos, "the found-flag of the registry lookup is ignored")
				return
			}
			missErr := false
			for _, u := range refs(okEx) {
				var iff *ssa.If
				pol := true
				switch x := u.(type) {
				case *ssa.If:
					iff = x
				case *ssa.UnOp:
					for _, uu := range refs(x) {
						if i2, ok := uu.(*ssa.If); ok {
							iff, pol = i2, false
						}
					}
				}
				if iff == nil {
					continue
				}
				idx := 1
				if !pol {
					idx = 0
				}
				if errorReturnsOnly(f, iff.Block().Succs[idx]) {
					missErr = true
				}
			}
			if !missErr {
				r.Bad(key, pos, "the miss edge of the registry lookup does not end in an error return: an unregistered name renders silently")
				return
			}
			// uses of the value only on the hit edge
			usesOK := true
			if valEx != nil {
				for _, u := range refs(valEx) {
					if !Guarded(u, func(c ssa.Value, pol bool) bool { return c == ssa.Value(okEx) && pol }) {
						usesOK = false
					}
				}
			}
			if usesOK {
				r.OK(key, pos, "miss edge returns an error; the entry is used only on the hit edge")
			} else {
				r.Bad(key, pos, "the looked-up entry is used on a path where the name was not found")
			}
		})
	}
}

func ruleC19Reg(p *Prog, a *Anchors, r *Report) {
	r.Begin("R-C19-REG", "the registries are written only by Register*/Replace* behind the existence test; the names registered by the engine's init functions are pairwise distinct", 5)
	for _, reg := range []*ssa.Global{a.FilterRegistry, a.TagRegistry} {
		p.EachInstr(func(f *ssa.Function, in ssa.Instruction) {
			mu, ok := in.(*ssa.MapUpdate)
			if !ok || !isLoadOfGlobal(mu.Map, reg) {
				if ci, isCall := in.(ssa.CallInstruction); isCall {
					if b, isB := ci.Common().Value.(*ssa.Builtin); isB && (b.Name() == "delete" || b.Name() == "clear") && isLoadOfGlobal(ci.Common().Args[0], reg) {
						r.Bad(p.FuncName(f)+":"+b.Name()+" "+reg.Name(), p.InstrPos(in), "entries are removed from the %s registry", reg.Name())
					}
				}
				return
			}
			name := p.FuncName(f)
			key := name + ":update " + reg.Name()
			pos := p.InstrPos(in)
			top := topLevel(f).Name()
			exists := func(pol bool) bool {
				return Guarded(in, func(c ssa.Value, cpol bool) bool {
					if cpol != pol {
						return false
					}
					if lk := lookupCommaOk(c); lk != nil && isLoadOfGlobal(lk.X, reg) && p.VN(lk.Index) == p.VN(mu.Key) {
						return true
					}
					// FilterExists(name) / tagExists(name): a predicate wrapping the comma-ok lookup
					if call, ok := c.(*ssa.Call); ok && call.Common().StaticCallee() != nil && existsPredicate(p, call.Common().StaticCallee(), reg) && p.VN(call.Common().Args[0]) == p.VN(mu.Key) {
						return true
					}
					return false
				})
			}
			switch {
			case strings.HasPrefix(top, "Register"):
				if exists(false) {
					r.OK(key, pos, "Register*: update only when the name is not registered yet (registering twice is refused)")
				} else {
					r.Bad(key, pos, "Register* overwrites an existing entry: registering a name twice must be refused")
				}
			case strings.HasPrefix(top, "Replace"):
				if exists(true) {
					r.OK(key, pos, "Replace*: update only when the name exists")
				} else {
					r.Bad(key, pos, "Replace* creates entries for unknown names")
				}
			default:
				r.Bad(key, pos, "the %s registry is written outside Register*/Replace* (%s)", reg.Name(), name)
			}
		})
		// the refusing edge returns an error
	}
	for _, fn := range []string{"RegisterFilter", "RegisterTag", "ReplaceFilter", "ReplaceTag"} {
		f := p.Func(fn)
		if f == nil {
			r.Unk(fn, "-", "anchor unresolved: %s", fn)
			continue
		}
		nErr := 0
		for _, ret := range returnsOf(f) {
			if definitelyNonNil(res(ret, len(ret.Results)-1), 0) {
				nErr++
			}
		}
		if nErr > 0 {
			r.OK(fn+":refuses-with-error", p.Pos(f.Pos()), "has an error return for the refused case")
		} else {
			r.Bad(fn+":refuses-with-error", p.Pos(f.Pos()), "%s never returns an error", fn)
		}
	}
	// distinct constant names in init registrations (their error results are discarded)
	for kind, regFn := range map[string]*ssa.Function{"filter": p.Func("RegisterFilter"), "tag": p.Func("RegisterTag")} {
		names := map[string]int{}
		total := 0
		p.EachInstr(func(f *ssa.Function, in ssa.Instruction) {
			ci, ok := in.(ssa.CallInstruction)
			if !ok || ci.Common().StaticCallee() != regFn || regFn == nil {
				return
			}
			if s, isConst := constString(ci.Common().Args[0]); isConst {
				names[s]++
				total++
			}
		})
		dups := []string{}
		for n, c := range names {
			if c > 1 {
				dups = append(dups, n)
			}
		}
		sortStrings(dups)
		if len(dups) > 0 {
			r.Bad("init:"+kind+" names", "-", "the engine registers %v more than once; the second registration fails and its error is discarded, so one implementation is silently dropped", dups)
		} else {
			r.OK("init:"+kind+" names", "-", "%d built-in %s registrations, all names distinct", total, kind)
		}
	}
}

// ruleC19Grow: chains grow only by appending at the end.
func ruleC19Grow(p *Prog, a *Anchors, r *Report) {
	r.Begin("R-C19-GROW", "parsers build a filter chain only by appending the newly parsed filter at the end", 2)
	for _, fld := range [][2]string{{"nodeFilteredVariable", "filterChain"}, {"tagFilterNode", "filterChain"}} {
		n := 0
		p.EachInstr(func(f *ssa.Function, in ssa.Instruction) {
			st, ok := in.(*ssa.Store)
			if !ok || !isFieldAddrOf(st.Addr, fld[0], fld[1]) {
				return
			}
			n++
			key := p.FuncName(f) + ":store " + fld[0] + "." + fld[1]
			c, ok := st.Val.(*ssa.Call)
			if ok {
				if b, isB := c.Common().Value.(*ssa.Builtin); isB && b.Name() == "append" && loadsField(c.Common().Args[0], fld[0], fld[1]) {
					r.OK(key, p.InstrPos(in), "chain = append(chain, new)")
					return
				}
			}
			r.Bad(key, p.InstrPos(in), "the chain is rebuilt as %s instead of append(chain, new): written order is not preserved", p.VN(st.Val))
		})
		if n == 0 {
			r.Unk("store "+fld[0]+"."+fld[1], "-", "no store to the chain field found (anchor unresolved)")
		}
	}
}

// ruleFilterBindsTightest: the factor level of the expression grammar is the one that parses the filter chain.
func ruleFilterBindsTightest(p *Prog, a *Anchors, r *Report, rule string) {
	r.Begin(rule, "a filter binds tighter than any operator: the filter chain is parsed at the factor level (operand of ^), and nowhere above", 1)
	factor := p.Method("Parser", "parseFactor")
	withFilter := p.Method("Parser", "parseVariableOrLiteralWithFilter")
	parseFilter := p.Method("Parser", "parseFilter")
	if factor == nil || withFilter == nil || parseFilter == nil {
		r.Unk("anchor", "-", "anchor unresolved: parseFactor / parseVariableOrLiteralWithFilter / parseFilter")
		return
	}
	if len(callsTo(factor, withFilter)) > 0 {
		r.OK("parseFactor→withFilter", p.Pos(factor.Pos()), "parseFactor parses name/literal together with its filter chain")
	} else {
		r.Bad("parseFactor→withFilter", p.Pos(factor.Pos()), "parseFactor no longer parses the filter chain: filters would bind looser than operators")
	}
	// who else calls parseFilter / withFilter
	for _, target := range []*ssa.Function{withFilter, parseFilter} {
		for _, e := range p.Callers(p.CG, target) {
			g := p.FuncName(e.Site.Parent())
			key := g + "→" + target.Name()
			switch {
			case target == withFilter && e.Site.Parent() == factor:
			case target == parseFilter && e.Site.Parent() == withFilter:
				r.OK(key, p.InstrPos(e.Site), "chain elements are parsed by the factor-level function")
			case strings.HasPrefix(topLevel(e.Site.Parent()).Name(), "tag"):
				r.OK(key, p.InstrPos(e.Site), "tag-argument parser")
			default:
				r.Bad(key, p.InstrPos(e.Site), "%s parses filters at another grammar level", g)
			}
		}
	}
}

// ruleC19DeferredNames: where a filter is applied by NAME at execution time (ApplyFilter(node.name, …)), the name was
// written in the template and stored into the node at compile time. "A filter name that is not registered never renders
// silently — compile-time error" then needs the parser that stores the name to test that it exists; relying on the
// execution-time lookup means an unreached tag ({% if off %}{% filter nosuch %}…) compiles and renders.
func ruleC19DeferredNames(p *Prog, a *Anchors, r *Report) {
	r.Begin("R-C19-DEFERRED", "a filter name that is stored in the compiled tree for by-name application at execution time was tested against the registry (error edge) by the parser that stores it", 1)
	apply := p.Func("ApplyFilter")
	if apply == nil {
		r.Unk("anchor", "-", "anchor unresolved: ApplyFilter")
		return
	}
	type fld struct{ typ, name string }
	fields := map[fld]bool{}
	for _, f := range p.inPkgFuncsSorted(a.ExecReach()) {
		for _, c := range callsTo(f, apply) {
			if _, n, fl := fieldLoadBase(c.Common().Args[0]); n != nil && a.CompiledTypes[n.Obj().Name()] {
				fields[fld{n.Obj().Name(), fl}] = true
			}
		}
	}
	if len(fields) == 0 {
		r.Trivial("none", "-", "no by-name filter application on a compiled-tree field")
		return
	}
	for fd := range fields {
		stores := 0
		p.EachInstr(func(f *ssa.Function, in ssa.Instruction) {
			st, ok := in.(*ssa.Store)
			if !ok || !isFieldAddrOf(st.Addr, fd.typ, fd.name) {
				return
			}
			stores++
			key := p.FuncName(f) + ":" + fd.typ + "." + fd.name
			// an existence test of the stored value whose miss edge is an error, passed by every successful return
			var test ssa.Instruction
			obj := st.Addr.(*ssa.FieldAddr).X
			same := func(v ssa.Value) bool {
				if p.VN(v) == p.VN(st.Val) {
					return true
				}
				// the stored field read back from the same object
				if base, n, fl := fieldLoadBase(v); n != nil && n.Obj().Name() == fd.typ && fl == fd.name && (base == obj || p.VN(base) == p.VN(obj)) {
					return true
				}
				return false
			}
			for _, b := range f.Blocks {
				for _, x := range b.Instrs {
					c, isCall := x.(*ssa.Call)
					if isCall && c.Common().StaticCallee() != nil && existsPredicate(p, c.Common().StaticCallee(), a.FilterRegistry) && len(c.Common().Args) == 1 && same(c.Common().Args[0]) {
						test = x
					}
					if lk, isLk := x.(*ssa.Lookup); isLk && lk.CommaOk && isLoadOfGlobal(lk.X, a.FilterRegistry) && same(lk.Index) {
						test = x
					}
				}
			}
			if test == nil {
				r.Bad(key, p.InstrPos(in), "the filter name written in the template is stored for application at execution time without an existence test in %s: an unregistered name compiles, and renders silently whenever the tag is not reached", p.FuncName(f))
				return
			}
			ok2 := true
			for _, ret := range successReturns(f) {
				if !ReachesInstr(in.Block(), ret) {
					continue
				}
				if !MustPassFrom(in.Block(), instrIndex(in)+1, ret, func(x ssa.Instruction) bool { return x == test }) {
					ok2 = false
				}
			}
			// the miss edge of the test must be an error
			missErr := false
			for _, u := range refs(test.(ssa.Value)) {
				check := func(iff *ssa.If, missIdx int) {
					if errorReturnsOnly(f, iff.Block().Succs[missIdx]) {
						missErr = true
					}
				}
				switch x := u.(type) {
				case *ssa.If:
					check(x, 1)
				case *ssa.UnOp:
					for _, uu := range refs(x) {
						if i2, isIf := uu.(*ssa.If); isIf {
							check(i2, 0)
						}
					}
				case *ssa.Extract:
					for _, uu := range refs(x) {
						if i2, isIf := uu.(*ssa.If); isIf && x.Index == 1 {
							check(i2, 1)
						}
					}
				}
			}
			if ok2 && missErr {
				r.OK(key, p.InstrPos(in), "the name is tested against the registry, a miss is a compile error")
			} else {
				r.Bad(key, p.InstrPos(in), "the existence test of the stored filter name is not on every successful path, or its miss edge is not an error (on all paths: %v, miss is an error: %v)", ok2, missErr)
			}
		})
		if stores == 0 {
			r.Unk(fd.typ+"."+fd.name, "-", "no store to %s.%s found", fd.typ, fd.name)
		}
	}
}
