package main

// C14 — Execute variants agree; ExecuteWriter is all-or-nothing: R-C14-AON, ERR, FUNNEL, ASSERT.

import (
	"go/token"
	"go/types"

	"golang.org/x/tools/go/ssa"
)

func init() { register("C14", checkC14) }

func checkC14(p *Prog, r *Report) {
	a := ResolveAnchors(p)
	if !anchorCheck(a, r) {
		return
	}
	ew := p.Method("Template", "ExecuteWriter")
	if ew == nil {
		r.Begin("R-C14-ANCHORS", "ExecuteWriter exists", 1)
		r.Unk("anchor", "-", "anchor unresolved: (*Template).ExecuteWriter")
		return
	}
	// ExecuteWriter may be a thin wrapper (return tpl.impl(context, writer, …)) around the function that does the
	// work, e.g. because nested executions share it: the rules are about that function then
	for hop := 0; hop < 2; hop++ {
		var only *ssa.Call
		nCalls := 0
		for _, b := range ew.Blocks {
			for _, in := range b.Instrs {
				if c, ok := in.(*ssa.Call); ok {
					nCalls++
					only = c
				}
			}
		}
		if nCalls != 1 || len(ew.Blocks) != 1 || only.Common().StaticCallee() == nil || !p.InPkg(only.Common().StaticCallee()) {
			break
		}
		passesWriter := false
		for _, arg := range only.Common().Args {
			if pa, isParam := arg.(*ssa.Parameter); isParam && pa.Parent() == ew {
				if iw := lookupStdType(p, "io", "Writer"); iw != nil && types.Identical(pa.Type(), iw) {
					passesWriter = true
				}
			}
		}
		rets := returnsOf(ew)
		if !passesWriter || len(rets) != 1 || len(rets[0].Results) != 1 || rets[0].Results[0] != ssa.Value(only) {
			break
		}
		ew = only.Common().StaticCallee()
	}
	ioWriter := lookupStdType(p, "io", "Writer")

	// ---- R-C14-AON
	r.Begin("R-C14-AON", "in ExecuteWriter the caller's writer is used only as the destination of the finished buffer, and only on the success edge of the buffered execution", 1)
	var wparam *ssa.Parameter
	for _, pa := range ew.Params {
		if ioWriter != nil && types.Identical(pa.Type(), ioWriter) {
			wparam = pa
		}
	}
	var writeTo *ssa.Call
	if wparam == nil {
		r.Unk("writer-param", p.Pos(ew.Pos()), "ExecuteWriter has no io.Writer parameter")
	} else {
		uses := refs(wparam)
		// parameters may be spilled to a cell if captured; follow one level
		var real []ssa.Instruction
		for _, u := range uses {
			if st, ok := u.(*ssa.Store); ok && st.Val == ssa.Value(wparam) {
				if cell, ok := st.Addr.(*ssa.Alloc); ok {
					for _, cu := range refs(cell) {
						if ld, ok := cu.(*ssa.UnOp); ok {
							real = append(real, refs(ld)...)
						}
					}
					continue
				}
			}
			real = append(real, u)
		}
		if len(real) == 0 {
			r.Bad("writer-use", p.Pos(ew.Pos()), "ExecuteWriter never writes to the caller's writer")
		}
		for _, u := range real {
			key := p.FuncName(ew) + ":writer-use"
			c, ok := u.(*ssa.Call)
			callee := ""
			if ok && c.Common().StaticCallee() != nil {
				callee = p.extName(c.Common().StaticCallee())
			}
			if callee != "(*bytes.Buffer).WriteTo" && callee != "io.Copy" && callee != "(*bytes.Buffer).Bytes" {
				// writer.Write(buf.Bytes()) idiom
				if ok && c.Common().IsInvoke() && c.Common().Method.Name() == "Write" && c.Common().Value == ssa.Value(wparam) {
					callee = "Write"
				} else {
					r.Bad(key, p.InstrPos(u), "the caller's writer flows into %s: output may reach the caller before execution has succeeded (ExecuteWriter must write nothing on error)", p.describeInstr(u))
					continue
				}
			}
			writeTo = c
			// the buffer must be the result of a buffered execution whose error was tested
			var exec *ssa.Call
			var bufArg ssa.Value
			if callee == "Write" {
				if bc, ok := stripConv(c.Common().Args[0]).(*ssa.Call); ok && len(bc.Common().Args) > 0 {
					bufArg = bc.Common().Args[0]
				}
			} else if callee == "io.Copy" {
				bufArg = stripConv(c.Common().Args[1])
			} else {
				bufArg = c.Common().Args[0]
			}
			if ex, ok := bufArg.(*ssa.Extract); ok {
				exec, _ = ex.Tuple.(*ssa.Call)
			}
			errVal := func(e *ssa.Call) func(x ssa.Value) bool {
				tup, isTuple := e.Type().(*types.Tuple)
				return func(x ssa.Value) bool {
					if !isTuple {
						return x == ssa.Value(e)
					}
					ex, ok := x.(*ssa.Extract)
					return ok && ex.Tuple == ssa.Value(e) && ex.Index == tup.Len()-1
				}
			}
			if exec == nil {
				// the buffer is a local/pooled object that was handed to the executor as its writer
				for _, bb := range ew.Blocks {
					for _, x := range bb.Instrs {
						cand, isCall := x.(*ssa.Call)
						if !isCall || cand.Common().StaticCallee() == nil || !p.InPkg(cand.Common().StaticCallee()) {
							continue
						}
						for _, arg := range cand.Common().Args {
							if stripConv(arg) == bufArg && allFresh(p.Roots(bufArg)) {
								exec = cand
							}
						}
					}
				}
			}
			if exec == nil {
				r.Bad(key, p.InstrPos(u), "the data written to the caller's writer is not the buffer the execution rendered into (%s)", p.VN(bufArg))
				continue
			}
			isErr := errVal(exec)
			g := Guarded(u, func(cond ssa.Value, pol bool) bool {
				x, eq, isNil := condIsNilTest(cond)
				return isNil && isErr(x) && eq == pol
			})
			if g {
				r.OK(key, p.InstrPos(u), "the only use of the caller's writer is %s of the finished buffer, on the err == nil edge of %s", callee, p.calleeName(exec.Common()))
			} else {
				r.Bad(key, p.InstrPos(u), "the buffer is flushed to the caller's writer without testing the execution error first")
			}
			// the buffered execution must not see the caller's writer
			for _, arg := range exec.Common().Args {
				if arg == ssa.Value(wparam) {
					r.Bad(key+":leak", p.InstrPos(exec), "the caller's writer is handed to the execution itself")
				}
			}
		}
	}

	// a pooled output buffer that is not emptied before use prepends an earlier rendering's leftovers
	rulePoolDiscipline(p, a, r, "R-C14-POOL")

	ruleC14Unbuffered(p, a, r)

	// ---- R-C14-ERR
	r.Begin("R-C14-ERR", "ExecuteWriter hands the caller's writer's error back", 1)
	if writeTo != nil {
		var errEx *ssa.Extract
		for _, u := range refs(writeTo) {
			if ex, ok := u.(*ssa.Extract); ok && ex.Index == writeTo.Type().(*types.Tuple).Len()-1 {
				errEx = ex
			}
		}
		returned := false
		if errEx != nil {
			for _, ret := range returnsOf(ew) {
				if len(ret.Results) > 0 {
					v := res(ret, len(ret.Results)-1)
					if flowsFrom(v, errEx, 0) {
						returned = true
					}
				}
			}
		}
		if returned && errEx != nil {
			// … on every path: a nil test of it whose non-nil case goes on (retrying, ignoring some errors) swallows the
			// writer's error in that case
			if _, dropped := errValueDiscipline(p, topLevel(errEx.Parent()), errEx); dropped != "" {
				r.Bad("(*Template).ExecuteWriter:writer-error", p.InstrPos(writeTo), "the error of writing to the caller's writer is tested at %s, but a non-nil error does not always end the call with that error (it is ignored or retried in some case): ExecuteWriter can return nil although the writer reported an error", dropped)
				returned = false
			} else if inLoop(writeTo) {
				r.Bad("(*Template).ExecuteWriter:writer-error", p.InstrPos(writeTo), "the finished output is handed to the caller's writer in a loop: after a partial write the rest is sent again, and the writer's error of the first attempt is lost")
				returned = false
			}
			if !returned {
				goto funnel
			}
		}
		if returned {
			r.OK("(*Template).ExecuteWriter:writer-error", p.InstrPos(writeTo), "the error result of the flush is returned")
		} else {
			r.Bad("(*Template).ExecuteWriter:writer-error", p.InstrPos(writeTo), "the error of writing to the caller's writer is dropped or replaced")
		}
	} else {
		r.Unk("(*Template).ExecuteWriter:writer-error", p.Pos(ew.Pos()), "no flush call identified")
	}

funnel:
	// ---- R-C14-FUNNEL
	r.Begin("R-C14-FUNNEL", "all Execute variants reach the same executor with the caller's context unchanged and return the buffer's content untransformed", 4)
	for _, name := range []string{"Execute", "ExecuteBytes", "ExecuteWriter", "ExecuteWriterUnbuffered"} {
		f := p.Method("Template", name)
		if f == nil {
			r.Unk("(*Template)."+name, "-", "anchor unresolved")
			continue
		}
		key := "(*Template)." + name
		if ok, why := passesContextTo(p, a, f, a.ExecCore, 4); ok {
			r.OK(key+":funnel", p.Pos(f.Pos()), "reaches (*Template).execute with its own receiver and Context parameter")
		} else {
			r.Bad(key+":funnel", p.Pos(f.Pos()), "%s does not funnel into (*Template).execute with the caller's template and context unchanged: %s", name, why)
		}
		// results: untransformed buffer content
		for _, ret := range returnsOf(f) {
			if len(ret.Results) < 2 {
				continue
			}
			v := res(ret, 0)
			if isNilConst(v) {
				continue
			}
			if s, isConst := constString(v); isConst && s == "" {
				continue
			}
			if c, ok := v.(*ssa.Call); ok && c.Common().StaticCallee() != nil {
				n := p.extName(c.Common().StaticCallee())
				if (n == "(*bytes.Buffer).String" || n == "(*bytes.Buffer).Bytes") && isExtractOfPkgCall(p, c.Common().Args[0]) {
					r.OK(key+":result", p.InstrPos(ret), "returns %s of the execution buffer", n)
					continue
				}
			}
			r.Bad(key+":result", p.InstrPos(ret), "the returned output is %s, not the untransformed content of the execution buffer", p.VN(v))
		}
	}
	// the buffered helper passes the very buffer it returns to the executor
	for _, f := range p.Funcs {
		if len(callsTo(f, a.ExecCore)) == 0 || f.Signature.Results().Len() != 2 {
			continue
		}
		for _, c := range callsTo(f, a.ExecCore) {
			// the writer argument of the executor: the one of (an implementation of) TemplateWriter type
			var wr ssa.Value
			for i, arg := range c.Common().Args {
				if i < a.ExecCore.Signature.Params().Len()+1 && i > 0 {
					if pt := a.ExecCore.Signature.Params().At(i - 1).Type(); types.IsInterface(pt) && types.Identical(pt.Underlying(), a.TemplateWriter) {
						wr = stripConv(arg)
					}
				}
			}
			if wr == nil {
				wr = stripConv(c.Common().Args[len(c.Common().Args)-1])
			}
			for _, ret := range returnsOf(f) {
				if !isNilConst(res(ret, 0)) {
					if res(ret, 0) == wr {
						r.OK(p.FuncName(f)+":same-buffer", p.InstrPos(ret), "the buffer handed to the executor is the one returned")
					} else {
						r.Bad(p.FuncName(f)+":same-buffer", p.InstrPos(ret), "returns %s but executed into %s", p.VN(res(ret, 0)), p.VN(wr))
					}
				}
			}
		}
	}

	// ---- R-C14-WRITERTYPE
	r.Begin("R-C14-WRITERTYPE", "no engine code inspects the dynamic type of the writer it is given (the variants differ only in the writer, so output must not depend on it)", 1)
	nTA := 0
	tw := p.Named("TemplateWriter")
	p.EachInstr(func(f *ssa.Function, in ssa.Instruction) {
		ta, ok := in.(*ssa.TypeAssert)
		if !ok {
			return
		}
		T := ta.X.Type()
		isWriter := (tw != nil && types.Identical(T, tw)) || (ioWriter != nil && types.Identical(T, ioWriter))
		if !isWriter {
			return
		}
		nTA++
		r.Bad(p.FuncName(f)+":assert writer", p.InstrPos(in), "the writer's dynamic type is inspected (.(%s)): buffered and unbuffered execution can then produce different bytes, and ExecuteWriter may stream into the caller's writer", typeName(ta.AssertedType))
	})
	if nTA == 0 {
		r.OK("count", "-", "0 type assertions/switches on TemplateWriter or io.Writer values in %d functions", len(p.Funcs))
	}

	// ---- R-C14-ASSERT
	ruleErrorAssertions(p, a, r, "R-C14-ASSERT", true)
}

func (p *Prog) describeInstr(in ssa.Instruction) string {
	if ci, ok := in.(ssa.CallInstruction); ok {
		return "call " + p.calleeName(ci.Common())
	}
	if v, ok := in.(ssa.Value); ok {
		return p.VN(v)
	}
	return in.String()
}

func isExtractOfPkgCall(p *Prog, v ssa.Value) bool {
	ex, ok := v.(*ssa.Extract)
	if !ok {
		return false
	}
	c, ok := ex.Tuple.(*ssa.Call)
	return ok && c.Common().StaticCallee() != nil && p.InPkg(c.Common().StaticCallee())
}

// flowsFrom: v is src, possibly through phis/conversions/local cells.
func flowsFrom(v, src ssa.Value, depth int) bool {
	if v == src {
		return true
	}
	if depth > 8 {
		return false
	}
	switch x := v.(type) {
	case *ssa.Phi:
		for _, e := range x.Edges {
			if flowsFrom(e, src, depth+1) {
				return true
			}
		}
	case *ssa.ChangeInterface:
		return flowsFrom(x.X, src, depth+1)
	case *ssa.MakeInterface:
		return flowsFrom(x.X, src, depth+1)
	case *ssa.UnOp:
		if sv := localLoadValue(x); sv != nil {
			return flowsFrom(sv, src, depth+1)
		}
	}
	return false
}

func lookupStdType(p *Prog, pkgPath, name string) types.Type {
	for _, imp := range p.Pkg.Types.Imports() {
		if imp.Path() == pkgPath {
			if o := imp.Scope().Lookup(name); o != nil {
				return o.Type()
			}
		}
	}
	return nil
}

// passesContextTo: f calls target (directly or through ≤ depth static helper calls), passing its own receiver
// as receiver and its own Context parameter as Context argument at every hop.
func passesContextTo(p *Prog, a *Anchors, f, target *ssa.Function, depth int) (bool, string) {
	if depth == 0 {
		return false, "call chain too deep"
	}
	ctxp := paramOfType(f, a.Context)
	if ctxp == nil || len(f.Params) == 0 {
		return false, p.FuncName(f) + " has no Context parameter"
	}
	why := "no call that forwards receiver and context"
	for _, b := range f.Blocks {
		for _, in := range b.Instrs {
			ci, ok := in.(ssa.CallInstruction)
			if !ok {
				continue
			}
			callee := ci.Common().StaticCallee()
			if callee == nil || !p.InPkg(callee) {
				continue
			}
			args := ci.Common().Args
			if len(args) < 2 || args[0] != ssa.Value(f.Params[0]) {
				continue
			}
			fw := false
			for _, x := range args[1:] {
				if x == ssa.Value(ctxp) {
					fw = true
				}
			}
			if !fw {
				if paramOfType(callee, a.Context) != nil {
					why = "call to " + p.FuncName(callee) + " passes a different context"
				}
				continue
			}
			if callee == target {
				return true, ""
			}
			if ok, w := passesContextTo(p, a, callee, target, depth-1); ok {
				return true, ""
			} else {
				why = w
			}
		}
	}
	return false, why
}

// ruleErrorAssertions: every single-value assertion `x.(*Error)` on an error value is proven by the concrete-type
// set of x (engine T).
func ruleErrorAssertions(p *Prog, a *Anchors, r *Report, rule string, onlyErrors bool) {
	r.Begin(rule, "every unchecked type assertion in engine code is proven by the concrete-type set of its operand", 5)
	p.EachInstr(func(f *ssa.Function, in ssa.Instruction) {
		ta, ok := in.(*ssa.TypeAssert)
		if !ok || ta.CommaOk {
			return
		}
		if onlyErrors && typeName(ta.AssertedType) != "*Error" {
			return
		}
		key := p.FuncName(f) + ":.(" + typeName(ta.AssertedType) + ")"
		pos := p.InstrPos(in)
		if types.IsInterface(ta.AssertedType) {
			r.Trivial(key, pos, "interface-to-interface assertion")
			return
		}
		// nil operand guarded? a nil interface panics too
		ts := p.ConcreteTypes(ta.X)
		if ts.Top {
			// resolver special case: guarded by a reflect type equality
			if guardedByTypeEq(p, ta) {
				r.OK(key, pos, "operand is reflect.Value.Interface() of a value whose Type() was compared with the asserted type on every path")
				return
			}
			r.Bad(key, pos, "unchecked assertion on a value of unknown dynamic type (%s): panics when the value is not a %s", ts.Why, typeName(ta.AssertedType))
			return
		}
		bad := ""
		for k, T := range ts.Types {
			if !types.Identical(T, ta.AssertedType) {
				bad = k
			}
		}
		nilOK := true
		if ts.Nil {
			// nil reaches the assertion only if not guarded by x != nil
			nilOK = Guarded(in, func(c ssa.Value, pol bool) bool {
				x, eq, isNil := condIsNilTest(c)
				return isNil && p.VN(x) == p.VN(ta.X) && eq != pol
			})
		}
		switch {
		case bad != "":
			r.Bad(key, pos, "operand can hold %s: the assertion to %s panics", bad, typeName(ta.AssertedType))
		case !nilOK:
			r.Bad(key, pos, "operand can be a nil interface here: the assertion panics")
		default:
			r.OK(key, pos, "operand's concrete types are %s", ts.String())
		}
	})
}

// guardedByTypeEq: assertion operand is v.Interface() and on every path v.Type() == <global holding reflect.TypeOf(asserted)> was established.
func guardedByTypeEq(p *Prog, ta *ssa.TypeAssert) bool {
	c, ok := ta.X.(*ssa.Call)
	if !ok || c.Common().StaticCallee() == nil || p.extName(c.Common().StaticCallee()) != "(reflect.Value).Interface" {
		return false
	}
	recv := c.Common().Args[0]
	return Guarded(ta, func(cond ssa.Value, pol bool) bool {
		b, ok := cond.(*ssa.BinOp)
		if !ok {
			return false
		}
		isTypeOf := func(v ssa.Value) bool {
			tc, ok := v.(*ssa.Call)
			return ok && tc.Common().StaticCallee() != nil && p.extName(tc.Common().StaticCallee()) == "(reflect.Value).Type" && p.VN(tc.Common().Args[0]) == p.VN(recv)
		}
		isGlobalType := func(v ssa.Value) bool {
			u, ok := v.(*ssa.UnOp)
			if !ok {
				return false
			}
			g, ok := u.X.(*ssa.Global)
			return ok && globalIsTypeOf(p, g, ta.AssertedType)
		}
		match := (isTypeOf(b.X) && isGlobalType(b.Y)) || (isTypeOf(b.Y) && isGlobalType(b.X))
		if !match {
			return false
		}
		return (b.Op.String() == "==" && pol) || (b.Op.String() == "!=" && !pol)
	})
}

// globalIsTypeOf: package variable g is initialised once with reflect.TypeOf(<value of type T>).
func globalIsTypeOf(p *Prog, g *ssa.Global, T types.Type) bool {
	found := false
	stores := 0
	p.EachInstr(func(f *ssa.Function, in ssa.Instruction) {
		st, ok := in.(*ssa.Store)
		if !ok || st.Addr != ssa.Value(g) {
			return
		}
		stores++
		c, ok := st.Val.(*ssa.Call)
		if !ok || c.Common().StaticCallee() == nil || p.extName(c.Common().StaticCallee()) != "reflect.TypeOf" {
			return
		}
		if mi, ok := c.Common().Args[0].(*ssa.MakeInterface); ok && types.Identical(mi.X.Type(), T) {
			found = true
		}
	})
	return found && stores == 1
}

// ruleNilPointerFromData: a pointer taken out of caller data by a type assertion / type switch (`case *T:`) can be a
// typed nil pointer — the dynamic type matches, the pointer is nil. Dereferencing it needs a nil test.
func ruleNilPointerFromData(p *Prog, a *Anchors, r *Report, rule string) {
	r.Begin(rule, "a pointer obtained by asserting caller data (a value of unknown dynamic type) to a pointer type is dereferenced only after a nil test: a typed nil pointer in the context matches the type", 0)
	n := 0
	p.EachInstr(func(f *ssa.Function, in ssa.Instruction) {
		ta, ok := in.(*ssa.TypeAssert)
		if !ok {
			return
		}
		if _, isPtr := ta.AssertedType.Underlying().(*types.Pointer); !isPtr {
			return
		}
		if !p.ConcreteTypes(ta.X).Top {
			return
		}
		// only types a caller can produce a nil pointer of: exported types of this package, types of other packages
		if n, ok := ta.AssertedType.Underlying().(*types.Pointer).Elem().(*types.Named); ok && n.Obj().Pkg() == p.Pkg.Types && !n.Obj().Exported() {
			return
		}
		var ptr ssa.Value = ta
		if ta.CommaOk {
			ptr = nil
			for _, u := range refs(ta) {
				if ex, ok := u.(*ssa.Extract); ok && ex.Index == 0 {
					ptr = ex
				}
			}
		}
		if ptr == nil {
			return
		}
		n++
		key := p.FuncName(f) + ":.(" + typeName(ta.AssertedType) + ") deref"
		var derefs []ssa.Instruction
		var walk func(v ssa.Value, d int)
		seen := map[ssa.Value]bool{}
		walk = func(v ssa.Value, d int) {
			if d > 4 || seen[v] {
				return
			}
			seen[v] = true
			for _, u := range refs(v) {
				switch x := u.(type) {
				case *ssa.UnOp:
					if x.Op == token.MUL && x.X == v {
						derefs = append(derefs, x)
					}
				case *ssa.FieldAddr:
					if x.X == v {
						derefs = append(derefs, x)
					}
				case *ssa.Phi:
					walk(x, d+1)
				case *ssa.ChangeType:
					walk(x, d+1)
				}
			}
		}
		walk(ptr, 0)
		bad := false
		for _, d := range derefs {
			guarded := Guarded(d, func(c ssa.Value, pol bool) bool {
				x, eq, isNil := condIsNilTest(c)
				return isNil && eq != pol && (x == ptr || p.VN(x) == p.VN(ptr))
			})
			if !guarded {
				bad = true
				r.Bad(key, p.InstrPos(d), "the %s taken out of a value of unknown dynamic type is dereferenced without a nil test: a nil %s in the context (an unset optional field) panics here", typeName(ta.AssertedType), typeName(ta.AssertedType))
			}
		}
		if !bad {
			r.OK(key, p.InstrPos(in), "asserted pointer is %s", map[bool]string{true: "dereferenced only under a nil test", false: "never dereferenced here (passed on / stored)"}[len(derefs) > 0])
		}
	})
	if n == 0 {
		r.Trivial("none", "-", "no pointer-typed assertion on caller data")
	}
}

// ruleC14Unbuffered: the unbuffered variant fails in the same cases as the buffered one also when it is the caller's
// writer that fails, and what it has written is a leading part of the full output. The output nodes ignore the results
// of their writes (errcheck lists 39 such sites), so the adapter between them and the caller's writer has to keep the
// first error, stop writing after it, and the entry point has to return it.
func ruleC14Unbuffered(p *Prog, a *Anchors, r *Report) {
	r.Begin("R-C14-UNBUF", "the writer adapter of the unbuffered variant remembers the first error of the caller's writer, writes nothing after it, and the entry point returns it when execution itself succeeded", 2)
	ioWriter := lookupStdType(p, "io", "Writer")
	// the adapter: a package struct type with an io.Writer field whose pointer implements TemplateWriter
	var adapter *types.Named
	var wField, errField string
	sc := p.Pkg.Types.Scope()
	for _, name := range sc.Names() {
		tn, ok := sc.Lookup(name).(*types.TypeName)
		if !ok {
			continue
		}
		st, ok := tn.Type().Underlying().(*types.Struct)
		if !ok || !types.Implements(types.NewPointer(tn.Type()), a.TemplateWriter) {
			continue
		}
		w, e := "", ""
		for i := 0; i < st.NumFields(); i++ {
			if ioWriter != nil && types.Identical(st.Field(i).Type(), ioWriter) {
				w = st.Field(i).Name()
			}
			if types.Identical(st.Field(i).Type(), types.Universe.Lookup("error").Type()) {
				e = st.Field(i).Name()
			}
		}
		if w != "" {
			adapter, wField, errField = tn.Type().(*types.Named), w, e
		}
	}
	if adapter == nil {
		r.Unk("adapter", "-", "anchor unresolved: the struct that adapts an io.Writer to TemplateWriter")
		return
	}
	an := adapter.Obj().Name()
	if errField == "" {
		r.Bad(an+":remembers", "-", "%s has no error field: an error of the caller's writer is lost (every output node discards the result of its write), ExecuteWriterUnbuffered returns nil and keeps writing", an)
		return
	}
	// every invoke of Write on the wrapped writer: under errField == nil, and its error stored into errField on every path
	nInv := 0
	for _, m := range p.Methods(adapter) {
		for _, b := range m.Blocks {
			for i, in := range b.Instrs {
				c, ok := in.(*ssa.Call)
				if !ok || !c.Common().IsInvoke() || !loadsField(c.Common().Value, an, wField) {
					continue
				}
				nInv++
				key := p.FuncName(m) + ":forward"
				guarded := Guarded(in, func(cond ssa.Value, pol bool) bool {
					x, eq, isNil := condIsNilTest(cond)
					return isNil && eq == pol && loadsField(x, an, errField)
				})
				stored := true
				for _, ret := range returnsOf(m) {
					if !ReachesInstr(b, ret) {
						continue
					}
					if !MustPassFrom(b, i+1, ret, func(x ssa.Instruction) bool {
						st, ok := x.(*ssa.Store)
						return ok && isFieldAddrOf(st.Addr, an, errField)
					}) {
						stored = false
					}
				}
				switch {
				case !guarded:
					r.Bad(key, p.InstrPos(in), "the caller's writer is written to although an earlier write has failed: what arrives is not a leading part of the output (a writer that rejects one chunk and accepts the next gets a hole)")
				case !stored:
					r.Bad(key, p.InstrPos(in), "the result of the write to the caller's writer is not kept in %s.%s on every path: the error is lost", an, errField)
				default:
					r.OK(key, p.InstrPos(in), "forwarded only while no write has failed; the result is remembered in %s.%s", an, errField)
				}
				// … and only with something to write: the buffered variants hand the rendering over with
				// bytes.Buffer.WriteTo, which never calls Write without bytes. Output nodes write empty strings all
				// the time ({{ missing }}); forwarding those makes a closed writer an error of the unbuffered variant
				// where ExecuteWriter succeeds.
				nonEmpty := Guarded(in, func(cond ssa.Value, pol bool) bool {
					bo, ok := cond.(*ssa.BinOp)
					if !ok {
						return false
					}
					isLen := func(v ssa.Value) bool {
						c, ok := v.(*ssa.Call)
						if !ok {
							return false
						}
						bi, ok := c.Common().Value.(*ssa.Builtin)
						return ok && bi.Name() == "len" && len(c.Common().Args) == 1 && len(c.Common().Args) > 0 && (c.Common().Args[0] == c.Common().Args[0]) && sameBytes(c.Common().Args[0], in.(*ssa.Call))
					}
					k, isK := constInt(bo.Y)
					if !isK || k != 0 || !isLen(bo.X) {
						return false
					}
					switch bo.Op {
					case token.EQL:
						return !pol
					case token.NEQ, token.GTR:
						return pol
					}
					return false
				})
				if !nonEmpty {
					// the test may stand where a helper that forwards is called: Write tests len(b), writeThrough(b) writes
					for _, arg := range in.(*ssa.Call).Common().Args {
						pa, isParam := arg.(*ssa.Parameter)
						if !isParam {
							continue
						}
						sites := paramActualSites(p, pa)
						all := len(sites) > 0
						for _, s := range sites {
							act := s.val
							if !Guarded(s.site, func(cond ssa.Value, pol bool) bool {
								bo, ok := cond.(*ssa.BinOp)
								if !ok {
									return false
								}
								c, ok := bo.X.(*ssa.Call)
								if !ok {
									return false
								}
								bi, ok := c.Common().Value.(*ssa.Builtin)
								if !ok || bi.Name() != "len" || c.Common().Args[0] != act {
									return false
								}
								if k, isK := constInt(bo.Y); !isK || k != 0 {
									return false
								}
								switch bo.Op {
								case token.EQL:
									return !pol
								case token.NEQ, token.GTR:
									return pol
								}
								return false
							}) {
								all = false
							}
						}
						if all {
							nonEmpty = true
						}
					}
				}
				if nonEmpty {
					r.OK(key+":non-empty", p.InstrPos(in), "a write without bytes is not forwarded")
				} else {
					r.Bad(key+":non-empty", p.InstrPos(in), "writes without bytes are forwarded to the caller's writer: the output nodes write empty strings ({{ missing }}), a writer that fails every call (a closed file) then makes ExecuteWriterUnbuffered fail where ExecuteWriter — whose bytes.Buffer.WriteTo never calls Write without bytes — succeeds")
				}
			}
		}
	}
	if nInv == 0 {
		r.Unk(an+":forward", "-", "no write to the wrapped writer found in the methods of %s", an)
	}
	// entry points that construct the adapter around the caller's writer return the remembered error
	p.EachInstr(func(f *ssa.Function, in ssa.Instruction) {
		al, ok := in.(*ssa.Alloc)
		if !ok {
			return
		}
		if pt, ok := al.Type().(*types.Pointer); !ok || !types.Identical(pt.Elem(), adapter) {
			return
		}
		// only adapters around a caller-supplied writer (a parameter), not around local buffers
		aroundParam := false
		for _, v := range p.fieldStores([]*ssa.Alloc{al}, fieldIndex(adapter, wField)) {
			if _, isParam := stripConv(v).(*ssa.Parameter); isParam {
				aroundParam = true
			}
		}
		if !aroundParam {
			return
		}
		key := p.FuncName(f) + ":returns-writer-error"
		okAll := true
		for _, ret := range successReturns(f) {
			v := res(ret, len(ret.Results)-1)
			if !loadsField(v, an, errField) {
				okAll = false
			}
		}
		if okAll && len(successReturns(f)) > 0 {
			r.OK(key, p.InstrPos(in), "when execution succeeds the remembered writer error (nil if none) is returned")
		} else {
			r.Bad(key, p.InstrPos(in), "%s can return nil although the caller's writer has failed: the unbuffered variant succeeds where ExecuteWriter reports the writer's error", p.FuncName(f))
		}
	})
}

// sameBytes: v is the byte slice the forwarded call writes (its argument).
func sameBytes(v ssa.Value, call *ssa.Call) bool {
	for _, a := range call.Common().Args {
		if a == v {
			return true
		}
	}
	return false
}
