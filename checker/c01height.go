package main

import (
	"go/token"
	"go/types"

	"golang.org/x/tools/go/ssa"
)

// High-water marks and R-C01-HEIGHT.
//
// The nesting counter of the parser (Parser.depth) is what lies on the parser's own stack: it goes up for an operand
// and down again behind it. The tree the parser BUILDS can be higher than any value the counter ever had: a binary
// operator's node takes what was parsed BEFORE the operator as its first operand — parsed when the counter did not
// contain that node — so `((a) + 0 + 0 … ) + 0 + 0 …` puts one uncounted Evaluate frame per operator on top of a
// (hunter C01-h1 of round 7: 29 000 frames inside "250 levels", a recursive macro around it ends the process). The
// bound holds for the tree only if the height is recorded apart from the counter: a high-water mark that is raised to
// the counter when the counter steps, raised by one for each node put on top of what is parsed already, started at
// the counter for an operand and merged (max) into the enclosing mark behind it.

// c01Mark: field `name` of struct T is a high-water mark of field `of` (somewhere `if x.of > x.name { x.name = x.of }`).
type c01Mark struct {
	T          string
	idx, ofIdx int
	name, of   string
	in         *ssa.Function
}

func c01FieldLoad(v ssa.Value) (*ssa.FieldAddr, *types.Named, bool) {
	u, ok := v.(*ssa.UnOp)
	if !ok || u.Op != token.MUL {
		return nil, nil, false
	}
	fa, ok := u.X.(*ssa.FieldAddr)
	if !ok || !isIntType(u.Type()) {
		return nil, nil, false
	}
	n := structOf(fa.X.Type())
	if n == nil {
		return nil, nil, false
	}
	return fa, n, true
}

func c01HighWaterMarks(p *Prog) []c01Mark {
	if p.marks != nil {
		return *p.marks
	}
	var out []c01Mark
	seen := map[string]bool{}
	for _, f := range p.inPkgFuncsSorted(p.allFuncSet()) {
		for _, b := range f.Blocks {
			if len(b.Instrs) == 0 {
				continue
			}
			iff, ok := b.Instrs[len(b.Instrs)-1].(*ssa.If)
			if !ok {
				continue
			}
			c, pol := normCond(iff.Cond, true)
			bo, ok := c.(*ssa.BinOp)
			if !ok {
				continue
			}
			fx, nx, okx := c01FieldLoad(bo.X)
			fy, ny, oky := c01FieldLoad(bo.Y)
			if !okx || !oky || nx != ny || fx.Field == fy.Field {
				continue
			}
			// on which edge is which side the greater one
			var big, small *ssa.FieldAddr
			switch bo.Op {
			case token.GTR, token.GEQ:
				big, small = fx, fy
			case token.LSS, token.LEQ:
				big, small = fy, fx
			default:
				continue
			}
			succ := b.Succs[0]
			if !pol {
				succ = b.Succs[1]
			}
			for _, in := range succ.Instrs {
				st, ok := in.(*ssa.Store)
				if !ok {
					continue
				}
				ta, ok := st.Addr.(*ssa.FieldAddr)
				if !ok || structOf(ta.X.Type()) != nx || ta.Field != small.Field {
					continue
				}
				if va, vn, ok := c01FieldLoad(st.Val); ok && vn == nx && va.Field == big.Field {
					k := nx.Obj().Name() + "." + fieldName(ta.X.Type(), ta.Field)
					if !seen[k] {
						seen[k] = true
						out = append(out, c01Mark{nx.Obj().Name(), ta.Field, big.Field, k, nx.Obj().Name() + "." + fieldName(ta.X.Type(), big.Field), f})
					}
				}
			}
		}
	}
	p.marks = &out
	return out
}

// c01MarkOf: the mark a field address stands for.
func c01MarkOf(p *Prog, fa *ssa.FieldAddr) *c01Mark {
	n := structOf(fa.X.Type())
	if n == nil {
		return nil
	}
	for i, m := range c01HighWaterMarks(p) {
		if m.T == n.Obj().Name() && m.idx == fa.Field {
			return &c01HighWaterMarks(p)[i]
		}
	}
	return nil
}

// c01IsLift: the instruction raises a high-water mark by a positive constant — inline, or by calling a small function
// that does so first thing (entry block), possibly through one thin wrapper.
func c01IsLift(p *Prog, in ssa.Instruction, depth int) bool {
	switch x := in.(type) {
	case *ssa.Store:
		fa, ok := x.Addr.(*ssa.FieldAddr)
		if !ok || c01MarkOf(p, fa) == nil {
			return false
		}
		add, ok := x.Val.(*ssa.BinOp)
		if !ok || add.Op != token.ADD {
			return false
		}
		k, isK := constInt(add.Y)
		la, _, isL := c01FieldLoad(add.X)
		return isK && k >= 1 && isL && la.Field == fa.Field && structOf(la.X.Type()) == structOf(fa.X.Type())
	case *ssa.Call:
		g := x.Common().StaticCallee()
		if g == nil || g.Blocks == nil || !p.InPkg(g) || depth > 2 {
			return false
		}
		for _, gi := range g.Blocks[0].Instrs {
			if _, isCall := gi.(*ssa.Call); isCall && depth >= 2 {
				continue
			}
			if c01IsLift(p, gi, depth+1) {
				return true
			}
		}
	}
	return false
}

func ruleC01Height(p *Prog, a *Anchors, r *Report) {
	r.Begin("R-C01-HEIGHT", "the nesting bound covers the height of the tree the expression parser builds: a node that takes an operand parsed BEFORE its operator (the first operand of a binary node) raises a high-water mark of the nesting counter by one, on every path and once per round of a chain; a function that starts the mark afresh for its operand hands the higher of both marks back when it ends", 6)
	top := p.Method("Parser", "ParseExpression")
	if top == nil || a.IEvaluator == nil {
		r.Unk("anchor", "-", "anchor unresolved: (*Parser).ParseExpression / IEvaluator")
		return
	}
	fromTop := p.Reach(p.CG, []*ssa.Function{top}, nil)
	inCycle := map[*ssa.Function]bool{}
	var fns []*ssa.Function
	for _, f := range p.inPkgFuncsSorted(fromTop) {
		if f.Parent() != nil || errorResultIndex(f) < 0 {
			continue
		}
		if p.Reach(p.CG, []*ssa.Function{f}, nil)[top] {
			fns = append(fns, f)
			inCycle[f] = true
		}
	}
	isExprT := func(T types.Type) bool {
		it, ok := T.Underlying().(*types.Interface)
		return ok && types.Identical(it, a.IEvaluator)
	}
	returnsExpr := func(f *ssa.Function) bool {
		res := f.Signature.Results()
		return res.Len() > 0 && isExprT(res.At(0).Type())
	}
	marks := c01HighWaterMarks(p)

	// the nodes a parse call's result becomes an operand of: allocations whose expression-typed field is stored with it
	var sources func(v ssa.Value, seen map[ssa.Value]bool)
	sources = func(v ssa.Value, seen map[ssa.Value]bool) {
		if v == nil || seen[v] {
			return
		}
		seen[v] = true
		switch x := v.(type) {
		case *ssa.Phi:
			for _, e := range x.Edges {
				sources(e, seen)
			}
		case *ssa.MakeInterface:
			sources(x.X, seen)
		case *ssa.ChangeInterface:
			sources(x.X, seen)
		case *ssa.UnOp:
			if sv := stripLoad(x); sv != ssa.Value(x) {
				sources(sv, seen)
			} else if al, ok := x.X.(*ssa.Alloc); ok && x.Op == token.MUL {
				for _, sv := range allStoresTo(al) {
					sources(sv, seen)
				}
			}
		}
	}
	type operandOf struct {
		call  *ssa.Call
		nodes map[ssa.Value]bool // allocation roots
	}
	n := 0
	for _, f := range fns {
		var ops []operandOf
		for _, b := range f.Blocks {
			for _, in := range b.Instrs {
				c, ok := in.(*ssa.Call)
				if !ok || c.Common().StaticCallee() == nil || !inCycle[c.Common().StaticCallee()] || !returnsExpr(c.Common().StaticCallee()) {
					continue
				}
				ops = append(ops, operandOf{c, map[ssa.Value]bool{}})
			}
		}
		if len(ops) < 2 {
			continue
		}
		for _, b := range f.Blocks {
			for _, in := range b.Instrs {
				st, ok := in.(*ssa.Store)
				if !ok {
					continue
				}
				fa, ok := st.Addr.(*ssa.FieldAddr)
				if !ok || !isExprT(st.Val.Type()) {
					continue
				}
				src := map[ssa.Value]bool{}
				sources(st.Val, src)
				roots := map[ssa.Value]bool{}
				sources(fa.X, roots)
				for i := range ops {
					for v := range src {
						if ex, ok := v.(*ssa.Extract); ok && ex.Tuple == ssa.Value(ops[i].call) && ex.Index == 0 {
							for rt := range roots {
								// (a node of the expression tree: it is evaluated, its frame lies above its operands;
								// a tag's node is counted as a level of the tags when the tag is parsed)
								if al, isAlloc := rt.(*ssa.Alloc); isAlloc && types.Implements(al.Type(), a.IEvaluator) {
									ops[i].nodes[rt] = true
								}
							}
						}
					}
				}
			}
		}
		k := 0
		for _, second := range ops {
			// the first operands of the node(s) this operand goes into: parsed before it
			var first *ssa.Call
			for _, cand := range ops {
				if cand.call == second.call || !Dominates(cand.call, second.call) {
					continue
				}
				shared := false
				for nd := range cand.nodes {
					if second.nodes[nd] {
						shared = true
					}
				}
				if shared {
					first = cand.call
				}
			}
			if first == nil {
				continue
			}
			n++
			k++
			key := p.FuncName(f) + ":node-over-first-operand " + second.call.Common().StaticCallee().Name()
			if k > 1 {
				key += "#" + itoa(int64(k))
			}
			if len(marks) == 0 {
				r.Bad(key, p.InstrPos(second.call), "%s puts a node on top of an operand it parsed before the operator (%s at %s) and nothing records the height of the tree: the nesting counter went down again behind that operand, so whatever is nested inside it is not charged for the node above it — a chain of k operators behind a bracket costs k evaluation frames that no bound sees (`((a)+0+0…)+0+0…`: tens of thousands of frames within the nesting bound), and a recursive macro around such an expression exhausts the stack, which ends the process", p.FuncName(f), first.Common().StaticCallee().Name(), p.InstrPos(first))
				continue
			}
			loop := innermostLoopHeader(second.call.Block())
			var lift ssa.Instruction
			for _, b := range f.Blocks {
				for _, in := range b.Instrs {
					if !c01IsLift(p, in, 0) || !Dominates(first, in) {
						continue
					}
					if !Dominates(in, second.call) && !Dominates(second.call, in) {
						continue
					}
					if loop != nil && innermostLoopHeader(in.Block()) != loop {
						continue
					}
					lift = in
				}
			}
			if lift != nil {
				r.OK(key, p.InstrPos(second.call), "the high-water mark is raised (%s) for the node that takes the operand parsed at %s", p.InstrPos(lift), p.InstrPos(first))
			} else {
				r.Bad(key, p.InstrPos(second.call), "%s puts a node on top of an operand it parsed before the operator (%s at %s) without raising the high-water mark of the nesting on every path (and in every round of the chain): the height of the tree is not bounded by the nesting bound any more — a chain of operators behind a nested first operand costs evaluation frames that no bound sees, and a recursive macro around such an expression exhausts the stack, which ends the process", p.FuncName(f), first.Common().StaticCallee().Name(), p.InstrPos(first))
			}
		}
	}
	if n == 0 {
		r.Unk("none", "-", "no binary node with an operand parsed before its operator found in the expression parser")
		return
	}
	// the marks themselves: refused beyond the bound, and a restart hands the old mark back
	for _, m := range marks {
		refused := false
		for _, f := range p.inPkgFuncsSorted(p.allFuncSet()) {
			for _, b := range f.Blocks {
				if len(b.Instrs) == 0 {
					continue
				}
				iff, ok := b.Instrs[len(b.Instrs)-1].(*ssa.If)
				if !ok {
					continue
				}
				c, pol := normCond(iff.Cond, true)
				bo, ok := c.(*ssa.BinOp)
				if !ok || (bo.Op != token.GTR && bo.Op != token.GEQ) {
					continue
				}
				if _, isK := constInt(bo.Y); !isK {
					continue
				}
				idx := 0
				if !pol {
					idx = 1
				}
				if !errorReturnsOnly(f, b.Succs[idx]) {
					continue
				}
				var has func(v ssa.Value) bool
				has = func(v ssa.Value) bool {
					if fa, nn, ok := c01FieldLoad(v); ok && nn.Obj().Name() == m.T && fa.Field == m.idx {
						return true
					}
					if add, ok := v.(*ssa.BinOp); ok && add.Op == token.ADD {
						return has(add.X) || has(add.Y)
					}
					return false
				}
				if has(bo.X) {
					refused = true
				}
			}
		}
		if refused {
			r.OK(m.name+":refused-beyond-bound", "-", "%s (high-water mark of %s, kept in %s) is compared with a constant bound, beyond which an error is returned", m.name, m.of, p.FuncName(m.in))
		} else {
			r.Bad(m.name+":refused-beyond-bound", "-", "%s records how high the nesting rose (high-water mark of %s) but no comparison with a constant refuses a tree that is too high", m.name, m.of)
		}
		// restarts: a store of the tracked counter into the mark outside the max-update
		for _, f := range p.inPkgFuncsSorted(p.allFuncSet()) {
			for _, b := range f.Blocks {
				for _, in := range b.Instrs {
					st, ok := in.(*ssa.Store)
					if !ok {
						continue
					}
					fa, ok := st.Addr.(*ssa.FieldAddr)
					if !ok || c01MarkOf(p, fa) == nil || c01MarkOf(p, fa).name != m.name {
						continue
					}
					va, vn, ok := c01FieldLoad(st.Val)
					if !ok || vn.Obj().Name() != m.T || va.Field != m.ofIdx {
						continue
					}
					if c01MaxGuarded(b, m) {
						continue // the max-update itself
					}
					key := p.FuncName(topLevel(f)) + ":restart-hands-back " + m.name
					restore, how := c01RestoresMark(p, topLevel(f), m)
					switch {
					case restore == nil:
						r.Bad(key, p.InstrPos(in), "%s starts %s afresh at the counter and never hands the earlier mark back (no `if saved > %s { %s = saved }` with a value saved before): the height of what was parsed before this operand is forgotten, so a chain that follows a high first operand is not refused — the tree is higher than the nesting bound and a recursive macro around it exhausts the stack", p.FuncName(topLevel(f)), m.name, m.name, m.name)
					case how == "!":
						r.Bad(key, p.InstrPos(in), "%s starts %s afresh and returns the function that hands the earlier mark back (%s), but a caller neither defers nor calls it: the height of what was parsed before is forgotten there", p.FuncName(topLevel(f)), m.name, p.InstrPos(restore))
					case how == "":
						r.Assume(key, p.InstrPos(in), "the earlier mark is restored at %s, in a shape that is not related to the exits of the function (assumed to run on every exit)", p.InstrPos(restore))
					default:
						r.OK(key, p.InstrPos(in), "the earlier mark is handed back (max) at %s, %s", p.InstrPos(restore), how)
					}
				}
			}
		}
	}
}

// c01MaxGuarded: block b is the "greater" successor of a comparison of the mark with its tracked counter.
func c01MaxGuarded(b *ssa.BasicBlock, m c01Mark) bool {
	for _, pr := range b.Preds {
		if len(pr.Instrs) == 0 {
			continue
		}
		iff, ok := pr.Instrs[len(pr.Instrs)-1].(*ssa.If)
		if !ok {
			continue
		}
		c, _ := normCond(iff.Cond, true)
		bo, ok := c.(*ssa.BinOp)
		if !ok {
			continue
		}
		fx, _, okx := c01FieldLoad(bo.X)
		fy, _, oky := c01FieldLoad(bo.Y)
		if okx && oky && ((fx.Field == m.idx && fy.Field == m.ofIdx) || (fx.Field == m.ofIdx && fy.Field == m.idx)) {
			return true
		}
	}
	return false
}

// c01RestoresMark: g (or a closure it makes) stores into the mark a value that was loaded from the mark and kept in a
// local, under a comparison of that value with the mark. how: "deferred here", "in the function it returns, which every
// caller defers or calls", "" (shape not related).
func c01RestoresMark(p *Prog, g *ssa.Function, m c01Mark) (ssa.Instruction, string) {
	var fnsOf func(f *ssa.Function) []*ssa.Function
	fnsOf = func(f *ssa.Function) []*ssa.Function {
		out := []*ssa.Function{f}
		for _, af := range f.AnonFuncs {
			out = append(out, fnsOf(af)...)
		}
		return out
	}
	savedMark := func(v ssa.Value) bool {
		src := map[ssa.Value]bool{}
		var walk func(v ssa.Value, d int)
		walk = func(v ssa.Value, d int) {
			if v == nil || src[v] || d > 6 {
				return
			}
			src[v] = true
			if u, ok := v.(*ssa.UnOp); ok && u.Op == token.MUL {
				switch ad := u.X.(type) {
				case *ssa.Alloc:
					for _, sv := range allStoresTo(ad) {
						walk(sv, d+1)
					}
				case *ssa.FreeVar:
					for _, sv := range freeVarStores(ad) {
						walk(sv, d+1)
					}
				}
			}
			if ph, ok := v.(*ssa.Phi); ok {
				for _, e := range ph.Edges {
					walk(e, d+1)
				}
			}
		}
		walk(v, 0)
		for s := range src {
			if fa, nn, ok := c01FieldLoad(s); ok && nn.Obj().Name() == m.T && fa.Field == m.idx {
				return true
			}
		}
		return false
	}
	// g returns the mark it found (`outer := p.begin(); defer p.end(outer)`): every caller hands that value to a
	// function that raises the mark to its parameter, deferred or called
	returnsMark := len(returnsOf(g)) > 0
	for _, ret := range returnsOf(g) {
		found := false
		for _, rv := range ret.Results {
			if fa, nn, ok := c01FieldLoad(rv); ok && nn.Obj().Name() == m.T && fa.Field == m.idx {
				found = true
			}
		}
		if !found {
			returnsMark = false
		}
	}
	if returnsMark {
		callers, all := 0, true
		var where ssa.Instruction
		if node := p.CG.Nodes[g]; node != nil {
			for _, e := range node.In {
				if e.Site == nil || e.Site.Value() == nil {
					continue
				}
				callers++
				v := e.Site.Value()
				used := false
				var visit func(v ssa.Value, d int)
				visit = func(v ssa.Value, d int) {
					if v.Referrers() == nil || d > 3 {
						return
					}
					for _, ref := range *v.Referrers() {
						var cc *ssa.CallCommon
						switch x := ref.(type) {
						case *ssa.Defer:
							cc = &x.Call
						case *ssa.Call:
							cc = x.Common()
						case *ssa.Extract:
							visit(x, d+1)
						}
						if cc == nil || cc.StaticCallee() == nil {
							continue
						}
						if i := c01MaxesMarkFromParam(p, cc.StaticCallee(), m); i >= 0 {
							args := cc.Args
							if i < len(args) && args[i] == v {
								used = true
								where = ref
							}
						}
					}
				}
				visit(v, 0)
				if !used {
					all = false
				}
			}
		}
		if callers > 0 && all {
			return where, "by the function each of the " + itoa(int64(callers)) + " callers of " + p.FuncName(g) + " hands the returned mark to (deferred or called)"
		}
		if callers > 0 && where != nil {
			return where, "!"
		}
	}
	for _, f := range fnsOf(g) {
		for _, b := range f.Blocks {
			for _, in := range b.Instrs {
				st, ok := in.(*ssa.Store)
				if !ok {
					continue
				}
				fa, ok := st.Addr.(*ssa.FieldAddr)
				if !ok || c01MarkOf(p, fa) == nil || c01MarkOf(p, fa).name != m.name {
					continue
				}
				if _, _, isField := c01FieldLoad(st.Val); isField || !savedMark(st.Val) {
					continue
				}
				// guarded by a comparison of the saved value with the mark
				guarded := false
				for _, pr := range b.Preds {
					if len(pr.Instrs) == 0 {
						continue
					}
					if iff, ok := pr.Instrs[len(pr.Instrs)-1].(*ssa.If); ok {
						c, _ := normCond(iff.Cond, true)
						if bo, ok := c.(*ssa.BinOp); ok {
							_, _, lx := c01FieldLoad(bo.X)
							_, _, ly := c01FieldLoad(bo.Y)
							if (lx && savedMark(bo.Y)) || (ly && savedMark(bo.X)) {
								guarded = true
							}
						}
					}
				}
				if !guarded {
					continue
				}
				if f == g {
					return in, ""
				}
				// f is a closure of g: deferred in g, or returned by g and deferred/called by every caller
				for _, gb := range g.Blocks {
					for _, gi := range gb.Instrs {
						if d, ok := gi.(*ssa.Defer); ok {
							if mc, ok := d.Call.Value.(*ssa.MakeClosure); ok && mc.Fn == ssa.Value(f) {
								return in, "deferred in " + p.FuncName(g)
							}
						}
					}
				}
				returned := false
				for _, ret := range returnsOf(g) {
					for _, rv := range ret.Results {
						if mc, ok := rv.(*ssa.MakeClosure); ok && mc.Fn == ssa.Value(f) {
							returned = true
						}
					}
				}
				if !returned {
					return in, ""
				}
				callers, all := 0, true
				if node := p.CG.Nodes[g]; node != nil {
					for _, e := range node.In {
						if e.Site == nil {
							continue
						}
						callers++
						v := e.Site.Value()
						used := false
						if v != nil && v.Referrers() != nil {
							for _, ref := range *v.Referrers() {
								switch x := ref.(type) {
								case *ssa.Defer:
									if x.Call.Value == ssa.Value(v) {
										used = true
									}
								case *ssa.Call:
									// called on every path from here to every exit of the caller
									if x.Common().Value == ssa.Value(v) {
										site := e.Site.(ssa.Instruction)
										isEnd := func(in ssa.Instruction) bool {
											cc, ok := in.(*ssa.Call)
											return ok && cc.Common().Value == ssa.Value(v)
										}
										allExits := true
										for _, ret := range returnsOf(site.Parent()) {
											if !ReachableBlocks(site.Block())[ret.Block()] && ret.Block() != site.Block() {
												continue
											}
											if !MustPassFrom(site.Block(), instrIndex(site)+1, ret, isEnd) {
												allExits = false
											}
										}
										if allExits {
											used = true
										}
									}
								case *ssa.Store:
									// kept in a local that a deferred closure of the caller calls
									// (`end := p.chain(); defer func() { end(); … }()`)
									if cell, isCell := x.Addr.(*ssa.Alloc); isCell && x.Val == ssa.Value(v) && c01CalledByDeferredClosure(cell) {
										used = true
									}
								}
							}
						}
						if !used {
							all = false
						}
					}
				}
				if callers > 0 && all {
					return in, "in the function " + p.FuncName(g) + " returns, which each of its " + itoa(int64(callers)) + " callers defers or calls"
				}
				if callers > 0 {
					return in, "!"
				}
				return in, ""
			}
		}
	}
	return nil, ""
}

// c01RaisesOnly: the store st (in block b) into mark m stands on the edge of a comparison `val > mark` (or
// `mark < val`) of the stored value with the mark: it can only raise the mark.
func c01RaisesOnly(b *ssa.BasicBlock, st *ssa.Store, m c01Mark) bool {
	isMark := func(v ssa.Value) bool {
		fa, nn, ok := c01FieldLoad(v)
		return ok && nn.Obj().Name() == m.T && fa.Field == m.idx
	}
	sameVal := func(v ssa.Value) bool {
		if v == st.Val {
			return true
		}
		a, b := cellOf(v), cellOf(st.Val)
		return a != "" && a == b
	}
	for _, pr := range b.Preds {
		if len(pr.Instrs) == 0 || len(pr.Succs) != 2 {
			continue
		}
		iff, ok := pr.Instrs[len(pr.Instrs)-1].(*ssa.If)
		if !ok {
			continue
		}
		c, pol := normCond(iff.Cond, true)
		bo, ok := c.(*ssa.BinOp)
		if !ok {
			continue
		}
		onTrue := pr.Succs[0] == b
		if !pol {
			onTrue = !onTrue
		}
		switch {
		case (bo.Op == token.GTR || bo.Op == token.GEQ) && sameVal(bo.X) && isMark(bo.Y) && onTrue:
			return true
		case (bo.Op == token.LSS || bo.Op == token.LEQ) && isMark(bo.X) && sameVal(bo.Y) && onTrue:
			return true
		case (bo.Op == token.LEQ || bo.Op == token.LSS) && sameVal(bo.X) && isMark(bo.Y) && !onTrue:
			return true
		case (bo.Op == token.GEQ || bo.Op == token.GTR) && isMark(bo.X) && sameVal(bo.Y) && !onTrue:
			return true
		}
	}
	return false
}

// c01MaxesMarkFromParam: h raises mark m to one of its parameters (`if saved > p.mark { p.mark = saved }`): its index.
func c01MaxesMarkFromParam(p *Prog, h *ssa.Function, m c01Mark) int {
	if h == nil || h.Blocks == nil || !p.InPkg(h) {
		return -1
	}
	for _, b := range h.Blocks {
		for _, in := range b.Instrs {
			st, ok := in.(*ssa.Store)
			if !ok {
				continue
			}
			fa, ok := st.Addr.(*ssa.FieldAddr)
			if !ok || c01MarkOf(p, fa) == nil || c01MarkOf(p, fa).name != m.name {
				continue
			}
			pa, ok := unspillParam(st.Val).(*ssa.Parameter)
			if !ok {
				pa, ok = st.Val.(*ssa.Parameter)
			}
			if !ok || !c01RaisesOnly(b, st, m) {
				continue
			}
			for i, hp := range h.Params {
				if hp == pa {
					return i
				}
			}
		}
	}
	return -1
}

// c01CalledByDeferredClosure: the function value kept in cell is called (entry block) by a closure that the cell's
// function defers.
func c01CalledByDeferredClosure(cell *ssa.Alloc) bool {
	f := cell.Parent()
	for _, b := range f.Blocks {
		for _, in := range b.Instrs {
			d, ok := in.(*ssa.Defer)
			if !ok {
				continue
			}
			mc, ok := d.Call.Value.(*ssa.MakeClosure)
			if !ok {
				continue
			}
			cf := mc.Fn.(*ssa.Function)
			for i, bind := range mc.Bindings {
				if bind != ssa.Value(cell) || i >= len(cf.FreeVars) {
					continue
				}
				fv := cf.FreeVars[i]
				for _, ci := range cf.Blocks[0].Instrs {
					if c, ok := ci.(*ssa.Call); ok {
						if u, ok := c.Common().Value.(*ssa.UnOp); ok && u.X == ssa.Value(fv) {
							return true
						}
					}
				}
			}
		}
	}
	return false
}
