package main

// effects.go: judging effects in context. An effect whose roots include a parameter of a helper that is
// only ever called statically is judged at its callers (summaries substitute the arguments); anything
// else is judged where it stands.

import (
	"fmt"
	"sort"
	"strings"

	"golang.org/x/tools/go/ssa"
)

type EffCtx struct {
	Fn    *ssa.Function // function in which the effect was judged
	Roots []Root
	Via   string
}

type JudgedEffect struct {
	E        Effect // original effect (origin function/instruction)
	Contexts []EffCtx
}

func (p *Prog) staticOnly(f *ssa.Function, entries map[*ssa.Function]bool) bool {
	if (entries != nil && entries[f]) || f.Parent() != nil {
		return false
	}
	n := p.CG.Nodes[f]
	if n == nil || len(n.In) == 0 {
		return false
	}
	for _, e := range n.In {
		if e.Site == nil || e.Site.Common().StaticCallee() != f {
			return false
		}
		// called from a synthetic wrapper (the bound-method wrapper of a method value, n.once.Do(n.trim)): the real
		// call site is wherever the method value ends up — not a static call we can judge arguments at
		if e.Caller.Func != nil && strings.HasPrefix(e.Caller.Func.Synthetic, "bound method wrapper") {
			return false
		}
		if _, isGo := e.Site.(*ssa.Go); isGo {
			return false
		}
		if _, isDefer := e.Site.(*ssa.Defer); isDefer {
			// deferred static calls are still static calls with known arguments
		}
	}
	return true
}

func origin(e Effect) (*ssa.Function, ssa.Instruction) {
	if e.OrigInstr != nil {
		return e.OrigFn, e.OrigInstr
	}
	return e.Fn, e.Instr
}

// JudgeEffects aggregates, per original store-like instruction, the contexts (within `reach`) in which
// its roots are final.
func (p *Prog) JudgeEffects(reach map[*ssa.Function]bool, entries map[*ssa.Function]bool) []*JudgedEffect {
	byOrigin := map[ssa.Instruction]*JudgedEffect{}
	var order []*JudgedEffect
	for _, f := range p.inPkgFuncsSorted(reach) {
		so := p.staticOnly(f, entries)
		for _, e := range p.Effects(f) {
			var rs []Root
			for _, r := range e.Roots {
				if r.Kind == RParam && r.Fn == f && so {
					continue // judged at the callers of f
				}
				rs = append(rs, r)
			}
			if len(rs) == 0 && len(e.Roots) > 0 {
				continue
			}
			_, oi := origin(e)
			je := byOrigin[oi]
			if je == nil {
				oe := e
				oe.Fn, oe.Instr = origin(e)
				je = &JudgedEffect{E: oe}
				byOrigin[oi] = je
				order = append(order, je)
			}
			je.Contexts = append(je.Contexts, EffCtx{Fn: f, Roots: rs, Via: e.Via})
		}
	}
	sort.SliceStable(order, func(i, j int) bool {
		a, b := order[i].E, order[j].E
		if an, bn := p.FuncName(a.Fn), p.FuncName(b.Fn); an != bn {
			return an < bn
		}
		return a.Instr.Pos() < b.Instr.Pos()
	})
	return order
}

// key of an effect: function + kind + target, no positions.
func (p *Prog) effectKey(e Effect) string {
	t := e.Target.Type + "." + e.Target.Field
	if e.Target.Type == "" && e.Target.Field == "" {
		t = "?"
	}
	return fmt.Sprintf("%s:%s:%s", p.FuncName(e.Fn), e.Kind, t)
}

// nonFresh returns the roots that are not freshly allocated, over all contexts.
func (je *JudgedEffect) nonFresh() (out []Root, where string) {
	for _, c := range je.Contexts {
		for _, r := range c.Roots {
			if r.Kind != RFresh && r.Kind != RNil {
				out = append(out, r)
				if where == "" {
					where = c.Fn.Name()
					if c.Via != "" {
						where += " via " + c.Via
					}
				}
			}
		}
	}
	return dedupRootsCap(out, 0), where
}
