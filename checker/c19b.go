package main

// R-C19-UNWRAP: "v|f1|f2 is f2(f1(v))" — the chain belongs to the node it was parsed into. Parser code that takes the
// inner evaluator out of a filtered-variable node (a short cut "for faster evaluation") drops the node's filter chain
// unless it first made sure that the chain is empty.

import (
	"go/token"
	"go/types"

	"golang.org/x/tools/go/ssa"
)

func ruleC19Unwrap(p *Prog, a *Anchors, r *Report) {
	r.Begin("R-C19-UNWRAP", "the evaluator inside a node that carries a filter chain is taken out of that node (outside the node's own methods) only where the chain was shown to be empty: no short cut drops a written filter", 1)
	// the node type: an IEvaluator implementer with an IEvaluator-typed field and a slice-of-struct-pointer field
	var node *types.Named
	innerIdx, chainIdx := -1, -1
	for _, n := range a.EvalTypes {
		st, ok := n.Underlying().(*types.Struct)
		if !ok {
			continue
		}
		in, ch := -1, -1
		for i := 0; i < st.NumFields(); i++ {
			ft := st.Field(i).Type()
			if it, isI := ft.Underlying().(*types.Interface); isI && types.Identical(it, a.IEvaluator) {
				in = i
			}
			if sl, isS := ft.Underlying().(*types.Slice); isS {
				if pt, isP := sl.Elem().(*types.Pointer); isP {
					if sn, isN := pt.Elem().(*types.Named); isN {
						if _, isSt := sn.Underlying().(*types.Struct); isSt && sn.Obj().Pkg() == n.Obj().Pkg() {
							ch = i
						}
					}
				}
			}
		}
		if in >= 0 && ch >= 0 {
			node, innerIdx, chainIdx = n, in, ch
		}
	}
	if node == nil {
		r.Unk("anchor", "-", "no evaluator node with an inner evaluator and a filter chain found")
		return
	}
	n := 0
	for _, f := range p.inPkgFuncsSorted(p.allFuncSet()) {
		if recv := topLevel(f).Signature.Recv(); recv != nil && structOf(recv.Type()) == node {
			continue
		}
		for _, b := range f.Blocks {
			for _, in := range b.Instrs {
				u, ok := in.(*ssa.UnOp)
				if !ok || u.Op != token.MUL {
					continue
				}
				fa, ok := u.X.(*ssa.FieldAddr)
				if !ok || structOf(fa.X.Type()) != node || fa.Field != innerIdx {
					continue
				}
				n++
				key := p.FuncName(f) + ":takes " + node.Obj().Name() + "." + fieldName(fa.X.Type(), innerIdx)
				empty := Guarded(in, func(cond ssa.Value, pol bool) bool {
					bo, ok := cond.(*ssa.BinOp)
					if !ok {
						return false
					}
					c, ok := bo.X.(*ssa.Call)
					if !ok {
						return false
					}
					bi, ok := c.Common().Value.(*ssa.Builtin)
					if !ok || bi.Name() != "len" {
						return false
					}
					lu, ok := c.Common().Args[0].(*ssa.UnOp)
					if !ok {
						return false
					}
					lfa, ok := lu.X.(*ssa.FieldAddr)
					if !ok || lfa.Field != chainIdx || p.VN(lfa.X) != p.VN(fa.X) {
						return false
					}
					k, isK := constInt(bo.Y)
					if !isK || k != 0 {
						return false
					}
					switch bo.Op {
					case token.EQL:
						return pol
					case token.NEQ, token.GTR:
						return !pol
					}
					return false
				})
				if empty {
					r.OK(key, p.InstrPos(in), "taken out only when the node's chain is empty")
				} else {
					r.Bad(key, p.InstrPos(in), "%s takes the evaluator out of a %s without having looked at its %s: filters written on it (x[0|add:1], m[\"a\"|upper]) are dropped without an error", p.FuncName(f), node.Obj().Name(), fieldName(fa.X.Type(), chainIdx))
				}
			}
		}
	}
	if n == 0 {
		r.Trivial("none", "-", "no function outside %s's methods reads its inner evaluator", node.Obj().Name())
	}
}
