package main

// R-C19-UNWRAP: "v|f1|f2 is f2(f1(v))" — the chain belongs to the node it was parsed into. Parser code that takes the
// inner evaluator out of a filtered-variable node (a short cut "for faster evaluation") drops the node's filter chain
// unless it first made sure that the chain is empty.

import (
	"go/token"
	"go/types"

	"golang.org/x/tools/go/ssa"
)

func ruleC19Unwrap(p *Prog, a *Anchors, r *Report) {
	r.Begin("R-C19-UNWRAP", "the evaluator inside a node that carries a filter chain is taken out of that node (outside the node's own methods) only where the chain was shown to be empty: no short cut drops a written filter", 0)
	// the node type: an IEvaluator implementer with an IEvaluator-typed field and a slice-of-struct-pointer field
	var node *types.Named
	innerIdx, chainIdx := -1, -1
	for _, n := range a.EvalTypes {
		st, ok := n.Underlying().(*types.Struct)
		if !ok {
			continue
		}
		in, ch := -1, -1
		for i := 0; i < st.NumFields(); i++ {
			ft := st.Field(i).Type()
			if it, isI := ft.Underlying().(*types.Interface); isI && types.Identical(it, a.IEvaluator) {
				in = i
			}
			if sl, isS := ft.Underlying().(*types.Slice); isS {
				if pt, isP := sl.Elem().(*types.Pointer); isP {
					if sn, isN := pt.Elem().(*types.Named); isN {
						if _, isSt := sn.Underlying().(*types.Struct); isSt && sn.Obj().Pkg() == n.Obj().Pkg() {
							ch = i
						}
					}
				}
			}
		}
		if in >= 0 && ch >= 0 {
			node, innerIdx, chainIdx = n, in, ch
		}
	}
	if node == nil {
		r.Unk("anchor", "-", "no evaluator node with an inner evaluator and a filter chain found")
		return
	}
	n := 0
	for _, f := range p.inPkgFuncsSorted(p.allFuncSet()) {
		if recv := topLevel(f).Signature.Recv(); recv != nil && structOf(recv.Type()) == node {
			continue
		}
		for _, b := range f.Blocks {
			for _, in := range b.Instrs {
				u, ok := in.(*ssa.UnOp)
				if !ok || u.Op != token.MUL {
					continue
				}
				fa, ok := u.X.(*ssa.FieldAddr)
				if !ok || structOf(fa.X.Type()) != node || fa.Field != innerIdx {
					continue
				}
				n++
				key := p.FuncName(f) + ":takes " + node.Obj().Name() + "." + fieldName(fa.X.Type(), innerIdx)
				empty := Guarded(in, func(cond ssa.Value, pol bool) bool {
					bo, ok := cond.(*ssa.BinOp)
					if !ok {
						return false
					}
					c, ok := bo.X.(*ssa.Call)
					if !ok {
						return false
					}
					bi, ok := c.Common().Value.(*ssa.Builtin)
					if !ok || bi.Name() != "len" {
						return false
					}
					lu, ok := c.Common().Args[0].(*ssa.UnOp)
					if !ok {
						return false
					}
					lfa, ok := lu.X.(*ssa.FieldAddr)
					if !ok || lfa.Field != chainIdx || p.VN(lfa.X) != p.VN(fa.X) {
						return false
					}
					k, isK := constInt(bo.Y)
					if !isK || k != 0 {
						return false
					}
					switch bo.Op {
					case token.EQL:
						return pol
					case token.NEQ, token.GTR:
						return !pol
					}
					return false
				})
				if empty {
					r.OK(key, p.InstrPos(in), "taken out only when the node's chain is empty")
				} else {
					r.Bad(key, p.InstrPos(in), "%s takes the evaluator out of a %s without having looked at its %s: filters written on it (x[0|add:1], m[\"a\"|upper]) are dropped without an error", p.FuncName(f), node.Obj().Name(), fieldName(fa.X.Type(), chainIdx))
				}
			}
		}
	}
	if n == 0 {
		r.Trivial("none", "-", "no function outside %s's methods reads its inner evaluator", node.Obj().Name())
	}
}

// R-C19-ENDARGS: "a tag or filter name that is not registered never renders silently" (and C06: text after a tag is
// copied). The parser helpers that look for an end tag consume what stands between the end tag's name and its `%}`.
// Those tokens are either kept — appended to the argument list the helper hands back, so that the tag's parser
// refuses or parses them — or the helper refuses them itself. A loop that consumes them unseen lets
// `{% endcomment x|nosuchfilter %}` compile, and with a tag left at the wrong closer (`{% endcomment }}`) it eats
// text, variables and whole tags up to the next `%}`.
func ruleC19EndArgs(p *Prog, a *Anchors, r *Report) {
	r.Begin("R-C19-ENDARGS", "a parser loop that consumes tokens up to a tag's `%}` keeps every token it consumes (appends it to the arguments it returns): no token of a tag is dropped unseen", 2)
	consume := map[*ssa.Function]bool{}
	for _, n := range []string{"Consume", "ConsumeN"} {
		if f := p.Method("Parser", n); f != nil {
			consume[f] = true
		}
	}
	if len(consume) == 0 {
		r.Unk("anchor", "-", "anchor unresolved: (*Parser).Consume")
		return
	}
	closesTag := func(in ssa.Instruction) bool {
		c, ok := in.(*ssa.Call)
		if !ok || c.Common().StaticCallee() == nil || !p.InPkg(c.Common().StaticCallee()) {
			return false
		}
		for _, arg := range c.Common().Args {
			if s, isC := constString(arg); isC && s == "%}" {
				return true
			}
		}
		return false
	}
	n := 0
	for _, f := range p.inPkgFuncsSorted(p.allFuncSet()) {
		if f.Signature.Recv() == nil || structOf(f.Signature.Recv().Type()) == nil || structOf(f.Signature.Recv().Type()).Obj().Name() != "Parser" {
			continue
		}
		k := 0
		for _, b := range f.Blocks {
			for _, in := range b.Instrs {
				c, ok := in.(*ssa.Call)
				if !ok || !consume[c.Common().StaticCallee()] {
					continue
				}
				hdr := innermostLoopHeader(b)
				if hdr == nil {
					continue
				}
				// the loop's blocks
				var loop []*ssa.BasicBlock
				for _, lb := range f.Blocks {
					if hdr.Dominates(lb) && ReachableBlocks(lb)[hdr] {
						loop = append(loop, lb)
					}
				}
				closes, keeps := false, false
				for _, lb := range loop {
					for _, li := range lb.Instrs {
						if closesTag(li) {
							closes = true
						}
						if ci, ok := li.(ssa.CallInstruction); ok {
							if bi, ok := ci.Common().Value.(*ssa.Builtin); ok && bi.Name() == "append" {
								if sl, ok := ci.Common().Args[0].Type().Underlying().(*types.Slice); ok {
									if pt, ok := sl.Elem().(*types.Pointer); ok {
										if tn, ok := pt.Elem().(*types.Named); ok && tn.Obj().Name() == "Token" {
											keeps = true
										}
									}
								}
							}
						}
					}
				}
				if !closes {
					continue // not a loop over the tokens of one tag
				}
				k++
				n++
				key := p.FuncName(f) + ":consumes-to-tag-end"
				if k > 1 {
					key += "#" + itoa(int64(k))
				}
				if keeps {
					r.OK(key, p.InstrPos(in), "the tokens consumed up to `%%}` are appended to the arguments handed back")
				} else {
					r.Bad(key, p.InstrPos(in), "%s consumes the tokens between a tag's name and its `%%}` without keeping or refusing them: an unregistered filter or any other text in an end tag compiles silently ({%% endcomment x|nosuchfilter %%}), and a tag left at the wrong closer ({%% endcomment }}) swallows the text and tags that follow up to the next `%%}`", p.FuncName(f))
				}
			}
		}
	}
	if n == 0 {
		r.Unk("none", "-", "no parser loop consuming the tokens of a tag found")
	}
}
