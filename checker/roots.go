package main

// roots.go: engine E — effects (stores, map updates, deletes, appends, copies) and the origin ("roots")
// of the memory they write. A root is where a pointer/slice/map value ultimately comes from:
// freshly allocated in this call tree, a parameter, a package-level variable, or unknown; plus the
// chain of (struct type, field) pairs it was loaded through ("owners").

import (
	"fmt"
	"go/token"
	"go/types"
	"sort"
	"strings"

	"golang.org/x/tools/go/ssa"
)

type RootKind int

const (
	RFresh RootKind = iota
	RParam
	RGlobal
	RUnknown
	RNil
)

func (k RootKind) String() string {
	return [...]string{"fresh", "param", "global", "unknown", "nil"}[k]
}

type Owner struct {
	Type  string // named struct type ("" if none)
	Field string
}

type Root struct {
	Kind   RootKind
	Fn     *ssa.Function // RParam: the function
	Idx    int           // RParam: parameter index (receiver = 0)
	Name   string        // RGlobal: variable; RUnknown: why; RFresh: allocation description
	Typ    types.Type    // type of the origin value
	Path   string        // access path from origin, e.g. ".tokens*[i]*.Val"
	Owners []Owner       // struct fields traversed by loads (memory reached *through* these fields)
}

func (r Root) String() string {
	s := r.Kind.String()
	switch r.Kind {
	case RParam:
		s = fmt.Sprintf("param#%d(%s)", r.Idx, typeName(r.Typ))
	case RGlobal:
		s = "global " + r.Name
	case RUnknown:
		s = "unknown(" + r.Name + ")"
	case RFresh:
		s = "fresh(" + r.Name + ")"
	}
	return s + r.Path
}

func (r Root) ext(step string, ow *Owner) Root {
	n := r
	n.Path = r.Path + step
	if len(n.Path) > 80 {
		n.Path = n.Path[:30] + "…" + n.Path[len(n.Path)-40:]
	}
	if ow != nil {
		n.Owners = append(append([]Owner{}, r.Owners...), *ow)
		if len(n.Owners) > 8 {
			n.Owners = n.Owners[len(n.Owners)-8:]
		}
	}
	return n
}

func (r Root) key() string {
	return fmt.Sprintf("%d|%p|%d|%s|%s|%v", r.Kind, r.Fn, r.Idx, r.Name, r.Path, r.Owners)
}

func dedupRoots(rs []Root) []Root { return dedupRootsCap(rs, 24) }

func dedupRootsCap(rs []Root, max int) []Root {
	seen := map[string]bool{}
	var out []Root
	for _, r := range rs {
		k := r.key()
		if !seen[k] {
			seen[k] = true
			out = append(out, r)
		}
	}
	if max > 0 && len(out) > max {
		out = append(out[:max], Root{Kind: RUnknown, Name: "too many roots"})
	}
	return out
}

type rootKey struct {
	v ssa.Value
}

// indexCells records, for every local cell (Alloc), the values stored directly into it, following
// closures (FreeVars bound by MakeClosure), and for fresh objects the values stored into their fields.
func (p *Prog) indexCells() {
	p.cellStores = map[*ssa.Alloc][]ssa.Value{}
	p.freeVarBind = map[*ssa.FreeVar][]ssa.Value{}
	p.EachInstr(func(f *ssa.Function, in ssa.Instruction) {
		if mc, ok := in.(*ssa.MakeClosure); ok {
			fn := mc.Fn.(*ssa.Function)
			for i, b := range mc.Bindings {
				if i < len(fn.FreeVars) {
					p.freeVarBind[fn.FreeVars[i]] = append(p.freeVarBind[fn.FreeVars[i]], b)
				}
			}
		}
	})
	p.EachInstr(func(f *ssa.Function, in ssa.Instruction) {
		st, ok := in.(*ssa.Store)
		if !ok {
			return
		}
		for _, a := range p.cellsOf(st.Addr, 0) {
			p.cellStores[a] = append(p.cellStores[a], st.Val)
		}
	})
}

// cellsOf resolves an address to the local cells (Allocs) it denotes directly (through FreeVars).
func (p *Prog) cellsOf(addr ssa.Value, depth int) []*ssa.Alloc {
	if depth > 5 {
		return nil
	}
	switch a := addr.(type) {
	case *ssa.Alloc:
		return []*ssa.Alloc{a}
	case *ssa.FreeVar:
		var out []*ssa.Alloc
		for _, b := range p.freeVarBind[a] {
			out = append(out, p.cellsOf(b, depth+1)...)
		}
		return out
	}
	return nil
}

// Roots computes the origins of the memory a pointer-like value refers to.
func (p *Prog) Roots(v ssa.Value) []Root {
	return dedupRoots(p.roots(v, map[ssa.Value]bool{}, 0))
}

const maxRootDepth = 40

func (p *Prog) roots(v ssa.Value, visiting map[ssa.Value]bool, depth int) []Root {
	if v == nil {
		return nil
	}
	if depth > maxRootDepth {
		return []Root{{Kind: RUnknown, Name: "depth", Typ: v.Type()}}
	}
	if visiting[v] {
		return nil
	}
	visiting[v] = true
	defer delete(visiting, v)
	rec := func(x ssa.Value) []Root { return p.roots(x, visiting, depth+1) }

	switch v := v.(type) {
	case *ssa.Const:
		return []Root{{Kind: RNil, Typ: v.Type()}}
	case *ssa.Alloc:
		return []Root{{Kind: RFresh, Name: "alloc " + typeName(v.Type()), Typ: v.Type()}}
	case *ssa.MakeMap, *ssa.MakeSlice, *ssa.MakeChan:
		return []Root{{Kind: RFresh, Name: "make " + typeName(v.Type()), Typ: v.Type()}}
	case *ssa.MakeClosure:
		return []Root{{Kind: RFresh, Name: "closure", Typ: v.Type()}}
	case *ssa.Function:
		return []Root{{Kind: RNil, Typ: v.Type()}}
	case *ssa.Parameter:
		idx := -1
		for i, pa := range v.Parent().Params {
			if pa == v {
				idx = i
			}
		}
		return []Root{{Kind: RParam, Fn: v.Parent(), Idx: idx, Typ: v.Type()}}
	case *ssa.FreeVar:
		// the free variable is the address of a cell of the enclosing function
		var out []Root
		for _, b := range p.freeVarBind[v] {
			out = append(out, rec(b)...)
		}
		if len(out) == 0 {
			out = []Root{{Kind: RUnknown, Name: "unbound freevar " + v.Name(), Typ: v.Type()}}
		}
		return out
	case *ssa.Global:
		return []Root{{Kind: RGlobal, Name: v.Name(), Typ: v.Type()}}
	case *ssa.FieldAddr:
		var out []Root
		for _, r := range rec(v.X) {
			out = append(out, r.ext("."+fieldName(v.X.Type(), v.Field), nil))
		}
		return out
	case *ssa.IndexAddr:
		var out []Root
		for _, r := range rec(v.X) {
			out = append(out, r.ext("[i]", nil))
		}
		return out
	case *ssa.Field: // struct value field: pointer stored in a struct value
		var out []Root
		n := structOf(v.X.Type())
		ow := &Owner{Field: fieldName(v.X.Type(), v.Field)}
		if n != nil {
			ow.Type = n.Obj().Name()
		}
		for _, r := range rec(v.X) {
			out = append(out, r.ext("."+ow.Field, ow))
		}
		return out
	case *ssa.Index:
		var out []Root
		for _, r := range rec(v.X) {
			out = append(out, r.ext("[i]", nil))
		}
		return out
	case *ssa.UnOp:
		if v.Op != token.MUL {
			return []Root{{Kind: RNil, Typ: v.Type()}}
		}
		return p.loadRoots(v, visiting, depth)
	case *ssa.Phi:
		var out []Root
		for _, e := range v.Edges {
			out = append(out, rec(e)...)
		}
		return out
	case *ssa.ChangeType:
		return rec(v.X)
	case *ssa.Convert:
		if isPointerLike(v.X.Type()) {
			return rec(v.X)
		}
		return []Root{{Kind: RFresh, Name: "convert", Typ: v.Type()}}
	case *ssa.ChangeInterface:
		return rec(v.X)
	case *ssa.MakeInterface:
		if !isPointerLike(v.X.Type()) && !hasPointers(v.X.Type()) {
			return []Root{{Kind: RFresh, Name: "boxed " + typeName(v.X.Type()), Typ: v.Type()}}
		}
		return rec(v.X)
	case *ssa.TypeAssert:
		return rec(v.X)
	case *ssa.Slice:
		return rec(v.X)
	case *ssa.SliceToArrayPointer:
		return rec(v.X)
	case *ssa.Extract:
		if c, ok := v.Tuple.(*ssa.Call); ok {
			return p.callRoots(c, v.Index, visiting, depth)
		}
		if la, ok := v.Tuple.(*ssa.Lookup); ok {
			if v.Index == 0 {
				return rec(la)
			}
			return []Root{{Kind: RNil}}
		}
		if ta, ok := v.Tuple.(*ssa.TypeAssert); ok {
			if v.Index == 0 {
				return rec(ta.X)
			}
			return []Root{{Kind: RNil}}
		}
		if nx, ok := v.Tuple.(*ssa.Next); ok {
			// range over map/string: key/value loaded from the ranged collection
			if rg, ok := nx.Iter.(*ssa.Range); ok {
				var out []Root
				for _, r := range rec(rg.X) {
					out = append(out, r.ext("[range]*", ownerOfLoadedFrom(rg.X)))
				}
				return out
			}
		}
		return []Root{{Kind: RUnknown, Name: "extract", Typ: v.Type()}}
	case *ssa.Lookup:
		var out []Root
		for _, r := range rec(v.X) {
			out = append(out, r.ext("[k]*", ownerOfLoadedFrom(v.X)))
		}
		return out
	case *ssa.Call:
		return p.callRoots(v, 0, visiting, depth)
	case *ssa.BinOp:
		return []Root{{Kind: RFresh, Name: "binop", Typ: v.Type()}} // string concatenation etc.
	}
	return []Root{{Kind: RUnknown, Name: fmt.Sprintf("%T", v), Typ: v.Type()}}
}

// ownerOfLoadedFrom: if container value c was itself loaded from a struct field, memory reached through
// its elements is owned by that field.
func ownerOfLoadedFrom(c ssa.Value) *Owner {
	if _, n, f := fieldLoadBase(c); f != "" {
		ow := &Owner{Field: f}
		if n != nil {
			ow.Type = n.Obj().Name()
		}
		return ow
	}
	return nil
}

// loadRoots: the pointer value stored at address v.X.
func (p *Prog) loadRoots(v *ssa.UnOp, visiting map[ssa.Value]bool, depth int) []Root {
	rec := func(x ssa.Value) []Root { return p.roots(x, visiting, depth+1) }
	// (1) local cell (possibly captured): union of the values stored to it
	if cells := p.cellsOf(v.X, 0); len(cells) > 0 {
		var out []Root
		for _, c := range cells {
			stores := p.cellStores[c]
			for _, s := range stores {
				out = append(out, rec(s)...)
			}
			if len(stores) == 0 {
				out = append(out, Root{Kind: RNil})
			}
			// a cell whose address escapes to a call may be written elsewhere
			if p.cellEscapes(c) {
				out = append(out, Root{Kind: RUnknown, Name: "cell " + c.Name() + " escapes", Typ: v.Type()})
			}
		}
		return out
	}
	// (2) field of an object allocated in this function: union of the values stored to that field here
	if fa, ok := v.X.(*ssa.FieldAddr); ok {
		if objs := p.directAllocs(fa.X, 0); len(objs) > 0 {
			var out []Root
			found := false
			for _, in := range p.fieldStores(objs, fa.Field) {
				found = true
				out = append(out, rec(in)...)
			}
			if !found {
				out = append(out, Root{Kind: RNil})
			}
			return out
		}
		n := structOf(fa.X.Type())
		ow := &Owner{Field: fieldName(fa.X.Type(), fa.Field)}
		if n != nil {
			ow.Type = n.Obj().Name()
		}
		var out []Root
		for _, r := range rec(fa.X) {
			out = append(out, r.ext("."+ow.Field+"*", ow))
		}
		return out
	}
	if ia, ok := v.X.(*ssa.IndexAddr); ok {
		var out []Root
		for _, r := range rec(ia.X) {
			out = append(out, r.ext("[i]*", ownerOfLoadedFrom(ia.X)))
		}
		return out
	}
	if g, ok := v.X.(*ssa.Global); ok {
		return []Root{{Kind: RGlobal, Name: g.Name(), Typ: v.Type(), Path: "*"}}
	}
	var out []Root
	for _, r := range rec(v.X) {
		out = append(out, r.ext("*", nil))
	}
	return out
}

// cellEscapes: the address of the cell is passed to a call or stored somewhere (other than closure capture).
func (p *Prog) cellEscapes(c *ssa.Alloc) bool {
	for _, in := range refs(c) {
		switch in := in.(type) {
		case *ssa.Store:
			if in.Val == c {
				return true
			}
		case *ssa.UnOp, *ssa.MakeClosure, *ssa.FieldAddr, *ssa.IndexAddr:
		case ssa.CallInstruction:
			return true
		case *ssa.MakeInterface, *ssa.Phi, *ssa.Return:
			return true
		}
	}
	return false
}

// directAllocs: x denotes (only) objects allocated by Alloc instructions in this function (e.g. &T{...}).
func (p *Prog) directAllocs(x ssa.Value, depth int) []*ssa.Alloc {
	if depth > 6 {
		return nil
	}
	switch x := x.(type) {
	case *ssa.Alloc:
		if x.Heap || true {
			return []*ssa.Alloc{x}
		}
	case *ssa.Phi:
		var out []*ssa.Alloc
		for _, e := range x.Edges {
			a := p.directAllocs(e, depth+1)
			if a == nil {
				return nil
			}
			out = append(out, a...)
		}
		return out
	case *ssa.UnOp:
		if x.Op == token.MUL {
			cells := p.cellsOf(x.X, 0)
			if len(cells) == 0 {
				return nil
			}
			var out []*ssa.Alloc
			for _, c := range cells {
				if len(p.cellStores[c]) == 0 || p.cellEscapes(c) {
					return nil
				}
				for _, s := range p.cellStores[c] {
					a := p.directAllocs(s, depth+1)
					if a == nil {
						return nil
					}
					out = append(out, a...)
				}
			}
			return out
		}
	}
	return nil
}

// fieldStores: values stored to field `field` of any of the given allocations (anywhere in the package
// where the base is syntactically that allocation, possibly through a cell).
func (p *Prog) fieldStores(objs []*ssa.Alloc, field int) []ssa.Value {
	set := map[*ssa.Alloc]bool{}
	for _, o := range objs {
		set[o] = true
	}
	var out []ssa.Value
	seenFn := map[*ssa.Function]bool{}
	var scan func(f *ssa.Function)
	scan = func(f *ssa.Function) {
		if seenFn[f] {
			return
		}
		seenFn[f] = true
		for _, b := range f.Blocks {
			for _, in := range b.Instrs {
				st, ok := in.(*ssa.Store)
				if !ok {
					continue
				}
				fa, ok := st.Addr.(*ssa.FieldAddr)
				if !ok || fa.Field != field {
					continue
				}
				for _, a := range p.directAllocs(fa.X, 0) {
					if set[a] {
						out = append(out, st.Val)
						break
					}
				}
			}
		}
		for _, a := range f.AnonFuncs {
			scan(a)
		}
	}
	for _, o := range objs {
		f := o.Parent()
		for f.Parent() != nil {
			f = f.Parent()
		}
		scan(f)
	}
	return out
}

func isPointerLike(T types.Type) bool {
	switch T.Underlying().(type) {
	case *types.Pointer, *types.Slice, *types.Map, *types.Chan, *types.Interface, *types.Signature:
		return true
	}
	return false
}

func hasPointers(T types.Type) bool {
	switch u := T.Underlying().(type) {
	case *types.Basic:
		return u.Kind() == types.UnsafePointer
	case *types.Struct:
		for i := 0; i < u.NumFields(); i++ {
			if hasPointers(u.Field(i).Type()) {
				return true
			}
		}
		return false
	case *types.Array:
		return hasPointers(u.Elem())
	}
	return true
}

// callRoots: roots of result #idx of a call.
func (p *Prog) callRoots(c *ssa.Call, idx int, visiting map[ssa.Value]bool, depth int) []Root {
	cc := c.Common()
	rec := func(x ssa.Value) []Root { return p.roots(x, visiting, depth+1) }
	if b, ok := cc.Value.(*ssa.Builtin); ok {
		switch b.Name() {
		case "append":
			out := rec(cc.Args[0])
			out = append(out, Root{Kind: RFresh, Name: "append", Typ: c.Type()})
			return out
		case "min", "max", "len", "cap":
			return []Root{{Kind: RNil}}
		}
		return []Root{{Kind: RFresh, Name: "builtin " + b.Name()}}
	}
	var callees []*ssa.Function
	if f := cc.StaticCallee(); f != nil {
		callees = []*ssa.Function{f}
	} else if p.CG != nil {
		callees = p.Callees(p.CG, c)
		if len(callees) > 6 {
			// too many targets to substitute each summary (registry dispatch: filters, tag parsers); keep what
			// matters most for ownership: a target that hands out a package-level object
			out := []Root{{Kind: RUnknown, Name: "dynamic call " + p.calleeName(cc), Typ: c.Type()}}
			seenG := map[string]bool{}
			for _, f := range callees {
				if !p.InPkg(f) || f.Blocks == nil {
					continue
				}
				sum := p.summary(f)
				if idx >= len(sum.Returns) {
					continue
				}
				for _, r := range sum.Returns[idx] {
					if r.Kind == RGlobal && !seenG[r.Name] {
						seenG[r.Name] = true
						out = append(out, r)
					}
				}
			}
			return out
		}
	}
	if len(callees) == 0 {
		return []Root{{Kind: RUnknown, Name: "dynamic call " + p.calleeName(cc), Typ: c.Type()}}
	}
	args := callArgs(cc)
	var out []Root
	for _, f := range callees {
		if !p.InPkg(f) || f.Blocks == nil {
			out = append(out, p.extCallRoots(f, c, args, rec)...)
			continue
		}
		sum := p.summary(f)
		if idx >= len(sum.Returns) {
			out = append(out, Root{Kind: RUnknown, Name: "result index", Typ: c.Type()})
			continue
		}
		for _, r := range sum.Returns[idx] {
			out = append(out, p.substitute(r, f, args, rec)...)
		}
	}
	return out
}

// substitute maps a callee-relative root to the caller's view.
func (p *Prog) substitute(r Root, callee *ssa.Function, args []ssa.Value, rec func(ssa.Value) []Root) []Root {
	if r.Kind != RParam || r.Fn != callee {
		return []Root{r}
	}
	// closures: FreeVars are not parameters; parameters index into args
	if r.Idx < 0 || r.Idx >= len(args) {
		return []Root{{Kind: RUnknown, Name: "param index", Typ: r.Typ}}
	}
	var out []Root
	for _, c := range rec(args[r.Idx]) {
		n := c
		n.Path = c.Path + r.Path
		n.Owners = append(append([]Owner{}, c.Owners...), r.Owners...)
		out = append(out, n)
	}
	return out
}

// extCallRoots: result of a function outside the package.
func (p *Prog) extCallRoots(f *ssa.Function, c *ssa.Call, args []ssa.Value, rec func(ssa.Value) []Root) []Root {
	name := p.extName(f)
	if !isPointerLike(c.Type()) && !hasPointers(c.Type()) {
		return []Root{{Kind: RNil}}
	}
	// results that are (or may alias) an argument
	out := []Root{{Kind: RFresh, Name: "result of " + name, Typ: c.Type()}}
	if name == "(*sync.Pool).Get" {
		// pooled objects are exclusively owned between Get and Put; their discipline (reset, no aliasing after Put)
		// is decided by the pool rule
		return []Root{{Kind: RFresh, Name: "pooled object", Typ: c.Type()}}
	}
	if freshResult[name] {
		return out
	}
	for _, a := range args {
		if isPointerLike(a.Type()) || hasPointers(a.Type()) {
			for _, r := range rec(a) {
				if r.Kind == RNil || r.Kind == RFresh {
					continue
				}
				out = append(out, r.ext("→"+f.Name()+"()", nil))
			}
		}
	}
	return out
}

// library functions whose result never aliases memory reachable from their arguments
var freshResult = map[string]bool{
	"bytes.NewBuffer": false, "bytes.NewBufferString": true, "fmt.Sprintf": true, "fmt.Errorf": true, "errors.New": true,
	"strings.Split": true, "strings.Fields": true, "strings.Join": true, "strings.Replace": true, "strings.ToUpper": true,
	"strings.ToLower": true, "strings.TrimSpace": true, "strings.Title": true, "strings.Repeat": true,
	"(*bytes.Buffer).String": true, "(*bytes.Buffer).Bytes": false, "regexp.MustCompile": true, "regexp.Compile": true,
	"(*regexp.Regexp).ReplaceAllString": true, "(*regexp.Regexp).ReplaceAllStringFunc": true,
	"reflect.TypeOf": true, "(reflect.Value).Type": true, "(reflect.Value).MapKeys": true,
	"io.ReadAll": true, "os.ReadFile": true, "strconv.Itoa": true, "strconv.FormatInt": true,
	"time.Now": true, "(time.Time).Format": true, "net/url.QueryEscape": true,
}

// ---------------------------------------------------------------------
// function summaries

type Effect struct {
	Fn     *ssa.Function
	Instr  ssa.Instruction
	Kind   string // store, mapupdate, delete, append, copy, extwrite, global
	Target Owner  // immediate container: struct type+field written, or the field a map/slice was loaded from
	Desc   string
	Roots  []Root
	Via    string // non-empty if inherited from a callee: call chain

	Atomic bool // written through sync/atomic (a mutation, but not a data race)

	OrigFn    *ssa.Function // set on inherited effects: where the store really is
	OrigInstr ssa.Instruction
}

type fnSummary struct {
	Returns [][]Root // per result index
	Effects []Effect // direct effects and effects inherited from callees (param-rooted ones substituted)
	busy    bool
}

func (p *Prog) summary(f *ssa.Function) *fnSummary {
	if s, ok := p.summaryMemo[f]; ok {
		return s // may be in progress (empty): recursion contributes nothing new
	}
	s := &fnSummary{busy: true}
	p.summaryMemo[f] = s
	nres := f.Signature.Results().Len()
	s.Returns = make([][]Root, nres)
	for _, b := range f.Blocks {
		for _, in := range b.Instrs {
			switch in := in.(type) {
			case *ssa.Return:
				for i, r := range in.Results {
					if i < nres && (isPointerLike(r.Type()) || hasPointers(r.Type())) {
						s.Returns[i] = append(s.Returns[i], p.Roots(r)...)
					}
				}
			}
		}
	}
	for i := range s.Returns {
		s.Returns[i] = dedupRoots(s.Returns[i])
	}
	s.Effects = p.directEffects(f)
	inheritedSeen := map[string]bool{}
	// inherited effects
	for _, b := range f.Blocks {
		for _, in := range b.Instrs {
			ci, ok := in.(ssa.CallInstruction)
			if !ok {
				continue
			}
			cc := ci.Common()
			var callees []*ssa.Function
			if sc := cc.StaticCallee(); sc != nil {
				callees = []*ssa.Function{sc}
			} else {
				continue // dynamic callees are judged in their own right (see Effects doc)
			}
			args := callArgs(cc)
			for _, callee := range callees {
				if !p.InPkg(callee) || callee.Blocks == nil || callee == f {
					continue
				}
				cs := p.summary(callee)
				for _, e := range cs.Effects {
					paramRooted := false
					for _, r := range e.Roots {
						if r.Kind == RParam && r.Fn == callee {
							paramRooted = true
						}
					}
					if !paramRooted {
						continue // judged in the callee itself
					}
					ne := e
					ne.OrigFn, ne.OrigInstr = origin(e)
					ne.Fn = f
					ne.Instr = in
					ne.Via = p.FuncName(callee)
					if e.Via != "" {
						ne.Via += " → " + e.Via
					}
					if strings.Count(ne.Via, "→") > 6 {
						continue
					}
					ne.Roots = nil
					for _, r := range e.Roots {
						ne.Roots = append(ne.Roots, p.substitute(r, callee, args, func(x ssa.Value) []Root { return p.Roots(x) })...)
					}
					ne.Roots = dedupRoots(ne.Roots)
					dk := fmt.Sprintf("%p", ne.OrigInstr)
					for _, r := range ne.Roots {
						dk += "|" + r.key()
					}
					if inheritedSeen[dk] {
						continue
					}
					inheritedSeen[dk] = true
					s.Effects = append(s.Effects, ne)
				}
			}
		}
	}
	s.busy = false
	return s
}

// library calls that write through an argument (index) — receiver is index 0 for methods
var extWrites = map[string][]int{
	"sort.Sort": {0}, "sort.Stable": {0}, "sort.Slice": {0}, "sort.SliceStable": {0}, "sort.Strings": {0}, "sort.Ints": {0},
	"math/rand.Shuffle":              nil,
	"(*bytes.Buffer).WriteString":    {0},
	"(*bytes.Buffer).Write":          {0},
	"(*bytes.Buffer).WriteRune":      {0},
	"(*bytes.Buffer).WriteByte":      {0},
	"(*bytes.Buffer).WriteTo":        {0},
	"(*bytes.Buffer).Reset":          {0},
	"(*bytes.Buffer).Truncate":       {0},
	"(*bytes.Buffer).ReadFrom":       {0},
	"(*strings.Builder).WriteString": {0},
	"(*sync.Map).Store":              {0}, "(*sync.Map).LoadOrStore": {0}, "(*sync.Map).Delete": {0}, "(*sync.Map).LoadAndDelete": {0},
	"(*sync.Map).Swap": {0}, "(*sync.Map).CompareAndSwap": {0}, "(*sync.Map).CompareAndDelete": {0},
	"(*sync.Mutex).Lock": nil, "(*sync.Mutex).Unlock": nil, "(*sync.RWMutex).Lock": nil, "(*sync.RWMutex).Unlock": nil,
	"(*sync.RWMutex).RLock": nil, "(*sync.RWMutex).RUnlock": nil,
}

// isAtomicWrite: sync/atomic functions and methods that write through their first argument / receiver.
func isAtomicWrite(name string) bool {
	if !strings.Contains(name, "sync/atomic.") {
		return false
	}
	for _, w := range []string{"Add", "Store", "Swap", "CompareAndSwap", "And", "Or"} {
		if strings.Contains(name, "atomic."+w) || strings.Contains(name, ")."+w) {
			return true
		}
	}
	return false
}

// directEffects lists the store-like instructions of f with their targets and roots.
func (p *Prog) directEffects(f *ssa.Function) []Effect {
	var out []Effect
	for _, b := range f.Blocks {
		for _, in := range b.Instrs {
			switch in := in.(type) {
			case *ssa.Store:
				if len(p.cellsOf(in.Addr, 0)) > 0 {
					continue // local variable (possibly captured by a closure of the same activation)
				}
				e := Effect{Fn: f, Instr: in, Kind: "store"}
				switch a := in.Addr.(type) {
				case *ssa.FieldAddr:
					n := structOf(a.X.Type())
					e.Target = Owner{Field: fieldName(a.X.Type(), a.Field)}
					if n != nil {
						e.Target.Type = n.Obj().Name()
					}
					e.Roots = p.Roots(a.X)
					e.Desc = "store to " + e.Target.Type + "." + e.Target.Field
				case *ssa.IndexAddr:
					if ow := ownerOfLoadedFrom(a.X); ow != nil {
						e.Target = *ow
					}
					e.Roots = p.Roots(a.X)
					e.Desc = "store to element of " + typeName(a.X.Type())
					if e.Target.Field != "" {
						e.Desc += " loaded from " + e.Target.Type + "." + e.Target.Field
					}
				case *ssa.Global:
					e.Kind = "global"
					e.Target = Owner{Type: "<global>", Field: a.Name()}
					e.Roots = []Root{{Kind: RGlobal, Name: a.Name(), Typ: a.Type()}}
					e.Desc = "store to package variable " + a.Name()
				default:
					e.Roots = p.Roots(in.Addr)
					e.Desc = "store through " + typeName(in.Addr.Type())
					e.Target = lastOwner(e.Roots)
				}
				out = append(out, e)
			case *ssa.MapUpdate:
				e := Effect{Fn: f, Instr: in, Kind: "mapupdate", Roots: p.Roots(in.Map)}
				if ow := ownerOfLoadedFrom(in.Map); ow != nil {
					e.Target = *ow
				} else if g := globalLoaded(in.Map); g != nil {
					e.Target = Owner{Type: "<global>", Field: g.Name()}
				} else {
					e.Target = lastOwner(e.Roots)
				}
				e.Desc = "map update on " + typeName(in.Map.Type())
				if e.Target.Field != "" {
					e.Desc += " loaded from " + e.Target.Type + "." + e.Target.Field
				}
				out = append(out, e)
			case ssa.CallInstruction:
				cc := in.Common()
				if b, ok := cc.Value.(*ssa.Builtin); ok {
					switch b.Name() {
					case "delete", "copy", "clear":
						e := Effect{Fn: f, Instr: in, Kind: b.Name(), Roots: p.Roots(cc.Args[0])}
						if ow := ownerOfLoadedFrom(cc.Args[0]); ow != nil {
							e.Target = *ow
						} else if g := globalLoaded(cc.Args[0]); g != nil {
							e.Target = Owner{Type: "<global>", Field: g.Name()}
						} else {
							e.Target = lastOwner(e.Roots)
						}
						e.Desc = b.Name() + " on " + typeName(cc.Args[0].Type())
						if e.Target.Field != "" {
							e.Desc += " loaded from " + e.Target.Type + "." + e.Target.Field
						}
						out = append(out, e)
					case "append":
						// append writes into the backing array of arg0 when capacity allows
						rs := p.Roots(cc.Args[0])
						allFresh := true
						for _, r := range rs {
							if r.Kind != RFresh && r.Kind != RNil {
								allFresh = false
							}
						}
						if !allFresh {
							e := Effect{Fn: f, Instr: in, Kind: "append", Roots: rs}
							if ow := ownerOfLoadedFrom(cc.Args[0]); ow != nil {
								e.Target = *ow
							} else {
								e.Target = lastOwner(rs)
							}
							e.Desc = "append to " + typeName(cc.Args[0].Type())
							if e.Target.Field != "" {
								e.Desc += " loaded from " + e.Target.Type + "." + e.Target.Field
							}
							out = append(out, e)
						}
					}
					continue
				}
				callee := cc.StaticCallee()
				if callee == nil || p.InPkg(callee) {
					continue
				}
				name := p.extName(callee)
				idxs, ok := extWrites[name]
				atomicW := false
				if !ok && isAtomicWrite(name) {
					idxs, ok, atomicW = []int{0}, true, true
				}
				if !ok && (strings.HasPrefix(name, "(*math/rand.Rand).") || strings.HasPrefix(name, "(*math/rand/v2.Rand).")) {
					// every method of a generator advances its state; unlike the package-level functions a *rand.Rand is
					// not safe for concurrent use
					idxs, ok = []int{0}, true
				}
				if ok {
					args := callArgs(cc)
					for _, i := range idxs {
						if i < len(args) {
							e := Effect{Fn: f, Instr: in, Kind: "extwrite", Roots: p.Roots(args[i]), Atomic: atomicW}
							if ow := ownerOfLoadedFrom(stripConv(args[i])); ow != nil {
								e.Target = *ow
							} else if g, isG := args[i].(*ssa.Global); isG {
								e.Target = Owner{Type: "<global>", Field: g.Name()}
							} else if fa, isFA := args[i].(*ssa.FieldAddr); isFA && structOf(fa.X.Type()) != nil {
								e.Target = Owner{Type: structOf(fa.X.Type()).Obj().Name(), Field: fieldName(fa.X.Type(), fa.Field)}
							} else {
								e.Target = lastOwner(e.Roots)
							}
							e.Desc = name + " writes through argument " + fmt.Sprint(i)
							out = append(out, e)
						}
					}
				}
			}
		}
	}
	return out
}

func globalLoaded(v ssa.Value) *ssa.Global {
	if u, ok := v.(*ssa.UnOp); ok && u.Op == token.MUL {
		if g, ok := u.X.(*ssa.Global); ok {
			return g
		}
	}
	return nil
}

func lastOwner(rs []Root) Owner {
	for _, r := range rs {
		if len(r.Owners) > 0 {
			return r.Owners[len(r.Owners)-1]
		}
	}
	for _, r := range rs {
		if r.Kind == RParam || r.Kind == RUnknown {
			if n := structOf(r.Typ); n != nil {
				return Owner{Type: n.Obj().Name()}
			}
		}
	}
	return Owner{}
}

func rootsString(rs []Root) string {
	var s []string
	for _, r := range rs {
		if r.Kind == RNil {
			continue
		}
		s = append(s, r.String())
	}
	sort.Strings(s)
	if len(s) > 6 {
		s = append(s[:6], "…")
	}
	return strings.Join(s, " | ")
}

// allFresh: every root is freshly allocated memory (or nil).
func allFresh(rs []Root) bool {
	for _, r := range rs {
		if r.Kind != RFresh && r.Kind != RNil {
			return false
		}
	}
	return true
}

// Effects returns direct + inherited effects of f.
func (p *Prog) Effects(f *ssa.Function) []Effect { return p.summary(f).Effects }
