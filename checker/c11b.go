package main

// R-C11-CLEAN. A loader that serves an fs.FS or an http.FileSystem (interface Open) hands Open a slash-separated path;
// fs.FS implementations reject anything that is not clean ("a//b", "a/../b", a leading slash: fs.ValidPath), so such
// a name is reported missing although the file exists — and `if_exists` silently drops it. Two structural parts:
// every name such a loader's Abs returns went through a cleaning function (path/filepath Join or Clean), and the path
// its Get hands to Open is joined by one, not pasted together.

import (
	"go/types"
	"strings"

	"golang.org/x/tools/go/ssa"
)

func ruleC11Clean(p *Prog, a *Anchors, r *Report) {
	r.Begin("R-C11-CLEAN", "a loader that opens names through an fs.FS / http.FileSystem cleans every name it resolves (Abs returns the result of Join/Clean) and joins its base directory with a path function: an existing file is not reported missing because of `//`, `..` or a leading slash", 2)
	cleans := func(v ssa.Value) bool { return cleansValue(p, v, 0) }
	_ = cleans
	n := 0
	// loaders whose Get invokes Open on an interface
	for _, get := range p.inPkgFuncsSorted(p.allFuncSet()) {
		if get.Name() != "Get" || !implementsLoader(p, a, get) || get.Blocks == nil {
			continue
		}
		var open *ssa.Call
		for _, b := range get.Blocks {
			for _, in := range b.Instrs {
				if c, ok := in.(*ssa.Call); ok && c.Common().IsInvoke() && c.Common().Method.Name() == "Open" {
					open = c
				}
			}
		}
		if open == nil {
			continue
		}
		recvT := get.Signature.Recv().Type()
		tn := typeName(recvT)
		// (1) Get: what is handed to Open
		n++
		arg := open.Common().Args[0]
		key := strings.TrimPrefix(tn, "*") + ".Get:path"
		pasted := false
		var look func(v ssa.Value, depth int)
		look = func(v ssa.Value, depth int) {
			if depth > 4 {
				return
			}
			switch x := v.(type) {
			case *ssa.Phi:
				for _, e := range x.Edges {
					look(e, depth+1)
				}
			case *ssa.Call:
				if x.Common().StaticCallee() != nil {
					nm := p.extName(x.Common().StaticCallee())
					if nm == "fmt.Sprintf" || nm == "strings.Join" {
						pasted = true
					}
				}
			case *ssa.BinOp:
				if isStringType(x.Type()) {
					pasted = true
				}
			}
		}
		look(arg, 0)
		if pasted {
			r.Bad(key, p.InstrPos(open), "%s builds the path it opens by pasting strings together (Sprintf/+): a rooted name below a base directory becomes `base//name`, which an fs.FS rejects — the existing file is reported missing", p.FuncName(get))
		} else {
			r.OK(key, p.InstrPos(open), "the opened path is the resolved name, or joined with the base directory by a path function")
		}
		// (2) the sibling Abs: every returned name is cleaned
		for _, abs := range p.inPkgFuncsSorted(p.allFuncSet()) {
			if abs.Name() != "Abs" || abs.Signature.Recv() == nil || !types.Identical(abs.Signature.Recv().Type(), recvT) || abs.Blocks == nil {
				continue
			}
			k := 0
			for _, ret := range returnsOf(abs) {
				k++
				n++
				key := strings.TrimPrefix(tn, "*") + ".Abs:returns-clean"
				if k > 1 {
					key += "#" + itoa(int64(k))
				}
				if cleans(ret.Results[0]) {
					r.OK(key, p.InstrPos(ret), "the resolved name went through Join/Clean")
				} else {
					r.Bad(key, p.InstrPos(ret), "%s hands back a name as it was written (%s): `/d/../x.html` or `a//b` reaches the file system's Open uncleaned, and an fs.FS reports the existing file missing", p.FuncName(abs), p.VN(ret.Results[0]))
				}
			}
		}
	}
	if n == 0 {
		r.Unk("none", "-", "no loader opens names through an interface Open")
	}
}

// R-C11-LAZYONCE: "a rooted name renders the same whether it is written as a literal or computed at run time". A
// literal include is compiled once, with the template that names it; what the tags of the included template remember
// between executions (cycle, ifchanged) is remembered per compiled node. A computed include that loads — compiles —
// its template on every execution gives those tags fresh nodes in every pass of a loop, so the two forms render
// differently. The load in a node's Execute has to be behind a look-up in what the node keeps for the rendering.
func ruleC11LazyOnce(p *Prog, a *Anchors, r *Report) {
	r.Begin("R-C11-LAZYONCE", "a node that loads a template while it executes (a computed include) does so only when the rendering has not loaded that name for this node yet: the load stands behind a miss in a per-rendering table (node state)", 1)
	n := 0
	ctxPtr := types.NewPointer(a.ExecCtx)
	for _, f := range p.inPkgFuncsSorted(a.ExecReach()) {
		if f.Signature.Recv() == nil || paramOfType(f, ctxPtr) == nil || !strings.HasPrefix(f.Name(), "Execute") {
			continue
		}
		usesState := false
		for _, b := range f.Blocks {
			for _, in := range b.Instrs {
				if c, ok := in.(*ssa.Call); ok && c.Common().StaticCallee() != nil && c.Common().StaticCallee().Name() == "getNodeState" {
					usesState = true
				}
			}
		}
		for ld := range a.FileLoaders {
			for _, ci := range callsTo(f, ld) {
				in := ci.(ssa.Instruction)
				n++
				key := p.FuncName(f) + ":loads-once"
				miss := usesState && Guarded(in, func(cond ssa.Value, pol bool) bool {
					x, eq, isNil := condIsNilTest(cond)
					if isNil && eq == pol {
						if lk, ok := x.(*ssa.Lookup); ok {
							if _, isMap := lk.X.Type().Underlying().(*types.Map); isMap {
								return true
							}
						}
					}
					// `tpl, ok := loaded[name]`: the not-ok edge
					if ex, ok := cond.(*ssa.Extract); ok && ex.Index == 1 && !pol {
						if lk, ok := ex.Tuple.(*ssa.Lookup); ok && lk.CommaOk {
							return true
						}
					}
					return false
				})
				if miss {
					r.OK(key, p.InstrPos(in), "the template is loaded only when this rendering has not loaded it for this node before")
				} else {
					r.Bad(key, p.InstrPos(in), "%s loads (compiles) a template on every execution: the tags of the included template that remember something between executions (cycle, ifchanged) get fresh nodes in every pass of a loop, so {%% include name %%} renders differently from the same include with a literal name", p.FuncName(f))
				}
			}
		}
	}
	if n == 0 {
		r.Trivial("none", "-", "no node loads a template while it executes")
	}
}

// cleansValue: v went through a cleaning path function (Join/Clean), possibly trimmed afterwards, or is the result
// of a package helper all of whose results are.
func cleansValue(p *Prog, v ssa.Value, d int) bool {
	for ; d < 5; d++ {
		c, ok := v.(*ssa.Call)
		if !ok || c.Common().StaticCallee() == nil {
			return false
		}
		if callee := c.Common().StaticCallee(); p.InPkg(callee) && callee.Blocks != nil {
			all := len(returnsOf(callee)) > 0
			for _, ret := range returnsOf(callee) {
				if !cleansValue(p, ret.Results[0], d+1) {
					all = false
				}
			}
			return all
		}
		switch p.extName(c.Common().StaticCallee()) {
		case "path.Join", "path.Clean", "path/filepath.Join", "path/filepath.Clean":
			return true
		case "strings.TrimPrefix", "strings.TrimLeft", "path/filepath.ToSlash":
			v = c.Common().Args[0]
			continue
		}
		return false
	}
	return false
}
