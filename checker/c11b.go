package main

// R-C11-CLEAN. A loader that serves an fs.FS or an http.FileSystem (interface Open) hands Open a slash-separated path;
// fs.FS implementations reject anything that is not clean ("a//b", "a/../b", a leading slash: fs.ValidPath), so such
// a name is reported missing although the file exists — and `if_exists` silently drops it. Two structural parts:
// every name such a loader's Abs returns went through a cleaning function (path/filepath Join or Clean), and the path
// its Get hands to Open is joined by one, not pasted together.

import (
	"go/token"
	"go/types"
	"strings"

	"golang.org/x/tools/go/ssa"
)

func ruleC11Clean(p *Prog, a *Anchors, r *Report) {
	r.Begin("R-C11-CLEAN", "a loader that opens names through an fs.FS / http.FileSystem cleans every name it resolves (Abs returns the result of Join/Clean) and joins its base directory with a path function: an existing file is not reported missing because of `//`, `..` or a leading slash", 2)
	cleans := func(v ssa.Value) bool { return cleansValue(p, v, 0) }
	_ = cleans
	n := 0
	// loaders whose Get invokes Open on an interface
	for _, get := range p.inPkgFuncsSorted(p.allFuncSet()) {
		if get.Name() != "Get" || !implementsLoader(p, a, get) || get.Blocks == nil {
			continue
		}
		var open *ssa.Call
		for _, b := range get.Blocks {
			for _, in := range b.Instrs {
				if c, ok := in.(*ssa.Call); ok && c.Common().IsInvoke() && c.Common().Method.Name() == "Open" {
					open = c
				}
			}
		}
		if open == nil {
			continue
		}
		recvT := get.Signature.Recv().Type()
		tn := typeName(recvT)
		// (1) Get: what is handed to Open
		n++
		arg := open.Common().Args[0]
		key := strings.TrimPrefix(tn, "*") + ".Get:path"
		pasted := false
		var look func(v ssa.Value, depth int)
		look = func(v ssa.Value, depth int) {
			if depth > 4 {
				return
			}
			switch x := v.(type) {
			case *ssa.Phi:
				for _, e := range x.Edges {
					look(e, depth+1)
				}
			case *ssa.Call:
				if x.Common().StaticCallee() != nil {
					nm := p.extName(x.Common().StaticCallee())
					if nm == "fmt.Sprintf" || nm == "strings.Join" {
						pasted = true
					}
				}
			case *ssa.BinOp:
				if isStringType(x.Type()) {
					pasted = true
				}
			}
		}
		look(arg, 0)
		if pasted {
			r.Bad(key, p.InstrPos(open), "%s builds the path it opens by pasting strings together (Sprintf/+): a rooted name below a base directory becomes `base//name`, which an fs.FS rejects — the existing file is reported missing", p.FuncName(get))
		} else {
			r.OK(key, p.InstrPos(open), "the opened path is the resolved name, or joined with the base directory by a path function")
		}
		// (1b) a base directory joined in front of the name: the name cannot climb out of it. path.Join(base, "../x")
		// is "x" — the `..` eats the base directory —, so what is joined is the name cleaned as a ROOTED path
		// (path.Clean("/" + name): no `..` survives at the front of a rooted path)
		for _, b := range get.Blocks {
			for _, in := range b.Instrs {
				jc, ok := in.(*ssa.Call)
				if !ok || jc.Common().StaticCallee() == nil {
					continue
				}
				if nm := p.extName(jc.Common().StaticCallee()); nm != "path.Join" && nm != "path/filepath.Join" {
					continue
				}
				parts := varargValues(jc.Common().Args[0])
				if len(parts) < 2 {
					continue
				}
				if _, n2, fld := fieldLoadBase(stripLoad(parts[0])); n2 == nil || fld == "" {
					continue // not a field of the loader in front
				}
				n++
				key := strings.TrimPrefix(tn, "*") + ".Get:stays-below-base"
				clamped := true
				for _, part := range parts[1:] {
					if !c11RootedClean(p, stripLoad(part), 0) {
						clamped = false
					}
				}
				if clamped {
					r.OK(key, p.InstrPos(in), "what is joined behind the base directory was cleaned as a rooted path: it cannot climb out")
				} else {
					r.Bad(key, p.InstrPos(in), "%s joins its base directory with a name that can start with `..` (%s): path.Join(base, \"../secret.html\") is \"secret.html\" — a template below the base directory reads files outside it ({%% include \"../secret.html\" %%}), which the same name written rooted, and every other loader, refuse", p.FuncName(get), p.VN(parts[len(parts)-1]))
				}
			}
		}
		// (2) the sibling Abs: every returned name is cleaned
		for _, abs := range p.inPkgFuncsSorted(p.allFuncSet()) {
			if abs.Name() != "Abs" || abs.Signature.Recv() == nil || !types.Identical(abs.Signature.Recv().Type(), recvT) || abs.Blocks == nil {
				continue
			}
			k := 0
			for _, ret := range returnsOf(abs) {
				k++
				n++
				key := strings.TrimPrefix(tn, "*") + ".Abs:returns-clean"
				if k > 1 {
					key += "#" + itoa(int64(k))
				}
				if cleans(ret.Results[0]) {
					r.OK(key, p.InstrPos(ret), "the resolved name went through Join/Clean")
				} else {
					r.Bad(key, p.InstrPos(ret), "%s hands back a name as it was written (%s): `/d/../x.html` or `a//b` reaches the file system's Open uncleaned, and an fs.FS reports the existing file missing", p.FuncName(abs), p.VN(ret.Results[0]))
				}
			}
		}
	}
	if n == 0 {
		r.Unk("none", "-", "no loader opens names through an interface Open")
	}
}

// R-C11-LAZYONCE: "a rooted name renders the same whether it is written as a literal or computed at run time". A
// literal include is compiled once, with the template that names it; what the tags of the included template remember
// between executions (cycle, ifchanged) is remembered per compiled node. A computed include that loads — compiles —
// its template on every execution gives those tags fresh nodes in every pass of a loop, so the two forms render
// differently. The load in a node's Execute has to be behind a look-up in what the node keeps for the rendering.
func ruleC11LazyOnce(p *Prog, a *Anchors, r *Report) {
	r.Begin("R-C11-LAZYONCE", "a node that loads a template while it executes (a computed include) does so only when the rendering has not loaded that name for this node yet: the load stands behind a miss in a per-rendering table (node state)", 1)
	n := 0
	ctxPtr := types.NewPointer(a.ExecCtx)
	for _, f := range p.inPkgFuncsSorted(a.ExecReach()) {
		if f.Signature.Recv() == nil || paramOfType(f, ctxPtr) == nil {
			continue
		}
		// (the node's Execute, or a method of a node that runs only at execution time: the lazy branch as a helper)
		if !strings.HasPrefix(f.Name(), "Execute") {
			isNode := false
			if rn := structOf(f.Signature.Recv().Type()); rn != nil {
				for _, nt := range a.NodeTypes {
					if nt == rn {
						isNode = true
					}
				}
			}
			if !isNode {
				continue // (it is handed an execution context: it runs while a template executes)
			}
		}
		usesState := false
		for _, b := range f.Blocks {
			for _, in := range b.Instrs {
				if c, ok := in.(*ssa.Call); ok && c.Common().StaticCallee() != nil && c11ReadsNodeState(c.Common().StaticCallee()) {
					usesState = true
				}
				if lk, ok := in.(*ssa.Lookup); ok && c11IsNodeStateMap(lk.X) {
					usesState = true
				}
			}
		}
		for ld := range a.FileLoaders {
			for _, ci := range callsTo(f, ld) {
				in := ci.(ssa.Instruction)
				n++
				key := p.FuncName(f) + ":loads-once"
				miss := usesState && Guarded(in, func(cond ssa.Value, pol bool) bool {
					x, eq, isNil := condIsNilTest(cond)
					if isNil && eq == pol {
						if lk, ok := x.(*ssa.Lookup); ok {
							if _, isMap := lk.X.Type().Underlying().(*types.Map); isMap {
								return true
							}
						}
					}
					// `tpl, ok := loaded[name]`: the not-ok edge
					if ex, ok := cond.(*ssa.Extract); ok && ex.Index == 1 && !pol {
						if lk, ok := ex.Tuple.(*ssa.Lookup); ok && lk.CommaOk {
							return true
						}
					}
					return false
				})
				// the table is the node's own (kept under the node, not under a key all tags share) and keyed by the very
				// name that is loaded: a table shared by tags of different directories and keyed by the name as written
				// hands one tag the file another one resolved
				if miss {
					name := ci.Common().Args[len(ci.Common().Args)-1]
					if len(ci.Common().Args) >= 2 {
						name = ci.Common().Args[1]
					}
					sameKey, ownTable := false, false
					for _, bb := range f.Blocks {
						for _, x := range bb.Instrs {
							if lk, isLk := x.(*ssa.Lookup); isLk && Dominates(x, in) {
								if _, isMap := lk.X.Type().Underlying().(*types.Map); isMap && (lk.Index == name || p.VN(lk.Index) == p.VN(name)) {
									sameKey = true
								}
							}
							if c, isC := x.(*ssa.Call); isC && c.Common().StaticCallee() != nil && c11ReadsNodeState(c.Common().StaticCallee()) && len(c.Common().Args) >= 2 {
								arg := c.Common().Args[1]
								if mi, isMI := arg.(*ssa.MakeInterface); isMI {
									arg = mi.X
								}
								if len(f.Params) > 0 && unspillParam(stripLoad(arg)) == ssa.Value(f.Params[0]) {
									ownTable = true
								}
							}
						}
					}
					if !sameKey || !ownTable {
						r.Bad(key+":keyed-by-loaded-name", p.InstrPos(in), "the table of loaded templates is looked up by something else than the name that is loaded (same key: %v) or is not the node's own (kept under the node: %v): include tags written in templates of different directories share entries, and a relative name resolves to the file the FIRST tag found", sameKey, ownTable)
					} else {
						r.OK(key+":keyed-by-loaded-name", p.InstrPos(in), "the node's own table, keyed by the name that is loaded")
					}
				}
				if miss {
					r.OK(key, p.InstrPos(in), "the template is loaded only when this rendering has not loaded it for this node before")
				} else {
					r.Bad(key, p.InstrPos(in), "%s loads (compiles) a template on every execution: the tags of the included template that remember something between executions (cycle, ifchanged) get fresh nodes in every pass of a loop, so {%% include name %%} renders differently from the same include with a literal name", p.FuncName(f))
				}
			}
		}
	}
	if n == 0 {
		r.Trivial("none", "-", "no node loads a template while it executes")
	}
}

// cleansValue: v went through a cleaning path function (Join/Clean), possibly trimmed afterwards, or is the result
// of a package helper all of whose results are.
func cleansValue(p *Prog, v ssa.Value, d int) bool {
	for ; d < 5; d++ {
		c, ok := v.(*ssa.Call)
		if !ok || c.Common().StaticCallee() == nil {
			return false
		}
		if callee := c.Common().StaticCallee(); p.InPkg(callee) && callee.Blocks != nil {
			all := len(returnsOf(callee)) > 0
			for _, ret := range returnsOf(callee) {
				if !cleansValue(p, ret.Results[0], d+1) {
					all = false
				}
			}
			return all
		}
		switch p.extName(c.Common().StaticCallee()) {
		case "path.Join", "path.Clean", "path/filepath.Join", "path/filepath.Clean":
			return true
		case "strings.TrimPrefix", "strings.TrimLeft", "path/filepath.ToSlash":
			v = c.Common().Args[0]
			continue
		}
		return false
	}
	return false
}

// R-C11-RENDERS: "a missing name is an error (or nothing, with if_exists)". The node of a tag that renders another
// template succeeds only by having executed a template — except where it is reached only with if_exists set. A
// success return that neither passed the execution of a template nor stands behind the if_exists test renders nothing
// for a name that was asked for without if_exists (e.g. a table entry that remembers "was missing" for another tag).
func ruleC11Renders(p *Prog, a *Anchors, r *Report) {
	r.Begin("R-C11-RENDERS", "the include node returns success only after executing a template, or where if_exists is set: nothing else may stand for a rendered template", 2)
	f := p.Method("tagIncludeNode", "Execute")
	exec := p.Method("Template", "execute")
	if f == nil || exec == nil {
		r.Unk("anchor", "-", "anchor unresolved: (*tagIncludeNode).Execute / (*Template).execute")
		return
	}
	name := p.FuncName(f)
	executes := func(in ssa.Instruction) bool {
		ci, ok := in.(ssa.CallInstruction)
		if !ok {
			return false
		}
		if _, isDefer := in.(*ssa.Defer); isDefer {
			return false
		}
		if _, isGo := in.(*ssa.Go); isGo {
			return false
		}
		var roots []*ssa.Function
		for _, c := range p.Callees(p.CG, ci) {
			if c == f {
				return false
			}
			if p.InPkg(c) {
				roots = append(roots, c)
			}
		}
		if len(roots) == 0 {
			return false
		}
		// the call executes a template on every one of its callees
		for _, c := range roots {
			if c != exec && !p.Reach(p.CG, []*ssa.Function{c}, map[*ssa.Function]bool{f: true})[exec] {
				return false
			}
		}
		// … and it is a call on a *Template or one handed a *Template/the writer: evaluating an expression (which can
		// reach a macro that includes) does not count
		cc := ci.Common()
		for _, arg := range callArgs(cc) {
			if pt, ok := arg.Type().(*types.Pointer); ok && types.Identical(pt.Elem(), a.Template) {
				return true
			}
		}
		return false
	}
	ei := errorResultIndex(f)
	n := 0
	for _, ret := range returnsOf(f) {
		if ei < 0 || !isNilConst(res(ret, ei)) {
			continue
		}
		n++
		key := name + ":success"
		if n > 1 {
			key += "#" + itoa(int64(n))
		}
		if MustPass(ret, executes) {
			r.OK(key, p.InstrPos(ret), "reached only after a template was executed")
			continue
		}
		ifEx := Guarded(ret, throughPredicates(p, func(cnd ssa.Value, pol bool, sub func(ssa.Value) ssa.Value) bool {
			return pol && loadsField(cnd, "tagIncludeNode", "ifExists")
		}))
		// … or where a helper of the package handed back "no template, no error", which it does only where if_exists is
		// set (`tpl, err := node.lazyTemplate(ctx, name); … if tpl == nil { return nil }`)
		if !ifEx {
			ifExPred := throughPredicates(p, func(cnd ssa.Value, pol bool, sub func(ssa.Value) ssa.Value) bool {
				return pol && loadsField(cnd, "tagIncludeNode", "ifExists")
			})
			ifEx = Guarded(ret, func(cnd ssa.Value, pol bool) bool {
				x, eq, isNil := condIsNilTest(cnd)
				if !isNil || eq != pol {
					return false
				}
				ex, ok := x.(*ssa.Extract)
				if !ok {
					return false
				}
				hc, ok := ex.Tuple.(*ssa.Call)
				if !ok || hc.Common().StaticCallee() == nil || !p.InPkg(hc.Common().StaticCallee()) || hc.Common().StaticCallee().Blocks == nil {
					return false
				}
				h := hc.Common().StaticCallee()
				hei := errorResultIndex(h)
				found := false
				for _, hr := range returnsOf(h) {
					if ex.Index >= len(hr.Results) || hei < 0 || !isNilConst(res(hr, ex.Index)) || !isNilConst(res(hr, hei)) {
						continue
					}
					found = true
					if !Guarded(hr, ifExPred) {
						return false
					}
				}
				return found
			})
		}
		if ifEx {
			r.OK(key, p.InstrPos(ret), "nothing is rendered only where if_exists is set")
		} else {
			r.Bad(key, p.InstrPos(ret), "the include node can succeed without having executed a template and without if_exists being set: a name that cannot be loaded renders as nothing instead of being an error")
		}
	}
	if n == 0 {
		r.Unk(name+":success", p.Pos(f.Pos()), "no success return found")
	}
}

// R-C11-TPLNAME: "relative names resolve against the referring template" and "the first loader that has a name wins".
// The names a template's own tags write are resolved with loaders[0].Abs(<the template's name>, <name written>): the
// name a loaded template is compiled under is therefore a name of the set's name space — the name it was asked for
// under (which the referring tag resolved with the first loader), or what resolveFilename makes of it — and never what
// one particular loader (the one that happened to have the file) knows it by: the first loader would then be asked for
// names that nobody wrote.
func ruleC11TplName(p *Prog, a *Anchors, r *Report) {
	r.Begin("R-C11-TPLNAME", "a template fetched from the loaders is compiled under the name it was asked for (or its resolveFilename form), never under a name a single loader produced", 1)
	resolve := p.Method("TemplateSet", "resolveFilename")
	if a.NewTemplate == nil || resolve == nil {
		r.Unk("anchor", "-", "anchor unresolved: newTemplate / resolveFilename")
		return
	}
	// the name parameter of the constructor: the string that ends up in Template.name
	nameIdx := -1
	for i, pa := range a.NewTemplate.Params {
		if b, ok := pa.Type().Underlying().(*types.Basic); ok && b.Kind() == types.String {
			for _, u := range refs(pa) {
				if st, ok := u.(*ssa.Store); ok && isFieldAddrOf(st.Addr, "Template", "name") {
					nameIdx = i
				}
			}
		}
	}
	if nameIdx < 0 {
		r.Unk("anchor", "-", "anchor unresolved: the parameter of %s stored into Template.name", p.FuncName(a.NewTemplate))
		return
	}
	n := 0
	for _, f := range p.Funcs {
		for _, ci := range callsTo(f, a.NewTemplate) {
			args := ci.Common().Args
			if nameIdx >= len(args) {
				continue
			}
			if _, isC := args[nameIdx].(*ssa.Const); isC {
				continue // a template compiled from a string has a fixed placeholder name
			}
			n++
			key := p.FuncName(f) + ":compiled-under"
			var bad []string
			seen := map[ssa.Value]bool{}
			var walk func(v ssa.Value, d int)
			walk = func(v ssa.Value, d int) {
				if v == nil || seen[v] || d > 10 {
					return
				}
				seen[v] = true
				switch x := v.(type) {
				case *ssa.Parameter, *ssa.Const:
				case *ssa.Phi:
					for _, e := range x.Edges {
						walk(e, d+1)
					}
				case *ssa.UnOp:
					if cell, ok := x.X.(*ssa.Alloc); ok {
						for _, sv := range allStoresTo(cell) {
							walk(sv, d+1)
						}
						return
					}
					bad = append(bad, p.VN(v))
				case *ssa.Call:
					if x.Common().StaticCallee() == resolve {
						return
					}
					bad = append(bad, "the result of "+p.calleeName(x.Common()))
				case *ssa.Extract:
					if c, ok := x.Tuple.(*ssa.Call); ok {
						bad = append(bad, "a result of "+p.calleeName(c.Common()))
						return
					}
					bad = append(bad, p.VN(v))
				default:
					bad = append(bad, p.VN(v))
				}
			}
			walk(args[nameIdx], 0)
			if len(bad) == 0 {
				r.OK(key, p.InstrPos(ci.(ssa.Instruction)), "the template is compiled under the name the caller asked for")
			} else {
				r.Bad(key, p.InstrPos(ci.(ssa.Instruction)), "the template is compiled under %s, not under the name it was asked for: the names its own tags write are resolved by the first loader against that name (a template served by a later loader then refers the first loader to names nobody wrote)", strings.Join(bad, ", "))
			}
		}
	}
	if n == 0 {
		r.Unk("none", "-", "no call of %s with a computed name", p.FuncName(a.NewTemplate))
	}
}

// c11IsNodeStateMap: v is loaded from a map field of ExecutionContext that is keyed by INode (what a node keeps for the
// rendering).
func c11IsNodeStateMap(v ssa.Value) bool {
	_, n, fld := fieldLoadBase(v)
	if n == nil || n.Obj().Name() != "ExecutionContext" || fld == "" {
		return false
	}
	m, ok := v.Type().Underlying().(*types.Map)
	if !ok {
		return false
	}
	k, ok := m.Key().(*types.Named)
	return ok && k.Obj().Name() == "INode"
}

// c11ReadsNodeState: g is the accessor of that map: a method of ExecutionContext that looks a node up in it.
func c11ReadsNodeState(g *ssa.Function) bool {
	if g.Blocks == nil || g.Signature.Recv() == nil {
		return false
	}
	if n := structOf(g.Signature.Recv().Type()); n == nil || n.Obj().Name() != "ExecutionContext" {
		return false
	}
	for _, b := range g.Blocks {
		for _, in := range b.Instrs {
			if lk, ok := in.(*ssa.Lookup); ok && c11IsNodeStateMap(lk.X) {
				return true
			}
		}
	}
	return false
}

// c11WritesNodeState: g is the setter of that map: a method of ExecutionContext that stores into it.
func c11WritesNodeState(g *ssa.Function) bool {
	if g.Blocks == nil || g.Signature.Recv() == nil {
		return false
	}
	if n := structOf(g.Signature.Recv().Type()); n == nil || n.Obj().Name() != "ExecutionContext" {
		return false
	}
	for _, b := range g.Blocks {
		for _, in := range b.Instrs {
			if mu, ok := in.(*ssa.MapUpdate); ok && c11IsNodeStateMap(mu.Map) {
				return true
			}
		}
	}
	return false
}

// c11RootedClean: v is path.Clean("/" + x) (or path.Join("/", x)), possibly with the leading slash trimmed afterwards:
// a cleaned rooted path has no `..` element left.
func c11RootedClean(p *Prog, v ssa.Value, d int) bool {
	if d > 4 {
		return false
	}
	c, ok := v.(*ssa.Call)
	if !ok || c.Common().StaticCallee() == nil {
		return false
	}
	switch p.extName(c.Common().StaticCallee()) {
	case "path.Clean", "path/filepath.Clean":
		if bo, isBo := c.Common().Args[0].(*ssa.BinOp); isBo && bo.Op == token.ADD {
			if s, isC := constString(bo.X); isC && strings.HasPrefix(s, "/") {
				return true
			}
		}
		return false
	case "path.Join", "path/filepath.Join":
		parts := varargValues(c.Common().Args[0])
		if len(parts) > 0 {
			if s, isC := constString(parts[0]); isC && s == "/" {
				return true
			}
		}
		return false
	case "strings.TrimPrefix", "strings.TrimLeft":
		return c11RootedClean(p, stripLoad(c.Common().Args[0]), d+1)
	}
	if callee := c.Common().StaticCallee(); p.InPkg(callee) && callee.Blocks != nil {
		rets := returnsOf(callee)
		for _, ret := range rets {
			if len(ret.Results) == 0 || !c11RootedClean(p, stripLoad(ret.Results[0]), d+1) {
				return false
			}
		}
		return len(rets) > 0
	}
	return false
}
