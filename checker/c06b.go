package main

// R-C06-TAGEXIT: "text outside delimiters passes through; what stands inside is tokenised". The lexer's tag state ends
// the tokenisation of one {{ … }} / {% … %} by returning no next state. That may happen after the closing delimiter was
// emitted, at the end of the input, or with an error — and nowhere else: a tag that is left silently at a character no
// token starts with (`?`, `;`, a no-break space) turns the rest of the tag into literal text, and the parser takes the
// tokens up to the end of the NEXT tag for this tag's arguments: text, variables and blocks vanish without an error.

import (
	"go/token"
	"go/types"

	"golang.org/x/tools/go/ssa"
)

func ruleC06TagExit(p *Prog, a *Anchors, r *Report) {
	r.Begin("R-C06-TAGEXIT", "the lexer's tag state returns no next state only behind the emission of a symbol (the closing delimiter), behind an error report, or at the end of the input: a tag is never left silently in the middle", 1)
	// the tag state: the lexer method that returns a state function and walks the symbol table
	var st *ssa.Function
	lex := p.Named("lexer")
	if lex == nil {
		r.Unk("anchor", "-", "anchor unresolved: type lexer")
		return
	}
	for _, m := range p.Methods(lex) {
		if m.Blocks == nil || m.Signature.Results().Len() != 1 {
			continue
		}
		if _, isSig := m.Signature.Results().At(0).Type().Underlying().(*types.Signature); !isSig {
			continue
		}
		// … directly, or in a helper method it calls (acceptSymbol())
		for _, fn := range clusterOf(p, m, 1) {
			if fn != m && (fn.Signature.Recv() == nil || structOf(fn.Signature.Recv().Type()) != lex) {
				continue
			}
			for _, b := range fn.Blocks {
				for _, in := range b.Instrs {
					if u, ok := in.(*ssa.UnOp); ok && u.Op == token.MUL {
						if g, isG := u.X.(*ssa.Global); isG && g.Name() == "TokenSymbols" {
							st = m
						}
					}
				}
			}
		}
	}
	if st == nil {
		r.Unk("anchor", "-", "no lexer method returns a state function and walks the symbol table")
		return
	}
	isErrReport := func(x ssa.Instruction) bool {
		c, ok := x.(ssa.CallInstruction)
		if !ok || c.Common().StaticCallee() == nil {
			return false
		}
		callee := c.Common().StaticCallee()
		if !p.InPkg(callee) || callee.Blocks == nil {
			return false
		}
		// stores true into a bool field of the lexer (errored) or a non-empty error into it
		for _, b := range callee.Blocks {
			for _, in := range b.Instrs {
				if s, ok := in.(*ssa.Store); ok {
					if fa, ok := s.Addr.(*ssa.FieldAddr); ok && structOf(fa.X.Type()) == lex {
						if c, isC := s.Val.(*ssa.Const); isC && c.Value != nil && c.Value.String() == "true" {
							return true
						}
					}
				}
			}
		}
		return false
	}
	isEmit := func(x ssa.Instruction) bool {
		c, ok := x.(ssa.CallInstruction)
		return ok && c.Common().StaticCallee() != nil && c.Common().StaticCallee().Name() == "emit" && p.InPkg(c.Common().StaticCallee())
	}
	n := 0
	for _, ret := range returnsOf(st) {
		if len(ret.Results) != 1 {
			continue
		}
		c, isC := ret.Results[0].(*ssa.Const)
		if !isC || !c.IsNil() {
			continue
		}
		n++
		key := p.FuncName(st) + ":ends-tag"
		if n > 1 {
			key += "#" + itoa(int64(n))
		}
		{
			if dominatedByCall(ret, isEmit) {
				r.OK(key, p.InstrPos(ret), "returns behind the emission of a symbol")
				continue
			}
			// … or behind the true result of a helper that emits whenever it answers true (sym, found := l.acceptSymbol())
			viaHelper := Guarded(ret, func(cond ssa.Value, pol bool) bool {
				ex, ok := cond.(*ssa.Extract)
				if !ok || !pol {
					return false
				}
				c, ok := ex.Tuple.(*ssa.Call)
				if !ok || c.Common().StaticCallee() == nil {
					return false
				}
				h := c.Common().StaticCallee()
				if !p.InPkg(h) || h.Blocks == nil || ex.Index != h.Signature.Results().Len()-1 {
					return false
				}
				nTrue := 0
				for _, hr := range returnsOf(h) {
					k, isK := hr.Results[ex.Index].(*ssa.Const)
					if isK && k.Value != nil && k.Value.String() == "false" {
						continue
					}
					nTrue++
					if !dominatedByCall(hr, isEmit) {
						return false
					}
				}
				return nTrue > 0
			})
			if viaHelper {
				r.OK(key, p.InstrPos(ret), "returns behind a helper that has emitted a symbol")
				continue
			}
			if dominatedByCall(ret, isErrReport) {
				r.OK(key, p.InstrPos(ret), "returns behind an error report")
				continue
			}
			atEOF := Guarded(ret, func(cond ssa.Value, pol bool) bool {
				bo, ok := cond.(*ssa.BinOp)
				if !ok || (bo.Op != token.EQL && bo.Op != token.NEQ) {
					return false
				}
				if (bo.Op == token.EQL) != pol {
					return false
				}
				for _, pair := range [][2]ssa.Value{{bo.X, bo.Y}, {bo.Y, bo.X}} {
					call, isCall := stripConv(pair[0]).(*ssa.Call)
					k, isK := stripConv(pair[1]).(*ssa.Const)
					if !isCall || !isK || call.Common().StaticCallee() == nil {
						continue
					}
					if nm := call.Common().StaticCallee().Name(); (nm == "peek" || nm == "next") && k.Value != nil {
						if v, okv := constInt(k); okv && (v < 0 || v > 0x10FFFF) {
							return true
						}
					}
				}
				return false
			})
			if atEOF {
				r.OK(key, p.InstrPos(ret), "returns only at the end of the input")
			} else {
				r.Bad(key, p.InstrPos(ret), "the tag state ends the tag without having emitted a closing delimiter, reported an error or reached the end of the input: at a character no token starts with ({%% endcomment ? %%}, `;`, a no-break space) the rest of the tag becomes literal text and the parser takes everything up to the end of the NEXT tag for this tag's arguments — text, variables and blocks in between vanish without an error")
			}
		}
	}
	if n == 0 {
		r.Unk("returns", p.Pos(st.Pos()), "the tag state has no return of a nil state")
	}
}

// dominatedByCall: an instruction matching pred stands earlier in ret's block or in a block that dominates it: every
// path to ret has passed it since the function (or, for a block inside a loop body, the pass of the loop) began.
func dominatedByCall(ret ssa.Instruction, pred func(ssa.Instruction) bool) bool {
	rb := ret.Block()
	for b := rb; b != nil; b = b.Idom() {
		for _, in := range b.Instrs {
			if in == ret {
				break
			}
			if pred(in) {
				return true
			}
		}
	}
	return false
}
