package main

// tol_T5.go — shapes of C16 (diagnostics) that arise when a maintainer extracts helpers: the setter an error-completing
// method delegates to, the function that picks the fallback token, a constructor function for identical literals, and an
// early return with its own literal for the token-less case.

import (
	"go/token"
	"go/types"

	"golang.org/x/tools/go/ssa"
)

// helperSitesT5: f is a package helper all of whose calls we see (top-level, unexported, only called statically, from
// the package): returns its call sites, nil otherwise.
func helperSitesT5(p *Prog, f *ssa.Function) []ssa.CallInstruction {
	if f == nil || f.Parent() != nil || f.Object() == nil || f.Object().Exported() || !p.staticOnly(f, nil) {
		return nil
	}
	node := p.CG.Nodes[f]
	if node == nil {
		return nil
	}
	var out []ssa.CallInstruction
	for _, e := range node.In {
		if e.Caller == nil || e.Caller.Func == nil || !p.InPkg(e.Caller.Func) || e.Caller.Func == f {
			return nil
		}
		out = append(out, e.Site)
	}
	return out
}

// paramIndexT5: index of v (a parameter of f, possibly read back from its spill cell) among f's parameters, or -1.
func paramIndexT5(f *ssa.Function, v ssa.Value) int {
	v = stripLoad(v)
	for i, pa := range f.Params {
		if ssa.Value(pa) == v {
			return i
		}
	}
	return -1
}

// pairOwnerT5: the function an obligation about stores into the Error `base` in f is named after. A helper that
// completes an error handed in by its only caller (setPositionFrom(tok), called from updateFromTokenIfNeeded alone) is
// part of that caller: the obligation keeps the name of the method the rest of the package calls, wherever a maintainer
// puts the assignments.
func pairOwnerT5(p *Prog, f *ssa.Function, base ssa.Value) *ssa.Function {
	for depth := 0; depth < 3; depth++ {
		idx := paramIndexT5(f, base)
		if idx < 0 {
			return f
		}
		sites := helperSitesT5(p, f)
		if len(sites) == 0 {
			return f
		}
		caller := sites[0].Parent()
		var actual ssa.Value
		for _, s := range sites {
			args := callArgs(s.Common())
			if s.Parent() != caller || idx >= len(args) {
				return f
			}
			actual = args[idx]
		}
		f, base = caller, actual
	}
	return f
}

// sitesGuardedT5: f is a helper and every one of its calls is made under a condition satisfying pred (directly, or the
// calling helper's calls are): the guard of a setter may stand in the method that calls it.
func sitesGuardedT5(p *Prog, f *ssa.Function, pred EdgePred, depth int) bool {
	sites := helperSitesT5(p, f)
	if len(sites) == 0 || depth > 2 {
		return false
	}
	for _, s := range sites {
		if Guarded(s, pred) {
			continue
		}
		if !sitesGuardedT5(p, s.Parent(), pred, depth+1) {
			return false
		}
	}
	return true
}

// parserFallbackFlowsT5: the token Parser.Error reports at (the Token of the Error it builds) may be a *Token field
// the parser keeps (lastToken): followed backwards through phis, local cells and the results of the package functions
// called (errorToken() with early returns).
func parserFallbackFlowsT5(p *Prog, a *Anchors, pe *ssa.Function) bool {
	ti := fieldIndex(a.Error, "Token")
	if ti < 0 {
		return false
	}
	isTok := func(T types.Type) bool {
		pt, ok := T.(*types.Pointer)
		return ok && types.Identical(pt.Elem(), a.Token)
	}
	seen := map[ssa.Value]bool{}
	var walk func(v ssa.Value, d int) bool
	results := func(callee *ssa.Function, idx, d int) bool {
		if callee == nil || callee.Blocks == nil || !p.InPkg(callee) {
			return false
		}
		for _, ret := range returnsOf(callee) {
			if idx < len(ret.Results) && isTok(ret.Results[idx].Type()) && walk(res(ret, idx), d+1) {
				return true
			}
		}
		return false
	}
	walk = func(v ssa.Value, d int) bool {
		if v == nil || seen[v] || d > 10 {
			return false
		}
		seen[v] = true
		switch x := v.(type) {
		case *ssa.Phi:
			for _, e := range x.Edges {
				if walk(e, d+1) {
					return true
				}
			}
		case *ssa.UnOp:
			if x.Op != token.MUL {
				return false
			}
			if fa, ok := x.X.(*ssa.FieldAddr); ok {
				if n := structOf(fa.X.Type()); n != nil && n.Obj().Name() == "Parser" && isTok(x.Type()) {
					return true
				}
				return false
			}
			for _, c := range p.cellsOf(x.X, 0) {
				for _, s := range p.cellStores[c] {
					if walk(s, d+1) {
						return true
					}
				}
			}
		case *ssa.Call:
			return results(x.Common().StaticCallee(), 0, d)
		case *ssa.Extract:
			if c, ok := x.Tuple.(*ssa.Call); ok {
				return results(c.Common().StaticCallee(), x.Index, d)
			}
		}
		return false
	}
	for _, v := range p.fieldStores(errorAllocs(a, pe), ti) {
		if walk(v, 0) {
			return true
		}
	}
	return false
}

// builtWithoutTokenT5: the instruction is only reached when tokParam is nil (`if token == nil { return &Error{…} }`).
func builtWithoutTokenT5(in ssa.Instruction, tokParam *ssa.Parameter) bool {
	return Guarded(in, func(c ssa.Value, pol bool) bool {
		x, eq, isNil := condIsNilTest(c)
		return isNil && eq == pol && stripLoad(x) == ssa.Value(tokParam)
	})
}

// compileSideT5: f belongs to the compile side: not reached at execution, compile-side by its name, or a helper all of
// whose callers are on the compile side (fromFileError, called by fromFile alone).
func compileSideT5(p *Prog, f *ssa.Function, compile, exec map[*ssa.Function]bool, depth int) bool {
	if !exec[f] || compileOnlyByName(p, f) {
		return true
	}
	sites := helperSitesT5(p, f)
	if len(sites) == 0 || depth > 2 {
		return false
	}
	for _, s := range sites {
		g := s.Parent()
		if !compile[g] || !compileSideT5(p, g, compile, exec, depth+1) {
			return false
		}
	}
	return true
}

// ctorSitesT5: f is a helper that always returns the Error it allocates at al (a constructor function): each call of
// it is one construction, judged with the arguments given there. nil if f is not such a helper.
func ctorSitesT5(p *Prog, f *ssa.Function, al *ssa.Alloc) []ssa.CallInstruction {
	sites := helperSitesT5(p, f)
	if len(sites) == 0 {
		return nil
	}
	rets := returnsOf(f)
	if len(rets) == 0 {
		return nil
	}
	for _, ret := range rets {
		returned := false
		for i := range ret.Results {
			if xs := p.directAllocs(res(ret, i), 0); len(xs) == 1 && xs[0] == al {
				returned = true
			}
		}
		if !returned {
			return nil // a function that does more than build this Error (lex): judged as a whole
		}
	}
	return sites
}

// atSiteT5: v as seen from a call site of the helper v belongs to: a parameter becomes the argument passed there.
func atSiteT5(v ssa.Value, site ssa.CallInstruction) ssa.Value {
	f := site.Common().StaticCallee()
	if f == nil {
		return v
	}
	if idx := paramIndexT5(f, v); idx >= 0 {
		if args := callArgs(site.Common()); idx < len(args) {
			return args[idx]
		}
	}
	return v
}

// mayBeEmptyAtSiteT5: mayBeEmptyConst for a value of a constructor helper at one of its call sites.
func mayBeEmptyAtSiteT5(v ssa.Value, site ssa.CallInstruction, depth int) bool {
	if depth > 6 {
		return false
	}
	if w := atSiteT5(v, site); w != v {
		return mayBeEmptyConst(w, depth+1)
	}
	switch x := v.(type) {
	case *ssa.Phi:
		for _, e := range x.Edges {
			if mayBeEmptyAtSiteT5(e, site, depth+1) {
				return true
			}
		}
		return false
	case *ssa.UnOp:
		if sv := localLoadValue(x); sv != nil {
			return mayBeEmptyAtSiteT5(sv, site, depth+1)
		}
	}
	return mayBeEmptyConst(v, depth)
}

// isExecCtxMethodT5: f (or the function it is nested in) is a method of ExecutionContext.
func isExecCtxMethodT5(f *ssa.Function) bool {
	recv := topLevel(f).Signature.Recv()
	return recv != nil && structOf(recv.Type()) != nil && structOf(recv.Type()).Obj().Name() == "ExecutionContext"
}
