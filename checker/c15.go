package main

// C15 — whitespace control: R-C15-MARK, R-C15-WIRE, R-C15-CUT, R-C15-SPACELESS.
//
// The property as a whole ("the result equals rendering the source from which that whitespace was deleted by hand") is
// a metamorphic relation between two renderings and is not decided. What is decided are the structural parts every
// such equality rests on: which delimiters carry the marker, which neighbour's marker reaches which side of a text
// node, which characters each of the four trims removes (evaluated as character sets, not matched as source text), and
// what the spaceless pattern removes (evaluated as a constant on an exhaustive small alphabet).

import (
	"go/constant"
	"go/token"
	"regexp"
	"sort"
	"strings"

	"golang.org/x/tools/go/ssa"
)

func init() { register("C15", checkC15) }

func checkC15(p *Prog, r *Report) {
	a := ResolveAnchors(p)
	if !anchorCheck(a, r) {
		return
	}
	ruleC15Mark(p, r)
	ruleC15Wire(p, r)
	ruleC15Cut(p, r)
	ruleC15Spaceless(p, a, r)
	ruleC15OwnOptions(p, a, r)
}

// stringValueOf: the string a value denotes when that is fixed at compile time: a constant, a named constant, or a load
// of a package variable that is assigned exactly once, a constant.
func stringValueOf(p *Prog, v ssa.Value) (string, bool) {
	if s, ok := constString(v); ok {
		return s, true
	}
	if u, ok := v.(*ssa.UnOp); ok && u.Op == token.MUL {
		if g, ok := u.X.(*ssa.Global); ok {
			out, n := "", 0
			okc := true
			p.EachInstr(func(f *ssa.Function, in ssa.Instruction) {
				if st, isSt := in.(*ssa.Store); isSt && st.Addr == ssa.Value(g) {
					n++
					var isC bool
					out, isC = constString(st.Val)
					okc = okc && isC
				}
			})
			if n == 1 && okc {
				return out, true
			}
		}
	}
	return "", false
}

func setOf(s string) map[rune]bool {
	m := map[rune]bool{}
	for _, c := range s {
		m[c] = true
	}
	return m
}

func showSet(m map[rune]bool) string {
	var rs []string
	for c := range m {
		rs = append(rs, strings.Trim(strconvQuoteRune(c), "'"))
	}
	sort.Strings(rs)
	return "{" + strings.Join(rs, " ") + "}"
}

func strconvQuoteRune(c rune) string {
	switch c {
	case ' ':
		return "space"
	case '\t':
		return `\t`
	case '\n':
		return `\n`
	case '\r':
		return `\r`
	case '\v':
		return `\v`
	case '\f':
		return `\f`
	}
	return string(c)
}

// R-C15-MARK: the lexer flags exactly the four delimiters that carry a `-`.
func ruleC15Mark(p *Prog, r *Report) {
	r.Begin("R-C15-MARK", "exactly the delimiters `{{-`, `-}}`, `{%-`, `-%}` are symbols of the lexer that carry the marker; a token is flagged TrimWhitespaces only behind the test for such a symbol, and the marker is taken out of the token's value", 2)
	// the symbol table
	var syms []string
	if g, ok := p.SPkg.Members["TokenSymbols"].(*ssa.Global); ok {
		p.EachInstr(func(f *ssa.Function, in ssa.Instruction) {
			if st, isSt := in.(*ssa.Store); isSt && st.Addr == ssa.Value(g) {
				if ks, okk := constStringSlice(st.Val); okk {
					syms = ks
				}
			}
		})
	}
	if len(syms) == 0 {
		r.Unk("symbols", "-", "anchor unresolved: TokenSymbols")
	} else {
		var marked []string
		for _, s := range syms {
			if len(s) == 3 && (strings.HasPrefix(s, "-") || strings.HasSuffix(s, "-")) {
				marked = append(marked, s)
			}
		}
		sort.Strings(marked)
		want := []string{"-%}", "-}}", "{%-", "{{-"}
		if strings.Join(marked, " ") == strings.Join(want, " ") {
			r.OK("symbols", "-", "the three-character symbols with a `-` at an end are exactly %v", want)
		} else {
			r.Bad("symbols", "-", "the three-character symbols with a `-` at an end are %v, the marker forms are %v: a delimiter with a marker is not recognised as one token (or something else is)", marked, want)
		}
	}
	// the flag store
	n := 0
	p.EachInstr(func(f *ssa.Function, in ssa.Instruction) {
		st, ok := in.(*ssa.Store)
		if !ok || !isFieldAddrOf(st.Addr, "Token", "TrimWhitespaces") || !p.InPkg(f) {
			return
		}
		k, isC := st.Val.(*ssa.Const)
		if !isC || k.Value == nil || k.Value.Kind() != constant.Bool || !constant.BoolVal(k.Value) {
			if isC {
				return // explicit false
			}
			r.Bad(p.FuncName(f)+":flag", p.InstrPos(in), "TrimWhitespaces is set to the computed value %s", p.VN(st.Val))
			return
		}
		n++
		key := p.FuncName(f) + ":flag"
		lenTest, endTest, symTest := false, false, false
		// a test inside a predicate function counts when it is made on the predicate's argument and that argument is
		// the token's value (resp. its type) at the call
		tokenVal := func(v ssa.Value, chain []*ssa.Call) bool {
			if len(chain) == 0 {
				return true
			}
			outer, fld := outerOperand(v, chain)
			if outer == nil {
				return false
			}
			if fld != "" {
				n := structOf(outer.Type())
				return fld == "Val" && n != nil && n.Obj().Name() == "Token"
			}
			if loadsField(outer, "Token", "Val") {
				return true
			}
			for _, b := range f.Blocks {
				for _, x := range b.Instrs {
					if st2, isSt := x.(*ssa.Store); isSt && isFieldAddrOf(st2.Addr, "Token", "Val") && p.VN(st2.Val) == p.VN(outer) {
						return true
					}
				}
			}
			return false
		}
		isLenTest := func(c ssa.Value, pol bool, chain []*ssa.Call) bool {
			x, ok := eqlCond(c, pol)
			if !ok {
				return false
			}
			kk, isK := constInt(x.Y)
			return isK && kk == 3 && lenOperand(x.X) != nil && tokenVal(lenOperand(x.X), chain)
		}
		isSymTest := func(c ssa.Value, pol bool, chain []*ssa.Call) bool {
			x, ok := eqlCond(c, pol)
			if !ok {
				return false
			}
			if _, isK := constInt(x.Y); !isK || lenTestValue(x.X) {
				return false
			}
			if len(chain) == 0 {
				return true // typ == TokenSymbol
			}
			outer, fld := outerOperand(x.X, chain)
			return outer != nil && (fld == "" || fld == "Typ") && typeName(x.X.Type()) == "TokenType"
		}
		isEndTest := func(c ssa.Value, pol bool, chain []*ssa.Call) bool {
			x, ok := c.(*ssa.Call)
			if !ok || !pol || x.Common().StaticCallee() == nil {
				return false
			}
			switch p.extName(x.Common().StaticCallee()) {
			case "strings.HasSuffix", "strings.HasPrefix":
				if s, isS := constString(x.Common().Args[1]); isS && s == "-" {
					return tokenVal(x.Common().Args[0], chain)
				}
			}
			return false
		}
		eachDominatingCond(in, func(c ssa.Value, pol bool) bool {
			lenTest = lenTest || condHolds(p, c, pol, nil, isLenTest)
			symTest = symTest || condHolds(p, c, pol, nil, isSymTest)
			endTest = endTest || condHolds(p, c, pol, nil, isEndTest)
			return false
		})
		// `a || b` puts the second test on the false edge of the first: accept a marker test anywhere in the
		// function that feeds the branch (the disjunction), as long as one is present
		if !endTest {
			for _, b := range f.Blocks {
				for _, x := range b.Instrs {
					if c, isCall := x.(*ssa.Call); isCall && c.Common().StaticCallee() != nil {
						switch p.extName(c.Common().StaticCallee()) {
						case "strings.HasSuffix", "strings.HasPrefix":
							if s, isS := constString(c.Common().Args[1]); isS && s == "-" && b.Dominates(in.Block()) {
								endTest = true
							}
						}
					}
				}
			}
		}
		if lenTest && endTest && symTest {
			r.OK(key, p.InstrPos(in), "flagged only for a symbol token of length 3 with a `-` at an end")
		} else {
			r.Bad(key, p.InstrPos(in), "a token is flagged TrimWhitespaces without the test for a three-character symbol with a `-` at an end (symbol test %v, length test %v, marker test %v)", symTest, lenTest, endTest)
		}
	})
	if n == 0 {
		r.Bad("flag", "-", "no token is ever flagged TrimWhitespaces: the `-` markers have no effect")
	}
}

func lenTestValue(v ssa.Value) bool { return lenOperand(v) != nil }

// R-C15-WIRE: the marker of the delimiter BEFORE a text reaches the text's left side, the one AFTER it the right side;
// "after a block tag" is the previous token being `%}`, "before a block tag" the next one being `{%`.
func ruleC15Wire(p *Prog, r *Report) {
	r.Begin("R-C15-WIRE", "a text node's trimLeft/afterBlock come from the token before it (offset -1), trimRight/beforeBlock from the token after it (offset +1); afterBlock tests for `%}`, beforeBlock for `{%`", 4)
	// which parser token offset a value was peeked at
	var offsetOf func(v ssa.Value, d int) (int64, bool)
	offsetOf = func(v ssa.Value, d int) (int64, bool) {
		if d > 6 {
			return 0, false
		}
		switch x := v.(type) {
		case *ssa.Call:
			cal := x.Common().StaticCallee()
			if cal != nil && p.InPkg(cal) && strings.HasPrefix(cal.Name(), "Peek") {
				for _, a := range x.Common().Args[1:] {
					if k, ok := constInt(a); ok && isIntType(a.Type()) && a.Type().String() == "int" {
						return k, true
					}
				}
			}
		case *ssa.UnOp:
			if sv := localLoadValue(x); sv != nil {
				return offsetOf(sv, d+1)
			}
			if base, _, _ := fieldLoadBase(x); base != nil {
				return offsetOf(base, d+1)
			}
		case *ssa.FieldAddr:
			return offsetOf(x.X, d+1)
		case *ssa.Phi:
			var off int64
			got := false
			for _, e := range x.Edges {
				if kc, isC := e.(*ssa.Const); isC && (kc.Value == nil || kc.Value.Kind() == constant.Bool) {
					continue // the `x != nil && …` short-circuit contributes false
				}
				o, ok := offsetOf(e, d+1)
				if !ok || (got && o != off) {
					return 0, false
				}
				off, got = o, true
			}
			return off, got
		case *ssa.BinOp:
			if o, ok := offsetOf(x.X, d+1); ok {
				return o, true
			}
			return offsetOf(x.Y, d+1)
		}
		return 0, false
	}
	// the constant a Val comparison is made with
	var cmpConst func(v ssa.Value, d int) (string, bool)
	cmpConst = func(v ssa.Value, d int) (string, bool) {
		if d > 6 {
			return "", false
		}
		switch x := v.(type) {
		case *ssa.BinOp:
			if x.Op == token.EQL {
				if s, ok := constString(x.Y); ok {
					return s, true
				}
				if s, ok := constString(x.X); ok {
					return s, true
				}
			}
		case *ssa.Phi:
			for _, e := range x.Edges {
				if s, ok := cmpConst(e, d+1); ok {
					return s, true
				}
			}
		case *ssa.UnOp:
			if sv := localLoadValue(x); sv != nil {
				return cmpConst(sv, d+1)
			}
		}
		return "", false
	}
	want := map[string]struct {
		off int64
		val string
	}{"trimLeft": {-1, ""}, "trimRight": {1, ""}, "afterBlock": {-1, "%}"}, "beforeBlock": {1, "{%"}}
	seen := map[string]bool{}
	p.EachInstr(func(f *ssa.Function, in ssa.Instruction) {
		st, ok := in.(*ssa.Store)
		if !ok || !p.InPkg(f) {
			return
		}
		fa, ok := st.Addr.(*ssa.FieldAddr)
		if !ok {
			return
		}
		n := structOf(fa.X.Type())
		if n == nil || n.Obj().Name() != "nodeHTML" {
			return
		}
		fld := fieldName(fa.X.Type(), fa.Field)
		w, isFlag := want[fld]
		if !isFlag {
			return
		}
		if k, isC := st.Val.(*ssa.Const); isC && k.Value != nil && k.Value.Kind() == constant.Bool && !constant.BoolVal(k.Value) {
			return
		}
		seen[fld] = true
		key := p.FuncName(f) + ":nodeHTML." + fld
		off, okOff := offsetOf(st.Val, 0)
		switch {
		case !okOff:
			r.Unk(key, p.InstrPos(in), "cannot tell which neighbouring token %s decides %s", p.VN(st.Val), fld)
		case off != w.off:
			r.Bad(key, p.InstrPos(in), "%s is decided by the token at offset %+d, it belongs to the one at %+d: the marker of one side of a tag trims the text on its other side", fld, off, w.off)
		case w.val != "":
			if s, okS := cmpConst(st.Val, 0); okS && s == w.val {
				r.OK(key, p.InstrPos(in), "token at offset %+d is %q", off, s)
			} else {
				r.Bad(key, p.InstrPos(in), "%s is set for a neighbour %q, a block tag's delimiter on that side is %q", fld, s, w.val)
			}
		default:
			r.OK(key, p.InstrPos(in), "marker of the token at offset %+d", off)
		}
	})
	var missing []string
	for fld := range want {
		if !seen[fld] {
			missing = append(missing, fld)
		}
	}
	sort.Strings(missing)
	if len(missing) > 0 {
		r.Unk("nodeHTML flags", "-", "anchor unresolved: no store to nodeHTML.%s", strings.Join(missing, "/"))
	}
}

// R-C15-CUT: which characters each trim removes, and from which end.
func ruleC15Cut(p *Prog, r *Report) {
	r.Begin("R-C15-CUT", "in the text node: trimLeft/trimRight cut {space, tab, CR, LF} (at least; only white space) from their own end; LStripBlocks cuts exactly {space, tab} from the right end; TrimBlocks removes exactly one leading newline, LF or CR LF; each only under its own flag pair", 4)
	nh := p.Method("nodeHTML", "Execute")
	if nh == nil {
		r.Unk("anchor", "-", "anchor unresolved: (*nodeHTML).Execute")
		return
	}
	// the text node's code: Execute and the helpers it was split into
	cluster := clusterOf(p, nh, 2)
	flagOfCond := func(c ssa.Value, pol bool) string {
		if !pol {
			return ""
		}
		if _, n, fld := fieldLoadBase(c); n != nil && (n.Obj().Name() == "nodeHTML" || n.Obj().Name() == "Options") {
			return fld
		}
		return ""
	}
	// the flags tested on the way to `in` within its function; a flag tested in a small predicate method counts when
	// the predicate answers true only with the flag set
	localFlags := func(in ssa.Instruction) map[string]bool {
		fl := map[string]bool{}
		eachDominatingCond(in, func(c ssa.Value, pol bool) bool {
			if fld := flagOfCond(c, pol); fld != "" {
				fl[fld] = true
				return false
			}
			for _, cp := range predicateConds(p, c, pol, 0) {
				fld := flagOfCond(cp.c, cp.pol)
				if fld == "" || fl[fld] {
					continue
				}
				if condHolds(p, c, pol, nil, func(c2 ssa.Value, pol2 bool, _ []*ssa.Call) bool { return flagOfCond(c2, pol2) == fld }) {
					fl[fld] = true
				}
			}
			return false
		})
		return fl
	}
	// … and, for a trim in a helper, the flags under which every call of the helper in the cluster is made
	flagsOf := func(in ssa.Instruction) map[string]bool {
		fl := localFlags(in)
		for k := range inheritedGuards(cluster, nh, in.Parent(), localFlags, 0) {
			fl[k] = true
		}
		return fl
	}
	ws := setOf(" \t\r\n")
	anyWS := setOf(" \t\r\n\v\f")
	nTrim := 0
	type nlCut struct {
		what string
		at   ssa.Instruction
	}
	var nlCuts []nlCut
	var instrs []ssa.Instruction
	for _, fn := range cluster {
		for _, b := range fn.Blocks {
			instrs = append(instrs, b.Instrs...)
		}
	}
	for _, in := range instrs {
		switch x := in.(type) {
		case *ssa.Call:
			cal := x.Common().StaticCallee()
			if cal == nil {
				continue
			}
			name := p.extName(cal)
			if name != "strings.TrimLeft" && name != "strings.TrimRight" && name != "strings.Trim" && name != "strings.TrimSpace" && name != "strings.TrimPrefix" && name != "strings.TrimSuffix" {
				continue
			}
			nTrim++
			fl := flagsOf(in)
			cut, okCut := "", true
			if len(x.Common().Args) > 1 {
				cut, okCut = stringValueOf(p, x.Common().Args[1])
			}
			cs := setOf(cut)
			switch {
			case fl["LStripBlocks"] || fl["beforeBlock"]:
				key := "nodeHTML.Execute:LStripBlocks"
				switch {
				case !(fl["LStripBlocks"] && fl["beforeBlock"]):
					r.Bad(key, p.InstrPos(in), "the indentation strip is not under both LStripBlocks and beforeBlock (%v)", keysOf(fl))
				case name != "strings.TrimRight" || !okCut:
					r.Bad(key, p.InstrPos(in), "blanks before a block tag are removed with %s(%s): it is the END of the text that stands before the tag", name, p.VN(x))
				case len(cs) == 2 && cs[' '] && cs['\t']:
					r.OK(key, p.InstrPos(in), "TrimRight with exactly {space, tab}")
				default:
					r.Bad(key, p.InstrPos(in), "LStripBlocks cuts %s, the option names spaces and tabs: line breaks before a block tag disappear (or tabs stay)", showSet(cs))
				}
			case fl["trimLeft"], fl["trimRight"]:
				side, fn := "trimLeft", "strings.TrimLeft"
				if fl["trimRight"] {
					side, fn = "trimRight", "strings.TrimRight"
				}
				key := "nodeHTML.Execute:" + side
				okSet := okCut && name != "strings.TrimSpace"
				for c := range ws {
					if !cs[c] {
						okSet = false
					}
				}
				for c := range cs {
					if !anyWS[c] {
						okSet = false
					}
				}
				switch {
				case fl["trimLeft"] && fl["trimRight"]:
					r.Bad(key, p.InstrPos(in), "one trim is under both marker flags")
				case name != fn:
					r.Bad(key, p.InstrPos(in), "under %s the text is cut with %s: the marker removes white space on the side of the text that faces it, and nothing on the other", side, name)
				case !okSet:
					r.Bad(key, p.InstrPos(in), "the marker cuts %s; it removes ALL white space next to it (space, tab, CR, LF) and nothing but white space", showSet(cs))
				default:
					r.OK(key, p.InstrPos(in), "%s with %s", fn, showSet(cs))
				}
			case fl["TrimBlocks"] || fl["afterBlock"]:
				key := "nodeHTML.Execute:TrimBlocks" + nlKey(cut)
				if name == "strings.TrimPrefix" && okCut && isNewlineForm(cut) && fl["TrimBlocks"] && fl["afterBlock"] {
					nlCuts = append(nlCuts, nlCut{cut, in})
					r.OK(key, p.InstrPos(in), "TrimPrefix of one newline (%q)", cut)
				} else {
					r.Bad(key, p.InstrPos(in), "TrimBlocks removes with %s(%q): exactly the first newline after the tag goes, nothing else", name, cut)
				}
			default:
				r.Bad("nodeHTML.Execute:"+name, p.InstrPos(in), "%s is applied under no whitespace-control flag", name)
			}
		case *ssa.Slice:
			// res[1:] : TrimBlocks — exactly one byte, which was tested to be LF
			if !isStringType(x.X.Type()) {
				continue
			}
			nTrim++
			fl := flagsOf(in)
			key := "nodeHTML.Execute:TrimBlocks"
			low, okLow := int64(0), x.Low == nil
			if x.Low != nil {
				low, okLow = constInt(x.Low)
			}
			// what the bytes that go were tested to be: byte tests x[i] == c at constant positions, or HasPrefix(x, "…")
			tested := map[int64]byte{}
			prefix := ""
			eachDominatingCond(in, func(c ssa.Value, pol bool) bool {
				if !pol {
					return false
				}
				if hc, ok := c.(*ssa.Call); ok && hc.Common().StaticCallee() != nil && p.extName(hc.Common().StaticCallee()) == "strings.HasPrefix" && p.VN(hc.Common().Args[0]) == p.VN(x.X) {
					if sv, okS := stringValueOf(p, hc.Common().Args[1]); okS {
						prefix = sv
					}
					return false
				}
				bo, ok := c.(*ssa.BinOp)
				if !ok || bo.Op != token.EQL {
					return false
				}
				if k, isK := constInt(bo.Y); isK && k >= 0 && k < 256 {
					var sx, si ssa.Value
					switch ix := bo.X.(type) {
					case *ssa.Lookup:
						sx, si = ix.X, ix.Index
					case *ssa.Index:
						sx, si = ix.X, ix.Index
					}
					if sx != nil {
						if i0, isZ := constInt(si); isZ && i0 >= 0 && p.VN(sx) == p.VN(x.X) {
							tested[i0] = byte(k)
						}
					}
				}
				return false
			})
			what := prefix
			if what == "" && okLow && low >= 1 && low <= 2 {
				var bs []byte
				for i := int64(0); i < low; i++ {
					if c, has := tested[i]; has {
						bs = append(bs, c)
					}
				}
				if int64(len(bs)) == low {
					what = string(bs)
				}
			}
			key += nlKey(what)
			switch {
			case !(fl["TrimBlocks"] && fl["afterBlock"]):
				r.Bad(key, p.InstrPos(in), "the text is resliced outside the TrimBlocks/afterBlock flags (%v)", keysOf(fl))
			case !okLow || low < 1 || x.High != nil:
				r.Bad(key, p.InstrPos(in), "TrimBlocks reslices %s[%s:%s]: exactly the leading newline goes", p.VN(x.X), vnOrEmpty(p, x.Low), vnOrEmpty(p, x.High))
			case what == "" || int64(len(what)) != low:
				r.Bad(key, p.InstrPos(in), "the %d byte(s) TrimBlocks removes were not tested to be a newline at the start of the text (tested: %q)", low, what)
			case !isNewlineForm(what):
				r.Bad(key, p.InstrPos(in), "TrimBlocks removes %q: exactly the first newline after the tag goes (LF, or the CR LF of a CRLF document), nothing else", what)
			default:
				nlCuts = append(nlCuts, nlCut{what, in})
				r.OK(key, p.InstrPos(in), "removes the leading %q, tested to be there, only under TrimBlocks && afterBlock", what)
			}
		}
	}
	if nTrim < 4 {
		r.Unk("nodeHTML.Execute:trims", p.Pos(nh.Pos()), "expected the four trims (two markers, TrimBlocks, LStripBlocks) in the text node, found %d", nTrim)
	}
	// the newline TrimBlocks removes: a document's line ends are LF or CR LF (the property's alphabet names both); one
	// newline goes, so no cut can follow another
	if len(nlCuts) > 0 {
		has := map[string]bool{}
		for _, c := range nlCuts {
			has[c.what] = true
		}
		if has["\n"] && has["\r\n"] {
			r.OK("nodeHTML.Execute:TrimBlocks:newline-forms", p.Pos(nh.Pos()), "both LF and CR LF are removed as the first newline after a block tag")
		} else {
			r.Bad("nodeHTML.Execute:TrimBlocks:newline-forms", p.Pos(nh.Pos()), "TrimBlocks removes %v only: in a document with CR LF line ends the first byte after `%%}` is CR, the test for LF fails and the option does nothing there (the output equals TrimBlocks=false), while the `-` markers treat CR as white space", keysOf(has))
		}
		twice := false
		for _, a1 := range nlCuts {
			for _, a2 := range nlCuts {
				if a1.at == a2.at {
					continue
				}
				if (a1.at.Block() == a2.at.Block() && instrIndex(a1.at) < instrIndex(a2.at)) || (a1.at.Block() != a2.at.Block() && a1.at.Parent() == a2.at.Parent() && ReachableBlocks(a1.at.Block())[a2.at.Block()]) {
					twice = true
				}
			}
		}
		if twice {
			r.Bad("nodeHTML.Execute:TrimBlocks:one-newline", p.Pos(nh.Pos()), "one removal of a newline can be followed by another: two line ends after a block tag disappear where exactly the first one goes")
		} else {
			r.OK("nodeHTML.Execute:TrimBlocks:one-newline", p.Pos(nh.Pos()), "the removals of a newline exclude each other: at most one newline goes")
		}
	}
}

func isNewlineForm(s string) bool { return s == "\n" || s == "\r\n" || s == "\r" }

func nlKey(what string) string {
	switch what {
	case "\r\n":
		return ":crlf"
	case "\r":
		return ":cr"
	}
	return ""
}

func keysOf(m map[string]bool) []string {
	var out []string
	for k := range m {
		out = append(out, k)
	}
	sort.Strings(out)
	return out
}

// R-C15-SPACELESS: the pattern and replacement of the spaceless tag, iterated to a fix-point as the tag does, remove
// exactly the white-space runs that stand between two tags — evaluated on every string of up to 6 items over
// {<a>, </a>, <br/>, x, space, LF, tab}.
func ruleC15Spaceless(p *Prog, a *Anchors, r *Report) {
	r.Begin("R-C15-SPACELESS", "spaceless: one constant pattern/replacement applied until nothing changes; evaluated on all strings of up to 6 items over {<a>,</a>,<br/>,<a LF b>,<a t=\"x>y\">,x,space,LF,tab} it deletes exactly the white-space runs that have a tag on both sides", 2)
	ex := p.Method("tagSpacelessNode", "Execute")
	if ex == nil {
		r.Unk("anchor", "-", "anchor unresolved: (*tagSpacelessNode).Execute")
		return
	}
	// the tag's code: Execute and the helpers it was split into
	cluster := clusterOf(p, ex, 2)
	var call *ssa.Call
	n := 0
	for _, fn := range cluster {
		for _, b := range fn.Blocks {
			for _, in := range b.Instrs {
				if c, ok := in.(*ssa.Call); ok && c.Common().StaticCallee() != nil && strings.HasPrefix(p.extName(c.Common().StaticCallee()), "(*regexp.Regexp).Replace") {
					call = c
					n++
				}
			}
		}
	}
	if n != 1 {
		r.Unk("spaceless:replace", p.Pos(ex.Pos()), "expected one regexp replacement in the tag, found %d", n)
		return
	}
	pat, okP := constPatternOf(p, call.Common().Args[0])
	repl, okR := constString(call.Common().Args[2])
	if !okP || !okR || p.extName(call.Common().StaticCallee()) != "(*regexp.Regexp).ReplaceAllString" {
		r.Unk("spaceless:replace", p.InstrPos(call), "pattern or replacement is not a constant")
		return
	}
	re, err := regexp.Compile(pat)
	if err != nil {
		r.Bad("spaceless:replace", p.InstrPos(call), "pattern %q does not compile", pat)
		return
	}
	// repeated: the replacement stands in a loop, or in a helper every call of which stands in one
	iterated := inLoop(call) || calledInLoop(cluster, ex, call.Parent(), 0)
	items := []string{"<a>", "</a>", "<br/>", "<a\nb>", "<a t=\"x>y\">", "x", " ", "\n", "\t"}
	isTag := func(s string) bool { return strings.HasPrefix(s, "<") }
	isWS := func(s string) bool { return s == " " || s == "\n" || s == "\t" }
	bad := ""
	count := 0
	var gen func(seq []string)
	gen = func(seq []string) {
		if bad != "" {
			return
		}
		count++
		// reference: drop maximal white-space runs that have a tag item on both sides
		var ref strings.Builder
		for i := 0; i < len(seq); {
			if !isWS(seq[i]) {
				ref.WriteString(seq[i])
				i++
				continue
			}
			j := i
			for j < len(seq) && isWS(seq[j]) {
				j++
			}
			if !(i > 0 && isTag(seq[i-1]) && j < len(seq) && isTag(seq[j])) {
				ref.WriteString(strings.Join(seq[i:j], ""))
			}
			i = j
		}
		in := strings.Join(seq, "")
		out := in
		for k := 0; k < 16; k++ {
			o2 := re.ReplaceAllString(out, repl)
			if o2 == out || !iterated {
				out = o2
				break
			}
			out = o2
		}
		if out != ref.String() {
			bad = "on " + strconvQuote(in) + " the tag yields " + strconvQuote(out) + ", removing exactly the runs between two tags gives " + strconvQuote(ref.String())
			return
		}
		if len(seq) == 6 {
			return
		}
		for _, it := range items {
			gen(append(append([]string{}, seq...), it))
		}
	}
	gen(nil)
	if bad != "" {
		r.Bad("spaceless:pattern", p.InstrPos(call), "%s (pattern %q, replacement %q, applied %s)", bad, pat, repl, map[bool]string{true: "until nothing changes", false: "once"}[iterated])
	} else {
		r.OK("spaceless:pattern", p.InstrPos(call), "pattern %q with replacement %q, applied until nothing changes, agrees with the reference on %d strings", pat, repl, count)
	}
	// what is written is that result
	wrote := false
	for _, b := range ex.Blocks {
		for _, in := range b.Instrs {
			ci, ok := in.(ssa.CallInstruction)
			if !ok || !ci.Common().IsInvoke() || (ci.Common().Method.Name() != "WriteString" && ci.Common().Method.Name() != "Write") {
				continue
			}
			if recv := ci.Common().Value; recv != nil && recv.Type().String() != "github.com/flosch/pongo2/v6.TemplateWriter" {
				continue
			}
			wrote = true
			v := stripLoad(ci.Common().Args[0])
			from := flowsFromCall(p, cluster, v, call)
			if from {
				r.OK("spaceless:sink", p.InstrPos(in), "the tag writes the result of the replacement")
			} else {
				r.Bad("spaceless:sink", p.InstrPos(in), "the tag writes %s, not the result of the replacement", p.VN(v))
			}
		}
	}
	if !wrote {
		r.Unk("spaceless:sink", p.Pos(ex.Pos()), "the tag writes nothing to the template writer")
	}
}

func strconvQuote(s string) string {
	s = strings.ReplaceAll(s, "\n", `\n`)
	s = strings.ReplaceAll(s, "\t", `\t`)
	return `"` + s + `"`
}

// R-C15-OWNOPTS: "TrimBlocks/LStripBlocks … equals rendering the source from which that whitespace was deleted by hand":
// the options that decide are those of the template the text is written in. A text node therefore reads them from a
// template it keeps itself (the one it was parsed for), not from the execution context: ExecutionContext.template is
// the root of the extends chain of the rendering (or the caller of an imported macro), so the text of a child
// template's blocks would be trimmed by the base template's options.
func ruleC15OwnOptions(p *Prog, a *Anchors, r *Report) {
	r.Begin("R-C15-OWNOPTS", "a text node reads the TrimBlocks/LStripBlocks options from the template it was parsed for (a field of the node), never from the execution context's template", 1)
	ex := p.Method("nodeHTML", "Execute")
	if ex == nil {
		r.Unk("anchor", "-", "anchor unresolved: (*nodeHTML).Execute")
		return
	}
	n := 0
	for _, f := range clusterOf(p, ex, 2) {
		for _, b := range f.Blocks {
			for _, in := range b.Instrs {
				u, ok := in.(*ssa.UnOp)
				if !ok || u.Op != token.MUL {
					continue
				}
				fa, ok := u.X.(*ssa.FieldAddr)
				if !ok {
					continue
				}
				on := structOf(fa.X.Type())
				if on == nil || on.Obj().Name() != "Options" {
					continue
				}
				fld := fieldName(fa.X.Type(), fa.Field)
				if fld != "TrimBlocks" && fld != "LStripBlocks" {
					continue
				}
				n++
				key := p.FuncName(topLevel(f)) + ":" + fld
				// where the *Options comes from: <X>.Options with X a *Template loaded from …
				src := ""
				var walk func(v ssa.Value, d int)
				walk = func(v ssa.Value, d int) {
					if v == nil || d > 8 || src != "" {
						return
					}
					v = stripLoad(v)
					if pa, isP := v.(*ssa.Parameter); isP {
						for _, s := range paramActualSites(p, pa) {
							walk(s.val, d+1)
						}
						return
					}
					if phi, isPhi := v.(*ssa.Phi); isPhi {
						for _, e := range phi.Edges {
							walk(e, d+1)
						}
						return
					}
					base, tn, f2 := fieldLoadBase(v)
					if tn == nil {
						return
					}
					switch {
					case tn.Obj().Name() == "ExecutionContext":
						src = "ExecutionContext." + f2
					case tn.Obj().Name() == "nodeHTML":
						src = "node"
					default:
						walk(base, d+1)
					}
				}
				walk(fa.X, 0)
				switch src {
				case "node":
					r.OK(key, p.InstrPos(in), "read from the template the node keeps")
				case "":
					r.Assume(key, p.InstrPos(in), "origin of the options not followed")
				default:
					r.Bad(key, p.InstrPos(in), "the option is read through %s: that is the template the rendering runs on (the root of the extends chain, the caller of an imported macro), not the one this text was written in — the text of a child template's blocks is trimmed by the base template's options and the child's own options are ignored", src)
				}
			}
		}
	}
	if n == 0 {
		r.Unk("none", "-", "the text node does not read the TrimBlocks/LStripBlocks options")
	}
}
