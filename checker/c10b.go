package main

// C10, second part — R-C10-OWNLIST.

import (
	"go/types"
	"strings"

	"golang.org/x/tools/go/ssa"
)

// R-C10-OWNLIST: "block.Super yields the next less-derived definition … blocks nested in other blocks". The list of
// definitions that a block's information record keeps while the definition runs (and hands on, shortened, to Super)
// must stay what it was when the block was entered. It is therefore either built for this execution (make, a nil
// slice appended to) or a part of another record's list, or it sits in storage that execution never writes (something
// computed when the templates were compiled). A list built in storage that executing a block tag writes again (a
// scratch slice in the context) is overwritten by the next block tag that runs in the same context: a nested block
// placed before {{ block.Super }} makes Super render a definition of the nested block.
func ruleC10OwnList(p *Prog, a *Anchors, r *Report) {
	r.Begin("R-C10-OWNLIST", "the definition list kept in a block's information record is built for that execution or lies in storage that execution never writes: no other block tag can overwrite it", 1)
	info := p.Named("tagBlockInformation")
	if info == nil {
		r.Unk("anchor", "-", "anchor unresolved: type tagBlockInformation")
		return
	}
	st, ok := info.Underlying().(*types.Struct)
	if !ok {
		r.Unk("anchor", "-", "tagBlockInformation is not a struct")
		return
	}
	listField := -1
	for i := 0; i < st.NumFields(); i++ {
		if _, ok := st.Field(i).Type().Underlying().(*types.Slice); ok {
			listField = i
		}
	}
	if listField < 0 {
		r.Unk("anchor", "-", "anchor unresolved: the slice field of tagBlockInformation")
		return
	}
	fname := st.Field(listField).Name()
	exec := a.ExecReach()
	// fields written (as a whole, or element-wise through a slice loaded from them) by execution-time code
	writtenAtExec := func(tn, fld string) (string, bool) {
		for _, f := range p.inPkgFuncsSorted(exec) {
			for _, b := range f.Blocks {
				for _, in := range b.Instrs {
					if s, ok := in.(*ssa.Store); ok && isFieldAddrOf(s.Addr, tn, fld) {
						if fa, ok := s.Addr.(*ssa.FieldAddr); ok && len(p.directAllocs(fa.X, 0)) > 0 {
							continue // initialising a record made here
						}
						return p.FuncName(f) + " @" + p.InstrPos(in), true
					}
				}
			}
		}
		return "", false
	}
	type leaf struct{ desc, why string }
	n := 0
	for _, f := range p.inPkgFuncsSorted(p.allFuncSet()) {
		for _, b := range f.Blocks {
			for _, in := range b.Instrs {
				s, ok := in.(*ssa.Store)
				if !ok {
					continue
				}
				fa, ok := s.Addr.(*ssa.FieldAddr)
				if !ok || fa.Field != listField {
					continue
				}
				if n2 := structOf(fa.X.Type()); n2 == nil || !types.Identical(n2, info) {
					continue
				}
				n++
				key := p.FuncName(topLevel(f)) + ":" + fname
				var bad []leaf
				unknown := ""
				seen := map[ssa.Value]bool{}
				var walk func(v ssa.Value, d int)
				walk = func(v ssa.Value, d int) {
					if v == nil || seen[v] {
						return
					}
					seen[v] = true
					if d > 14 {
						unknown = "too deep"
						return
					}
					switch x := v.(type) {
					case *ssa.Const, *ssa.MakeSlice:
					case *ssa.Alloc:
					case *ssa.Slice:
						walk(x.X, d+1)
					case *ssa.Phi:
						for _, e := range x.Edges {
							walk(e, d+1)
						}
					case *ssa.ChangeType:
						walk(x.X, d+1)
					case *ssa.Call:
						if bi, ok := x.Common().Value.(*ssa.Builtin); ok && bi.Name() == "append" {
							walk(x.Common().Args[0], d+1)
							return
						}
						callee := x.Common().StaticCallee()
						if callee != nil && callee.Blocks != nil && p.InPkg(callee) {
							for _, ret := range returnsOf(callee) {
								if len(ret.Results) > 0 {
									walk(res(ret, 0), d+1)
								}
							}
							return
						}
						unknown = "result of " + p.calleeName(x.Common())
					case *ssa.Parameter:
						sites := paramActualSites(p, x)
						if len(sites) == 0 {
							unknown = "parameter " + x.Name() + " of " + p.FuncName(x.Parent())
							return
						}
						for _, sv := range sites {
							walk(sv.val, d+1)
						}
					case *ssa.UnOp:
						if cell, ok := x.X.(*ssa.Alloc); ok {
							for _, sv := range allStoresTo(cell) {
								walk(sv, d+1)
							}
							return
						}
						if base, tn, fld := fieldLoadBase(x); base != nil && tn != nil {
							if types.Identical(tn, info) {
								return // a part of another record's list
							}
							if where, w := writtenAtExec(tn.Obj().Name(), fld); w {
								bad = append(bad, leaf{tn.Obj().Name() + "." + fld, where})
							}
							return
						}
						if g, ok := x.X.(*ssa.Global); ok {
							bad = append(bad, leaf{"package variable " + g.Name(), "shared by all renderings"})
							return
						}
						unknown = p.VN(v)
					default:
						unknown = p.VN(v)
					}
				}
				walk(s.Val, 0)
				switch {
				case len(bad) > 0:
					var ds []string
					for _, l := range bad {
						ds = append(ds, l.desc+" (written again by "+l.why+")")
					}
					r.Bad(key, p.InstrPos(in), "the definition list of the block is backed by %s: the next block tag executed in the same context overwrites it while this block's definition is still running, so {{ block.Super }} after a nested block renders the wrong definition", strings.Join(ds, ", "))
				case unknown != "":
					r.Assume(key, p.InstrPos(in), "origin of the list not followed (%s)", unknown)
				default:
					r.OK(key, p.InstrPos(in), "the list is built for this execution (or is part of another record's list)")
				}
			}
		}
	}
	if n == 0 {
		r.Unk("none", "-", "no store to tagBlockInformation.%s found", fname)
	}
}
