package main

// C08 — name resolution: R-C08-SAFE (engine K on the resolver), R-C08-SIBLING, R-C08-CALL, R-C08-BOUNDS,
// R-C08-MISS, R-C08-NOCONVERT, R-C08-ORDER.

import (
	"fmt"
	"go/token"
	"reflect"
	"sort"
	"strconv"
	"strings"

	"golang.org/x/tools/go/ssa"
)

func init() { register("C08", checkC08) }

func checkC08(p *Prog, r *Report) {
	a := ResolveAnchors(p)
	if !anchorCheck(a, r) {
		return
	}
	res := p.Method("variableResolver", "resolve")
	if res == nil {
		r.Begin("R-C08-ANCHORS", "resolver found", 1)
		r.Unk("anchor", "-", "anchor unresolved: (*variableResolver).resolve")
		return
	}
	// the resolver and the Value accessors it relies on cannot panic on any value kind
	inScope := func(f *ssa.Function) bool {
		top := topLevel(f)
		if top == res || reflectCallWrapper(p, top) {
			return true
		}
		if recv := top.Signature.Recv(); recv != nil {
			if n := structOf(recv.Type()); n != nil && n.Obj().Name() == "Value" {
				return true
			}
		}
		return false
	}
	ruleReflectTypestate(p, a, r, "R-C08-SAFE", inScope)
	ruleReflectHazards(p, a, r, "R-C08-HAZARD", func(f *ssa.Function) bool { return inScope(f) || topLevel(f).Name() == "fieldByName" })
	ruleC08Sibling(p, a, r, res)
	ruleC08Call(p, a, r, res)
	ruleC08Bounds(p, a, r, res)
	ruleC08Miss(p, a, r, res)
	ruleC08NoConvert(p, a, r, res)
	ruleCtxMergeOrder(p, a, r, "R-C08-ORDER")
	// "names set by tags shadow context keys" also for a macro parameter the caller omitted: it is bound (to its
	// default or to nil), so a same-named context key cannot show through
	ruleC08Steps(p, a, r)
	ruleC08IndexIsInteger(p, a, r, res)
	ruleC08Pure(p, r, res)
	ruleC08Unwrap(p, ResolveAnchors(p), r)
	ruleC08Deref(p, ResolveAnchors(p), r)
	ruleC08Items(p, ResolveAnchors(p), r)
	r.Begin("R-C08-MACRO-ANCHORS", "macro body executor found by role", 1)
	if ma := resolveMacroAnchors(p, a, r); ma != nil {
		r.Trivial("anchors", "-", "%d macro body executor(s)", len(ma.bodies))
		ruleMacroBindAll(p, ma, r, "R-C08-MACROBIND")
	}
}

// reflectCallsIn lists calls of reflect.Value method m in f.
func reflectCallsIn(p *Prog, f *ssa.Function, m string) []*ssa.Call {
	var out []*ssa.Call
	for _, b := range f.Blocks {
		for _, in := range b.Instrs {
			if c, ok := in.(*ssa.Call); ok && c.Common().StaticCallee() != nil && p.extName(c.Common().StaticCallee()) == "(reflect.Value)."+m {
				out = append(out, c)
			} else if ok && m == "Call" && reflectCallWrapper(p, c.Common().StaticCallee()) {
				out = append(out, c) // same argument layout: (fn, args)
			}
		}
	}
	return out
}

// R-C08-SIBLING: the dotted and the subscript form of one step establish the same facts before the same reflect
// operation (Engler cross-check): every MapIndex is behind an assignability test, every FieldByName is followed
// by the CanInterface filter.
func ruleC08Sibling(p *Prog, a *Anchors, r *Report, res *ssa.Function) {
	r.Begin("R-C08-SIBLING", "sibling branches (a.b vs a[expr]) guard the same reflect operation the same way: every map lookup behind a key-assignability test, every struct field lookup followed by the inaccessible-field filter", 4)
	for _, c := range reflectCallsIn(p, res, "MapIndex") {
		key := "resolve:MapIndex"
		g := Guarded(c, func(cond ssa.Value, pol bool) bool {
			cc, ok := cond.(*ssa.Call)
			if !ok || !cc.Common().IsInvoke() || cc.Common().Method.Name() != "AssignableTo" {
				return false
			}
			kt, ok1 := typeOf(p, cc.Common().Value)
			mt, ok2 := typeKeyOf(p, cc.Common().Args[0])
			return pol && ok1 && ok2 && p.VN(kt) == p.VN(c.Common().Args[1]) && p.VN(mt) == p.VN(c.Common().Args[0])
		})
		if g {
			r.OK(key, p.InstrPos(c), "behind keyType.AssignableTo(mapType.Key())")
		} else {
			r.Bad(key, p.InstrPos(c), "this map lookup is not behind the key-assignability test its sibling branch has: a wrong-typed key panics instead of yielding the empty value")
		}
	}
	// struct field lookups: reflect's own, or a package helper that performs one (fieldByName)
	fieldLookups := reflectCallsIn(p, res, "FieldByName")
	for _, b := range res.Blocks {
		for _, in := range b.Instrs {
			c, ok := in.(*ssa.Call)
			if !ok || c.Common().StaticCallee() == nil || !p.InPkg(c.Common().StaticCallee()) || c.Common().StaticCallee().Blocks == nil {
				continue
			}
			h := c.Common().StaticCallee()
			if !isReflectValue(c.Type()) {
				continue
			}
			if len(reflectCallsIn(p, h, "FieldByIndexErr"))+len(reflectCallsIn(p, h, "FieldByName"))+len(reflectCallsIn(p, h, "FieldByIndex")) > 0 {
				fieldLookups = append(fieldLookups, c)
			}
		}
	}
	for _, c := range fieldLookups {
		key := "resolve:FieldByName"
		// every path from the call to the loop's join passes CanInterface true or IsValid false or returns
		ok := false
		for _, u := range refs(c) {
			if cc, isCall := u.(*ssa.Call); isCall && cc.Common().StaticCallee() != nil && p.extName(cc.Common().StaticCallee()) == "(reflect.Value).CanInterface" {
				ok = true
			}
		}
		if ok {
			r.OK(key, p.InstrPos(c), "result filtered through CanInterface (unexported fields behave like missing ones)")
		} else {
			r.Bad(key, p.InstrPos(c), "the looked-up field is not filtered through CanInterface: an unexported field panics later instead of yielding the empty value")
		}
	}
}

// R-C08-CALL: the reflect Call is dominated by the call protocol checks.
func ruleC08Call(p *Prog, a *Anchors, r *Report, res *ssa.Function) {
	r.Begin("R-C08-CALL", "calling a context function: Kind==Func, argument-count test against NumIn (error edge), NumOut ∈ {1,2} (error edge), per-parameter type test (error edge) and validity test all precede the reflect Call; the error result of a (T, error) function is returned", 5)
	ruleC08CallNil(p, a, r)
	ruleC08InterfaceNil(p, a, r)
	calls := reflectCallsIn(p, res, "Call")
	if len(calls) != 1 {
		r.Unk("resolve:Call", p.Pos(res.Pos()), "expected exactly one reflect Call in the resolver, found %d", len(calls))
		return
	}
	call := calls[0]
	fn, _, _ := asReflectCallSite(p, call)
	if fn == nil {
		fn = call.Common().Args[0]
	}
	// the function's Type()
	isTypeOfFn := func(v ssa.Value) bool {
		x, ok := typeOf(p, v)
		return ok && p.VN(x) == p.VN(fn)
	}
	invokeOn := func(v ssa.Value, method string) bool {
		c, ok := v.(*ssa.Call)
		return ok && c.Common().IsInvoke() && c.Common().Method.Name() == method && isTypeOfFn(c.Common().Value)
	}
	// (i) Kind == Func
	if Guarded(call, func(c ssa.Value, pol bool) bool {
		bo, ok := c.(*ssa.BinOp)
		if !ok {
			return false
		}
		x, isKind := (&kengine{p: p}).reflectCall(bo.X, "Kind")
		k, isK := kindConst(bo.Y)
		return isKind && isK && k == kFunc && p.VN(x) == p.VN(fn) && ((bo.Op == token.EQL && pol) || (bo.Op == token.NEQ && !pol))
	}) {
		r.OK("resolve:Call:is-func", p.InstrPos(call), "reached only when Kind == Func")
	} else {
		r.Bad("resolve:Call:is-func", p.InstrPos(call), "Call is reachable for a value that is not a function")
	}
	// (ii) argument count vs NumIn with an error edge: some dominating If whose condition involves len(args) and NumIn()
	mentions := func(c ssa.Value, pred func(ssa.Value) bool, depth int) bool { return mentionsValue(c, pred, depth) }
	checkDom := func(key, what string, pred func(ssa.Value) bool) {
		found, errEdge := false, false
		for _, b := range res.Blocks {
			iff, ok := b.Instrs[len(b.Instrs)-1].(*ssa.If)
			if !ok || !b.Dominates(call.Block()) {
				continue
			}
			if !mentions(iff.Cond, pred, 0) {
				continue
			}
			found = true
			// compound conditions are chains of Ifs: an error exit within a few hops of this test
			for blk := range ReachableBlocks(b) {
				if blk != b && !blk.Dominates(call.Block()) && !ReachableBlocks(blk)[call.Block()] && errorReturnsOnly(res, blk) {
					errEdge = true
				}
			}
		}
		switch {
		case !found:
			r.Bad(key, p.InstrPos(call), "no test of %s precedes the reflect Call: reflect panics (or a wrong value is produced) instead of an execution error", what)
		case !errEdge:
			r.Bad(key, p.InstrPos(call), "the %s test has no edge that returns an execution error", what)
		default:
			r.OK(key, p.InstrPos(call), "%s is tested before the Call, with an error edge", what)
		}
	}
	checkDom("resolve:Call:arity", "the argument count against NumIn()", func(v ssa.Value) bool { return invokeOn(v, "NumIn") })
	checkDom("resolve:Call:numout", "NumOut()", func(v ssa.Value) bool { return invokeOn(v, "NumOut") })
	// NumOut compared with both 1 and 2
	consts := map[int64]bool{}
	for _, b := range res.Blocks {
		for _, in := range b.Instrs {
			if bo, ok := in.(*ssa.BinOp); ok && invokeOn(bo.X, "NumOut") {
				if k, isC := constInt(bo.Y); isC {
					consts[k] = true
				}
			}
		}
	}
	if consts[1] && consts[2] {
		r.OK("resolve:Call:numout-values", p.InstrPos(call), "NumOut is compared with 1 and 2")
	} else {
		r.Bad("resolve:Call:numout-values", p.InstrPos(call), "NumOut must be restricted to 1 or 2 before values[0]/values[1] are read (compared with %v)", consts)
	}
	// (iii) per-parameter type comparison with error edge, and validity loop
	typeCmp, validity := false, false
	for _, b := range res.Blocks {
		iff, ok := b.Instrs[len(b.Instrs)-1].(*ssa.If)
		if !ok {
			continue
		}
		c, _ := normCond(iff.Cond, true)
		if bo, ok := c.(*ssa.BinOp); ok {
			// fnArg != reflect.TypeOf(pv.Interface())
			isTO := func(v ssa.Value) bool {
				cc, ok := v.(*ssa.Call)
				return ok && cc.Common().StaticCallee() != nil && p.extName(cc.Common().StaticCallee()) == "reflect.TypeOf"
			}
			if (isTO(bo.X) || isTO(bo.Y)) && (errorReturnsOnly(res, b.Succs[0]) || errorReturnsOnly(res, b.Succs[1]) || reachesErrorSoon(res, b)) {
				typeCmp = true
			}
			// the comparison feeds a compound condition (typeOK := a == b || …): then every path from it to the Call
			// passes a branch that has an error exit
			if (isTO(bo.X) || isTO(bo.Y)) && !typeCmp {
				if MustPassFrom(b, len(b.Instrs)-1, call, func(x ssa.Instruction) bool {
					_, ok := x.(*ssa.If)
					if !ok || x.Block() == b {
						return false
					}
					return errorReturnsOnly(res, x.Block().Succs[0]) || errorReturnsOnly(res, x.Block().Succs[1])
				}) {
					_ = bo
					typeCmp = true
				}
			}
			if x, isKind := (&kengine{p: p}).reflectCall(bo.X, "Kind"); isKind {
				if k, isK := kindConst(bo.Y); isK && k == kInvalid && x != nil && b.Dominates(call.Block()) == false && ReachableBlocks(b)[call.Block()] {
					if errorReturnsOnly(res, b.Succs[0]) || errorReturnsOnly(res, b.Succs[1]) {
						validity = true
					}
				}
			}
		}
	}
	// an interface-typed parameter must not switch the type test off: where the test is relaxed by
	// `paramType.Kind() == Interface`, the argument's type has to be shown assignable to (or implementing) the parameter type
	for _, b := range res.Blocks {
		for _, in := range b.Instrs {
			bo, ok := in.(*ssa.BinOp)
			if !ok || (bo.Op != token.EQL && bo.Op != token.NEQ) {
				continue
			}
			kc, ok := bo.X.(*ssa.Call)
			if !ok || !kc.Common().IsInvoke() || kc.Common().Method.Name() != "Kind" {
				continue
			}
			if k, isK := kindConst(bo.Y); !isK || k != kInterface {
				continue
			}
			paramT := kc.Common().Value
			found := false
			for _, b2 := range res.Blocks {
				for _, in2 := range b2.Instrs {
					c2, ok := in2.(*ssa.Call)
					if !ok || !c2.Common().IsInvoke() {
						continue
					}
					m := c2.Common().Method.Name()
					if (m == "AssignableTo" || m == "Implements") && len(c2.Common().Args) == 1 && p.VN(c2.Common().Args[0]) == p.VN(paramT) {
						found = true
					}
				}
			}
			if found {
				r.OK("resolve:Call:iface-param", p.InstrPos(in), "an interface-typed parameter is accepted only for an argument whose type is assignable to it")
			} else {
				r.Bad("resolve:Call:iface-param", p.InstrPos(in), "the argument type test is switched off for every parameter of interface kind and nothing shows the argument assignable to it: show(1) for func(fmt.Stringer) reaches reflect's Call, which panics (\"Call using int as type fmt.Stringer\")")
			}
		}
	}
	if typeCmp {
		r.OK("resolve:Call:param-types", p.InstrPos(call), "parameter types are compared with the function's parameter types, mismatch is an error")
	} else {
		r.Bad("resolve:Call:param-types", p.InstrPos(call), "no comparison of argument types with the function's parameter types (with an error edge) before the Call")
	}
	if validity {
		r.OK("resolve:Call:param-valid", p.InstrPos(call), "invalid parameters are rejected with an error before the Call")
	} else {
		r.Bad("resolve:Call:param-valid", p.InstrPos(call), "parameters are not checked for validity before the Call (reflect panics on a zero Value argument)")
	}
	// (iv) the error result is looked at: values[1].Interface() guarded by NumOut == 2 and its non-nil edge returns it
	errRet := false
	for _, fn2 := range clusterOf(p, res, 2) {
		for _, b := range fn2.Blocks {
			for _, in := range b.Instrs {
				ta, ok := in.(*ssa.TypeAssert)
				if !ok || !ta.CommaOk || typeName(ta.AssertedType) != "error" {
					continue
				}
				errRet = true
			}
		}
	}
	// … and only when it is not a nil pointer/interface: boxed into an interface a nil *MyError compares unequal to nil,
	// so a function with a concrete error type would "fail" with a nil error (whose Error() then panics)
	if errRet {
		for _, fn2 := range clusterOf(p, res, 2) {
			for _, b := range fn2.Blocks {
				for _, in := range b.Instrs {
					ic, ok := in.(*ssa.Call)
					if !ok || ic.Common().StaticCallee() == nil || p.extName(ic.Common().StaticCallee()) != "(reflect.Value).Interface" {
						continue
					}
					// the receiver: element 1 of the results slice
					u, isU := ic.Common().Args[0].(*ssa.UnOp)
					if !isU {
						continue
					}
					ia, isIA := u.X.(*ssa.IndexAddr)
					if !isIA {
						continue
					}
					if k, isK := constInt(ia.Index); !isK || k != 1 {
						continue
					}
					recvVN := p.VN(ic.Common().Args[0])
					g := Guarded(in, func(cnd ssa.Value, pol bool) bool {
						cc, ok := cnd.(*ssa.Call)
						if !ok || cc.Common().StaticCallee() == nil || pol || len(cc.Common().Args) == 0 {
							return false
						}
						if p.VN(cc.Common().Args[len(cc.Common().Args)-1]) != recvVN && p.VN(cc.Common().Args[0]) != recvVN {
							return false
						}
						cal := cc.Common().StaticCallee()
						if p.extName(cal) == "(reflect.Value).IsNil" {
							return true
						}
						// a package predicate that asks IsNil for the kinds that can be nil
						if p.InPkg(cal) && cal.Blocks != nil {
							for _, cb := range cal.Blocks {
								for _, ci := range cb.Instrs {
									if c2, isC := ci.(*ssa.Call); isC && c2.Common().StaticCallee() != nil && p.extName(c2.Common().StaticCallee()) == "(reflect.Value).IsNil" {
										return true
									}
								}
							}
						}
						return false
					})
					if g {
						// … also a nil pointer INSIDE the interface: a function declared (T, error) that returns a nil *MyError
						// (e.g. hands on the library's own (*Value, *Error) result) yields a non-nil error holding a nil pointer
						looksInside, viaPredicate := false, false
						eachDominatingCond(in, func(cnd ssa.Value, pol bool) bool {
							cc, ok := cnd.(*ssa.Call)
							if !ok || cc.Common().StaticCallee() == nil || !p.InPkg(cc.Common().StaticCallee()) || cc.Common().StaticCallee().Blocks == nil {
								return false
							}
							viaPredicate = true
							for _, fn := range clusterOf(p, cc.Common().StaticCallee(), 1) {
								for _, cb := range fn.Blocks {
									for _, ci := range cb.Instrs {
										if c2, isC := ci.(*ssa.Call); isC && c2.Common().StaticCallee() != nil && p.extName(c2.Common().StaticCallee()) == "(reflect.Value).Elem" {
											looksInside = true
										}
									}
								}
							}
							return false
						})
						switch {
						case looksInside:
							r.OK("resolve:Call:error-result:nil-in-interface", p.InstrPos(in), "the nil test also looks at what an interface-typed result holds")
						case viaPredicate:
							r.Bad("resolve:Call:error-result:nil-in-interface", p.InstrPos(in), "the nil test of the second result stops at the interface: for func f() (T, error) that returns a nil *MyError (e.g. hands on a (*Value, *Error) result) the error is non-nil, holds a nil pointer, and printing it panics outside any recover")
						default:
							r.Assume("resolve:Call:error-result:nil-in-interface", p.InstrPos(in), "the nil test is written inline; whether it looks inside an interface is not decided")
						}
						r.OK("resolve:Call:error-result:nil-pointer", p.InstrPos(in), "the second result is looked at as an error only when it is not a nil pointer/interface")
					} else {
						r.Bad("resolve:Call:error-result:nil-pointer", p.InstrPos(in), "the second result is boxed with Interface() and compared with nil without asking whether it is a nil pointer: for func f() (T, *MyError) a successful call (nil *MyError) ends the execution with a nil error, and printing that error panics")
					}
				}
			}
		}
	}
	if errRet {
		r.OK("resolve:Call:error-result", p.InstrPos(call), "the second result is examined as an error")
	} else {
		r.Bad("resolve:Call:error-result", p.InstrPos(call), "the (T, error) protocol is not honoured: the second result is never examined")
	}
}

func reachesErrorSoon(f *ssa.Function, b *ssa.BasicBlock) bool {
	for _, s := range b.Succs {
		for _, ss := range s.Succs {
			if errorReturnsOnly(f, ss) {
				return true
			}
		}
		if errorReturnsOnly(f, s) {
			return true
		}
	}
	return false
}

func mentionsValue(v ssa.Value, pred func(ssa.Value) bool, depth int) bool {
	if depth > 6 {
		return false
	}
	if pred(v) {
		return true
	}
	switch x := v.(type) {
	case *ssa.BinOp:
		return mentionsValue(x.X, pred, depth+1) || mentionsValue(x.Y, pred, depth+1)
	case *ssa.UnOp:
		return mentionsValue(x.X, pred, depth+1)
	case *ssa.Phi:
		for _, e := range x.Edges {
			if mentionsValue(e, pred, depth+1) {
				return true
			}
		}
	case *ssa.Convert:
		return mentionsValue(x.X, pred, depth+1)
	}
	return false
}

// R-C08-BOUNDS: every reflect Index with a template-supplied index is behind 0 <= i < Len().
func ruleC08Bounds(p *Prog, a *Anchors, r *Report, res *ssa.Function) {
	r.Begin("R-C08-BOUNDS", "sequence indexing in the resolver is reached only for 0 <= i < Len() of the same value; the other edge yields the empty value, not an error or a panic", 1)
	for _, c := range reflectCallsInCluster(p, res, "Index") {
		idx := c.Common().Args[1]
		recv := c.Common().Args[0]
		if c.Parent() != res {
			// in a helper only an index the helper is handed counts (a template-supplied index); its own loops over a
			// value (isComparable walking an array) are the typestate rule's matter
			if _, isP := stripLoad(idx).(*ssa.Parameter); !isP {
				continue
			}
		}
		key := "resolve:Index"
		lower := Guarded(c, func(cond ssa.Value, pol bool) bool {
			bo, ok := cond.(*ssa.BinOp)
			if !ok || p.VN(bo.X) != p.VN(idx) {
				return false
			}
			k, isC := constInt(bo.Y)
			return isC && ((bo.Op == token.GEQ && k == 0 && pol) || (bo.Op == token.LSS && k == 0 && !pol) || (bo.Op == token.GTR && k == -1 && pol))
		})
		upper := Guarded(c, func(cond ssa.Value, pol bool) bool {
			bo, ok := cond.(*ssa.BinOp)
			if !ok {
				return false
			}
			isLen := func(v ssa.Value) bool {
				x, ok := (&kengine{p: p}).reflectCall(v, "Len")
				return ok && p.VN(x) == p.VN(recv)
			}
			switch {
			case isLen(bo.X) && p.VN(bo.Y) == p.VN(idx):
				return (bo.Op == token.GTR && pol) || (bo.Op == token.LEQ && !pol)
			case isLen(bo.Y) && p.VN(bo.X) == p.VN(idx):
				return (bo.Op == token.LSS && pol) || (bo.Op == token.GEQ && !pol)
			}
			return false
		})
		if lower && upper {
			r.OK(key, p.InstrPos(c), "reached only for 0 <= i < Len()")
		} else {
			r.Bad(key, p.InstrPos(c), "Index(%s) is not restricted to 0 <= i < Len() (lower bound checked: %v, upper bound checked: %v): an out-of-range index panics instead of yielding the empty value", p.VN(idx), lower, upper)
		}
	}
}

// R-C08-MISS: a missing key / out-of-range index / nil pointer / inaccessible field yields (empty value, nil).
func ruleC08Miss(p *Prog, a *Anchors, r *Report, res *ssa.Function) {
	r.Begin("R-C08-MISS", "an invalid intermediate value ends resolution with the empty value and no error; indexing a scalar and calling a non-function are errors", 3)
	asValue := p.Func("AsValue")
	// every `!current.IsValid()` edge returns (AsValue(nil), nil)
	n := 0
	for _, b := range res.Blocks {
		iff, ok := b.Instrs[len(b.Instrs)-1].(*ssa.If)
		if !ok {
			continue
		}
		c, pol := normCond(iff.Cond, true)
		cc, ok := c.(*ssa.Call)
		if !ok || cc.Common().StaticCallee() == nil || p.extName(cc.Common().StaticCallee()) != "(reflect.Value).IsValid" {
			continue
		}
		// skip the MethodByName probe (funcValue.IsValid())
		if mb, isCall := cc.Common().Args[0].(*ssa.Call); isCall && mb.Common().StaticCallee() != nil && strings.HasSuffix(p.extName(mb.Common().StaticCallee()), "MethodByName") {
			continue
		}
		invalidEdge := b.Succs[1]
		if !pol {
			invalidEdge = b.Succs[0]
		}
		// the invalid edge either returns the empty value or (combined test `IsValid && !CanInterface`) joins on
		if len(invalidEdge.Instrs) == 0 {
			continue
		}
		ret, isRet := invalidEdge.Instrs[len(invalidEdge.Instrs)-1].(*ssa.Return)
		if !isRet {
			continue
		}
		n++
		v0, v1 := res0(ret, 0), res0(ret, 1)
		isEmpty := false
		if call, ok := v0.(*ssa.Call); ok && call.Common().StaticCallee() == asValue && isNilConst(stripConv(call.Common().Args[0])) {
			isEmpty = true
		}
		if isEmpty && isNilConst(v1) {
			r.OK("resolve:invalid→empty", p.InstrPos(ret), "an invalid value ends resolution with (AsValue(nil), nil)")
		} else {
			r.Bad("resolve:invalid→empty", p.InstrPos(ret), "an invalid intermediate value returns (%s, %s) instead of the empty value without error", p.VN(v0), p.VN(v1))
		}
	}
	if n < 2 {
		r.Bad("resolve:invalid→empty:sites", p.Pos(res.Pos()), "expected validity tests with empty-value returns after each resolution step, found %d", n)
	}
	// the kind dispatch of a step is not bypassed: inside the handling of a step form (an edge `part.typ == <form>`) the
	// empty value is returned only from within an arm of the switch over current.Kind() — a return in front of that
	// switch answers "empty" also for a scalar, for which the switch's default arm has the execution error
	nDisp := 0
	for _, ret := range returnsOf(res) {
		if len(ret.Results) != 2 || !isNilConst(res0(ret, 1)) {
			continue
		}
		call, ok := res0(ret, 0).(*ssa.Call)
		if !ok || call.Common().StaticCallee() != asValue || !isNilConst(stripConv(call.Common().Args[0])) {
			continue
		}
		inStep := Guarded(ret, func(c ssa.Value, pol bool) bool {
			bo, ok := c.(*ssa.BinOp)
			return ok && bo.Op == token.EQL && pol && loadsField(bo.X, "variablePart", "typ")
		})
		if !inStep {
			continue
		}
		nDisp++
		inArm := Guarded(ret, func(c ssa.Value, pol bool) bool {
			bo, ok := c.(*ssa.BinOp)
			if !ok || bo.Op != token.EQL || !pol {
				return false
			}
			kc, isCall := bo.X.(*ssa.Call)
			return isCall && kc.Common().StaticCallee() != nil && p.extName(kc.Common().StaticCallee()) == "(reflect.Value).Kind"
		})
		key := "resolve:empty-inside-kind-arm"
		if inArm {
			r.OK(key, p.InstrPos(ret), "the empty value is returned from within an arm of the kind switch")
		} else {
			r.Bad(key, p.InstrPos(ret), "inside the handling of a step the empty value is returned before the kind of the value was looked at: for a scalar (a number, a bool) this answers \"empty\" where the kind switch's default arm has the execution error, e.g. {{ count[missing] }}")
		}
	}
	if nDisp == 0 {
		r.Unk("resolve:empty-inside-kind-arm", p.Pos(res.Pos()), "no empty-value return inside a step branch found (the step dispatch on variablePart.typ is not recognised)")
	}
	// every step form knows maps: `m.key`, `m.1` and `m[k]` are three spellings of a lookup, and a form without a map
	// arm answers "can't access … on type map" where the others find the entry (or the empty value)
	stepArms := map[int64]map[string]bool{} // step form -> reflect kinds it has a case for
	for _, b := range res.Blocks {
		for _, in := range b.Instrs {
			bo, ok := in.(*ssa.BinOp)
			if !ok || bo.Op != token.EQL {
				continue
			}
			kc, isCall := bo.X.(*ssa.Call)
			if !isCall || kc.Common().StaticCallee() == nil || p.extName(kc.Common().StaticCallee()) != "(reflect.Value).Kind" {
				continue
			}
			kind, isK := constInt(bo.Y)
			if !isK {
				continue
			}
			// which step form is this comparison in?
			eachDominatingCond(in, func(c ssa.Value, pol bool) bool {
				sb, ok := c.(*ssa.BinOp)
				if !ok || sb.Op != token.EQL || !pol || !loadsField(sb.X, "variablePart", "typ") {
					return false
				}
				if form, isF := constInt(sb.Y); isF {
					if stepArms[form] == nil {
						stepArms[form] = map[string]bool{}
					}
					stepArms[form][reflect.Kind(kind).String()] = true
				}
				return false
			})
		}
	}
	if len(stepArms) < 3 {
		r.Unk("resolve:steps-know-maps", p.Pos(res.Pos()), "expected three step forms with kind switches, found %d", len(stepArms))
	} else {
		var missing []string
		for form, kinds := range stepArms {
			if !kinds["map"] {
				missing = append(missing, fmt.Sprintf("form %d (knows %v)", form, keysOf(kinds)))
			}
		}
		sort.Strings(missing)
		if len(missing) == 0 {
			r.OK("resolve:steps-know-maps", p.Pos(res.Pos()), "each of the %d step forms has a map arm", len(stepArms))
		} else {
			r.Bad("resolve:steps-know-maps", p.Pos(res.Pos()), "a step form has no arm for maps: %s — {{ m.1 }} on a map with number keys is an execution error although {{ m[1] }} finds the entry", strings.Join(missing, "; "))
		}
	}
	// default arms of the kind switches return errors
	nErr := 0
	for _, b := range res.Blocks {
		for _, in := range b.Instrs {
			c, ok := in.(*ssa.Call)
			if !ok || c.Common().StaticCallee() == nil || p.extName(c.Common().StaticCallee()) != "fmt.Errorf" {
				continue
			}
			if s, isC := constString(c.Common().Args[0]); isC && (strings.Contains(s, "can't access") || strings.Contains(s, "not a function")) {
				nErr++
			}
		}
	}
	if nErr >= 3 {
		r.OK("resolve:scalar-is-error", p.Pos(res.Pos()), "%d error arms for indexing/field access on unsupported kinds and calling a non-function", nErr)
	} else {
		r.Bad("resolve:scalar-is-error", p.Pos(res.Pos()), "indexing a scalar / calling a non-function must be execution errors (found %d error arms)", nErr)
	}
}

func res0(ret *ssa.Return, i int) ssa.Value { return res(ret, i) }

// R-C08-NOCONVERT: the resolver never converts keys/values between types (a converted key can hit another entry).
func ruleC08NoConvert(p *Prog, a *Anchors, r *Report, res *ssa.Function) {
	r.Begin("R-C08-NOCONVERT", "the resolver looks keys up as they are: no reflect Convert/ConvertibleTo (a converted key denotes a different entry, e.g. 65 → \"A\")", 1)
	n := 0
	for _, f := range p.Funcs {
		if topLevel(f) != res && !(f.Signature.Recv() != nil && structOf(f.Signature.Recv().Type()) != nil && structOf(f.Signature.Recv().Type()).Obj().Name() == "variableResolver") {
			// helpers called from the resolver
			called := false
			for _, e := range p.Callers(p.CG, f) {
				if topLevel(e.Site.Parent()) == res {
					called = true
				}
			}
			if !called {
				continue
			}
		}
		for _, b := range f.Blocks {
			for _, in := range b.Instrs {
				ci, ok := in.(ssa.CallInstruction)
				if !ok {
					continue
				}
				name := ""
				if ci.Common().IsInvoke() {
					name = ci.Common().Method.Name()
				} else if c := ci.Common().StaticCallee(); c != nil && c.Pkg != nil && c.Pkg.Pkg.Path() == "reflect" {
					name = c.Name()
				}
				if name == "Convert" || name == "ConvertibleTo" || name == "CanConvert" {
					n++
					r.Bad(p.FuncName(f)+":"+name, p.InstrPos(in), "the resolver converts a value with %s: Go's conversions are wider than key identity (int → one-rune string, float → truncated int), so a missing key can resolve to another entry", name)
				}
			}
		}
	}
	if n == 0 {
		r.OK("resolve:no-conversion", p.Pos(res.Pos()), "0 reflect conversions in the resolver and its helpers")
	}
}

// ruleC08Steps: in the variable-name parser every kind of step (.name, .0, [expr], (args)) can be followed by further
// steps: after a step has been added the parser goes back to the head of its loop. (Sibling cross-check: a branch
// that falls out of the loop instead makes `a[1].b` a syntax error while `a.1.b` works.)
func ruleC08Steps(p *Prog, a *Anchors, r *Report) {
	r.Begin("R-C08-STEPS", "the variable-name parser returns to its loop head after every step it adds, whatever the step's form: any step can be followed by another", 3)
	var parser *ssa.Function
	for _, f := range p.Funcs {
		if !p.InPkg(f) || f.Blocks == nil || f.Signature.Recv() == nil {
			continue
		}
		if n := structOf(f.Signature.Recv().Type()); n == nil || n.Obj().Name() != "Parser" {
			continue
		}
		// the function that appends to variableResolver.parts inside a loop
		stores := 0
		for _, b := range f.Blocks {
			for _, in := range b.Instrs {
				if st, ok := in.(*ssa.Store); ok && isFieldAddrOf(st.Addr, "variableResolver", "parts") {
					stores++
				}
			}
		}
		if stores >= 3 {
			parser = f
		}
	}
	if parser == nil {
		r.Unk("anchor", "-", "anchor unresolved: the parser function that builds variableResolver.parts")
		return
	}
	name := p.FuncName(parser)
	cnt := 0
	for _, b := range parser.Blocks {
		for i, in := range b.Instrs {
			isStep := false
			what := ""
			if st, ok := in.(*ssa.Store); ok && isFieldAddrOf(st.Addr, "variableResolver", "parts") {
				isStep, what = true, "step added"
			}
			if st, ok := in.(*ssa.Store); ok && isFieldAddrOf(st.Addr, "variablePart", "isFunctionCall") {
				isStep, what = true, "call step"
			}
			if !isStep {
				continue
			}
			// innermost loop header dominating the store whose loop contains it
			var hdr *ssa.BasicBlock
			for _, h := range parser.Blocks {
				if !h.Dominates(b) {
					continue
				}
				back := false
				for _, pr := range h.Preds {
					if h.Dominates(pr) {
						back = true
					}
				}
				if back && (hdr == nil || h.Dominates(hdr)) {
					hdr = h // outermost: the step loop (argument lists have their own inner loop)
				}
			}
			if hdr == nil {
				continue // the first part, parsed before the loop
			}
			cnt++
			key := name + ":" + what
			if cnt > 1 {
				key += "#" + strconv.Itoa(cnt)
			}
			ok := true
			first := hdr.Instrs[0]
			for _, ret := range successReturns(parser) {
				if !MustPassFrom(b, i+1, ret, func(x ssa.Instruction) bool { return x == first }) {
					ok = false
				}
			}
			if ok {
				r.OK(key, p.InstrPos(in), "the parser returns to its loop head: another step may follow")
			} else {
				r.Bad(key, p.InstrPos(in), "after this step the parser can leave its loop without looking for a further step: a name that continues behind it (a[1].b, m[k][j], f[x](y)) is a syntax error although the same path written with dots works")
			}
		}
	}
}

// ruleC08IndexIsInteger: a subscript expression used as a list index went through Value.Integer(), which answers 0 for
// anything it cannot convert; it must have been shown to be an integer, or l["foo"] silently means l[0].
func ruleC08IndexIsInteger(p *Prog, a *Anchors, r *Report, res *ssa.Function) {
	r.Begin("R-C08-INTIDX", "a computed list index is the Integer() of a value that IsInteger() held for: a non-number subscript is not turned into index 0", 1)
	type idxSite struct {
		at  ssa.Instruction
		idx ssa.Value
	}
	var sites []idxSite
	for _, c := range reflectCallsInCluster(p, res, "Index") {
		idx := stripLoad(c.Common().Args[1])
		// the index of a helper (elementAt(seq, i)) is judged where the helper is called
		if pa, isP := idx.(*ssa.Parameter); isP && pa.Parent() != res {
			acts := paramActualSites(p, pa)
			if acts == nil {
				sites = append(sites, idxSite{c, idx})
			}
			for _, as := range acts {
				sites = append(sites, idxSite{as.site, as.val})
			}
			continue
		}
		sites = append(sites, idxSite{c, idx})
	}
	for _, sv := range sites {
		c, idx := sv.at, sv.idx
		ic, ok := stripConv(idx).(*ssa.Call)
		if !ok || ic.Common().StaticCallee() == nil || ic.Common().StaticCallee().Name() != "Integer" || !p.InPkg(ic.Common().StaticCallee()) {
			continue // a parse-time integer (a.1)
		}
		src := ic.Common().Args[0]
		g := Guarded(c, func(cond ssa.Value, pol bool) bool {
			cc, ok := cond.(*ssa.Call)
			if !ok || cc.Common().StaticCallee() == nil || !pol {
				return false
			}
			n := cc.Common().StaticCallee().Name()
			return (n == "IsInteger" || n == "IsNumber") && p.VN(cc.Common().Args[0]) == p.VN(src)
		})
		if g {
			r.OK("resolve:Index:integer", p.InstrPos(c), "the subscript was shown to be a number before Integer() is used as the index")
		} else {
			r.Bad("resolve:Index:integer", p.InstrPos(c), "the index is %s without an IsInteger() test: Integer() yields 0 for nil, strings and everything else it cannot convert, so such a subscript silently selects the first element", p.VN(idx))
		}
	}
}

// mutableGlobals: package-level variables whose content can change after package initialisation: stored to outside
// init, handed out by address (method calls on them, &g passed on), or a map/slice/pointer loaded from them written
// through outside init. A variable that is only initialised and then loaded is a constant table.
func mutableGlobals(p *Prog) map[*ssa.Global]string {
	out := map[*ssa.Global]string{}
	isInit := func(f *ssa.Function) bool {
		t := topLevel(f)
		return t.Name() == "init" || strings.HasPrefix(t.Name(), "init#")
	}
	for _, f := range p.Funcs {
		if f.Blocks == nil || !p.InPkg(f) || isInit(f) {
			continue
		}
		for _, b := range f.Blocks {
			for _, in := range b.Instrs {
				for _, op := range in.Operands(nil) {
					g, ok := (*op).(*ssa.Global)
					if !ok || g.Pkg != f.Pkg {
						continue
					}
					switch x := in.(type) {
					case *ssa.UnOp:
						if x.Op == token.MUL {
							// load: mutable if the loaded map/slice/pointer is written through here
							for _, u := range refs(x) {
								switch w := u.(type) {
								case *ssa.MapUpdate:
									if w.Map == ssa.Value(x) {
										out[g] = "map updated in " + p.FuncName(f)
									}
								case *ssa.IndexAddr:
									for _, uu := range refs(w) {
										if st, isSt := uu.(*ssa.Store); isSt && st.Addr == ssa.Value(w) {
											out[g] = "element stored in " + p.FuncName(f)
										}
									}
								case *ssa.FieldAddr:
									for _, uu := range refs(w) {
										if st, isSt := uu.(*ssa.Store); isSt && st.Addr == ssa.Value(w) {
											out[g] = "field stored in " + p.FuncName(f)
										}
									}
								}
							}
							continue
						}
					case *ssa.Store:
						if x.Addr == ssa.Value(g) {
							out[g] = "stored in " + p.FuncName(f)
						}
						continue
					case *ssa.FieldAddr:
						onlyLoads := true
						for _, u := range refs(x) {
							if l, isL := u.(*ssa.UnOp); !isL || l.Op != token.MUL {
								onlyLoads = false
							}
						}
						if onlyLoads {
							continue
						}
					}
					if _, has := out[g]; !has {
						out[g] = "address used in " + p.FuncName(f)
					}
				}
			}
		}
	}
	return out
}

// ruleC08Pure: what a path denotes is a function of the data it is resolved against: the resolver and the helpers it
// is built from read no package-level state that changes at run time (a memo of earlier resolutions, a counter, a
// switch). A lookup that consults such state can answer differently for the same data.
func ruleC08Pure(p *Prog, r *Report, res *ssa.Function) {
	r.Begin("R-C08-PURE", "the resolver and its helpers (static calls, depth 3) refer to no package-level variable that changes after initialisation: what a path denotes depends on the data only", 1)
	mut := mutableGlobals(p)
	n := 0
	for _, fn := range clusterOf(p, res, 3) {
		n++
		seen := map[*ssa.Global]bool{}
		bad := false
		for _, b := range fn.Blocks {
			for _, in := range b.Instrs {
				for _, op := range in.Operands(nil) {
					g, ok := (*op).(*ssa.Global)
					if !ok || g.Pkg != fn.Pkg || seen[g] {
						continue
					}
					seen[g] = true
					if why, isMut := mut[g]; isMut {
						bad = true
						r.Bad(p.FuncName(fn)+":global "+g.Name(), p.InstrPos(in), "resolution consults %s, a package-level variable that changes at run time (%s): the same path on the same data can denote different values depending on what was resolved before", g.Name(), why)
					}
				}
			}
		}
		if !bad {
			r.OK(p.FuncName(fn)+":pure", p.Pos(fn.Pos()), "refers to no package-level variable that changes after initialisation (%d constant tables)", len(seen))
		}
	}
	if n == 0 {
		r.Bad("none", "-", "no resolver function analysed")
	}
}

// reflectCallsInCluster: reflect.Value.<m> calls in f and in the unexported package helpers it calls statically
// (depth 2) — a maintainer may move the operation into a small helper (elementAt).
func reflectCallsInCluster(p *Prog, f *ssa.Function, m string) []*ssa.Call {
	var out []*ssa.Call
	for _, fn := range clusterOf(p, f, 2) {
		if fn != f && (fn.Signature.Recv() != nil && structOf(fn.Signature.Recv().Type()) != nil && structOf(fn.Signature.Recv().Type()).Obj().Name() == "Value") {
			continue // the accessors of Value have their own rules
		}
		if fn != f && fn.Object() != nil && fn.Object().Exported() {
			continue
		}
		out = append(out, reflectCallsIn(p, fn, m)...)
	}
	return out
}

type actualSite struct {
	site ssa.Instruction
	val  ssa.Value
}

// paramActualSites: for a parameter of an unexported, only statically called package function, the call sites with
// the value passed there (nil if the function may be called in a way we do not see).
func paramActualSites(p *Prog, pa *ssa.Parameter) []actualSite {
	f := pa.Parent()
	if f == nil || f.Parent() != nil || (f.Object() != nil && f.Object().Exported()) || !p.staticOnly(f, nil) {
		return nil
	}
	idx := indexOfParam(f, pa)
	node := p.CG.Nodes[f]
	if node == nil || len(node.In) == 0 {
		return nil
	}
	var out []actualSite
	for _, edge := range node.In {
		site, isInstr := edge.Site.(ssa.Instruction)
		args := callArgs(edge.Site.Common())
		if !isInstr || !p.InPkg(edge.Caller.Func) || idx >= len(args) {
			return nil
		}
		out = append(out, actualSite{site, args[idx]})
	}
	return out
}
