package main

// C20, second part — R-C20-DEBUGPURE, R-C20-ONECACHE.

import (
	"go/types"
	"sort"
	"strings"

	"golang.org/x/tools/go/ssa"
)

// cacheWriters: the package functions that change the cache themselves (fill, delete, re-assign, clear).
func c20CacheWriters(p *Prog, ca *cacheAnchors) map[*ssa.Function]string {
	out := map[*ssa.Function]string{}
	for _, f := range p.Funcs {
		for _, acc := range cacheAccesses(p, f, ca.cacheField) {
			switch acc.Kind {
			case "update", "delete", "clear":
				out[f] = acc.Kind
			case "assign":
				if st := acc.In.(*ssa.Store); len(p.directAllocs(st.Addr.(*ssa.FieldAddr).X, 0)) == 0 {
					out[f] = acc.Kind
				}
			}
		}
	}
	return out
}

// ruleC20DebugPure: a call of the caching entry point made while Debug is set leaves the cache alone: nothing that can
// run with Debug set (every instruction not reached only on the !Debug edge) writes the cache or reaches a function
// that does. ("With Debug on nothing is cached": a debugging session neither fills nor evicts entries; what was cached
// before is served again, unchanged, once Debug is off — until CleanCache names it.)
func ruleC20DebugPure(p *Prog, a *Anchors, ca *cacheAnchors, r *Report) {
	r.Begin("R-C20-DEBUGPURE", "with Debug set the caching entry point neither fills nor evicts: no call it can make on the Debug edge reaches a function that writes the cache", 1)
	entries := u7CacheEntries(p, a, ca)
	if len(entries) == 0 {
		r.Unk("entry", "-", "no exported method of TemplateSet both looks up and fills the cache")
		return
	}
	writers := c20CacheWriters(p, ca)
	for _, e := range entries {
		fns := withClosures(e.entry)
		name := p.FuncName(e.entry)
		nCalls, bad := 0, 0
		for _, fn := range fns {
			for _, b := range fn.Blocks {
				for _, in := range b.Instrs {
					ci, ok := in.(ssa.CallInstruction)
					if !ok {
						continue
					}
					if dbg, _ := u7DebugBypassed(p, in, ca.debugField); dbg {
						continue // reached only with Debug unset
					}
					var roots []*ssa.Function
					for _, c := range p.Callees(p.CG, ci) {
						if p.InPkg(c) {
							roots = append(roots, c)
						}
					}
					if len(roots) == 0 {
						continue
					}
					nCalls++
					// the helper that holds the locked lookup-or-load is judged by its own !Debug obligation (R-C20-OK)
					reach := p.Reach(p.CG, roots, nil)
					var hits []string
					for w, kind := range writers {
						if reach[w] {
							hits = append(hits, p.FuncName(w)+" ("+kind+")")
						}
					}
					sort.Strings(hits)
					if len(hits) > 0 {
						bad++
						r.Bad(name+":debug-call:"+p.calleeName(ci.Common()), p.InstrPos(in), "this call can be made while %s is set and reaches %s: a call made in debug mode changes the cache (an entry is evicted or filled although nobody called CleanCache)", ca.debugField, strings.Join(hits, ", "))
					}
				}
			}
		}
		if bad == 0 {
			if nCalls == 0 {
				r.Unk(name+":debug-calls", p.Pos(e.entry.Pos()), "no call of the entry point is reachable with %s set: the debug bypass was not recognised", ca.debugField)
			} else {
				r.OK(name+":debug-calls", p.Pos(e.entry.Pos()), "%d call(s) reachable with %s set, none reaches a writer of the cache (%d writers)", nCalls, ca.debugField, len(writers))
			}
		}
	}
}

// ruleC20OneCache: the compiled templates the caching entry point hands out come from exactly two places: the load
// call (a fresh compile) and a lookup in the one cache map — the map that the lock, key, CleanCache and debug rules
// are about. A template remembered anywhere else (a "last hit" field, a second table, a package variable) is a cache
// that CleanCache does not clear and the mutex does not protect.
func ruleC20OneCache(p *Prog, a *Anchors, ca *cacheAnchors, r *Report) {
	r.Begin("R-C20-ONECACHE", "what the caching entry point returns is a fresh load or an entry of the one cache map: no other store hands out compiled templates", 2)
	entries := u7CacheEntries(p, a, ca)
	if len(entries) == 0 {
		r.Unk("entry", "-", "no exported method of TemplateSet both looks up and fills the cache")
		return
	}
	tplPtr := types.NewPointer(a.Template)
	for _, e := range entries {
		name := p.FuncName(e.entry)
		ri := -1
		res := e.entry.Signature.Results()
		for i := 0; i < res.Len(); i++ {
			if types.Identical(res.At(i).Type(), tplPtr) {
				ri = i
			}
		}
		if ri < 0 {
			r.Unk(name+":result", p.Pos(e.entry.Pos()), "no *Template result")
			continue
		}
		type src struct {
			kind, desc, pos string
		}
		var srcs []src
		seen := map[ssa.Value]bool{}
		fseen := map[*ssa.Function]bool{}
		var walkFn func(f *ssa.Function, idx int, d int)
		var walk func(v ssa.Value, d int)
		posOf := func(v ssa.Value) string {
			if in, ok := v.(ssa.Instruction); ok {
				return p.InstrPos(in)
			}
			return p.Pos(v.Pos())
		}
		walk = func(v ssa.Value, d int) {
			if v == nil || seen[v] {
				return
			}
			seen[v] = true
			if d > 12 {
				srcs = append(srcs, src{"other", "too deep: " + p.VN(v), posOf(v)})
				return
			}
			switch x := v.(type) {
			case *ssa.Const:
				if x.IsNil() {
					return
				}
				srcs = append(srcs, src{"other", "constant", posOf(v)})
			case *ssa.Phi:
				for _, ed := range x.Edges {
					walk(ed, d+1)
				}
			case *ssa.ChangeType:
				walk(x.X, d+1)
			case *ssa.Lookup:
				if loadsField(x.X, "TemplateSet", ca.cacheField) {
					srcs = append(srcs, src{"cache", "lookup in TemplateSet." + ca.cacheField, posOf(v)})
					return
				}
				srcs = append(srcs, src{"other", "lookup in another map (" + p.VN(x.X) + ")", posOf(v)})
			case *ssa.Extract:
				switch t := x.Tuple.(type) {
				case *ssa.Lookup:
					walk(t, d+1)
				case *ssa.Call:
					callee := t.Common().StaticCallee()
					if callee != nil && (callee == ca.fromFile || p.Reach(p.CG, []*ssa.Function{callee}, nil)[ca.fromFile]) && (e.helper == nil || callee != e.helper) && !u7LooksUpAndFills(p, callee, ca.cacheField) {
						srcs = append(srcs, src{"load", "result of " + p.FuncName(callee), posOf(v)})
						return
					}
					if callee != nil && callee.Blocks != nil && p.InPkg(callee) && !fseen[callee] {
						walkFn(callee, x.Index, d+1)
						return
					}
					if callee != nil && fseen[callee] {
						return
					}
					srcs = append(srcs, src{"other", "result of " + p.calleeName(t.Common()), posOf(v)})
				default:
					srcs = append(srcs, src{"other", p.VN(v), posOf(v)})
				}
			case *ssa.Call:
				callee := x.Common().StaticCallee()
				if callee != nil && callee.Blocks != nil && p.InPkg(callee) && !fseen[callee] {
					walkFn(callee, 0, d+1)
					return
				}
				srcs = append(srcs, src{"other", "result of " + p.calleeName(x.Common()), posOf(v)})
			case *ssa.UnOp:
				if cell, ok := x.X.(*ssa.Alloc); ok {
					n := 0
					for _, st := range allStoresTo(cell) {
						n++
						walk(st, d+1)
					}
					if n == 0 {
						return // zero value: nil
					}
					return
				}
				if base, tn, fld := fieldLoadBase(x); base != nil && tn != nil {
					srcs = append(srcs, src{"other", "the field " + tn.Obj().Name() + "." + fld, posOf(v)})
					return
				}
				if g, ok := x.X.(*ssa.Global); ok {
					srcs = append(srcs, src{"other", "the package variable " + g.Name(), posOf(v)})
					return
				}
				srcs = append(srcs, src{"other", p.VN(v), posOf(v)})
			case *ssa.TypeAssert:
				srcs = append(srcs, src{"other", "a value taken out of an interface (" + p.VN(x.X) + ")", posOf(v)})
			case *ssa.Parameter:
				srcs = append(srcs, src{"other", "the parameter " + x.Name(), posOf(v)})
			default:
				srcs = append(srcs, src{"other", p.VN(v), posOf(v)})
			}
		}
		walkFn = func(f *ssa.Function, idx int, d int) {
			fseen[f] = true
			for _, ret := range returnsOf(f) {
				if idx < len(ret.Results) {
					walk(ret.Results[idx], d)
				}
			}
		}
		walkFn(e.entry, ri, 0)
		nLoad, nCache, nOther := 0, 0, 0
		for _, s := range srcs {
			switch s.kind {
			case "load":
				nLoad++
			case "cache":
				nCache++
			default:
				nOther++
				r.Bad(name+":hands-out:"+s.desc, s.pos, "the caching entry point can return %s: a compiled template kept outside TemplateSet.%s is not dropped by CleanCache, not bypassed by Debug and not protected by %s", s.desc, ca.cacheField, ca.mutexField)
			}
		}
		if nOther == 0 {
			if nLoad == 0 || nCache == 0 {
				r.Unk(name+":hands-out", p.Pos(e.entry.Pos()), "sources of the result not recognised (loads %d, cache lookups %d)", nLoad, nCache)
			} else {
				r.OK(name+":hands-out", p.Pos(e.entry.Pos()), "result sources: %d load call(s), %d lookup(s) in TemplateSet.%s, nothing else", nLoad, nCache, ca.cacheField)
			}
		}
	}
	// no other field of the set is typed to keep compiled templates
	st := a.TemplateSet.Underlying().(*types.Struct)
	nf := 0
	for i := 0; i < st.NumFields(); i++ {
		f := st.Field(i)
		if f.Name() == ca.cacheField {
			continue
		}
		nf++
		if typeHolds(f.Type(), a.Template, map[types.Type]bool{}) {
			r.Bad("TemplateSet."+f.Name()+":holds-templates", p.Pos(f.Pos()), "the field %s of TemplateSet can keep compiled templates besides the cache map %s", f.Name(), ca.cacheField)
		}
	}
	r.OK("TemplateSet:fields", p.Pos(a.TemplateSet.Obj().Pos()), "%d other fields, none typed to hold a *Template", nf)
}

// allStoresTo: the values stored to a local cell, by the function itself or by a closure that captured the cell.
func allStoresTo(cell *ssa.Alloc) []ssa.Value {
	var out []ssa.Value
	var visit func(addr ssa.Value)
	visit = func(addr ssa.Value) {
		rs := addr.Referrers()
		if rs == nil {
			return
		}
		for _, u := range *rs {
			switch u := u.(type) {
			case *ssa.Store:
				if u.Addr == addr {
					out = append(out, u.Val)
				}
			case *ssa.MakeClosure:
				fn := u.Fn.(*ssa.Function)
				for i, b := range u.Bindings {
					if b == addr && i < len(fn.FreeVars) {
						visit(fn.FreeVars[i])
					}
				}
			}
		}
	}
	visit(cell)
	return out
}

// typeHolds: a value of type T contains (by value, pointer, slice, array, map, channel or struct field) a *target.
func typeHolds(T types.Type, target *types.Named, seen map[types.Type]bool) bool {
	if seen[T] {
		return false
	}
	seen[T] = true
	if n, ok := T.(*types.Named); ok && types.Identical(n, target) {
		return true
	}
	switch u := T.Underlying().(type) {
	case *types.Pointer:
		return typeHolds(u.Elem(), target, seen)
	case *types.Slice:
		return typeHolds(u.Elem(), target, seen)
	case *types.Array:
		return typeHolds(u.Elem(), target, seen)
	case *types.Chan:
		return typeHolds(u.Elem(), target, seen)
	case *types.Map:
		return typeHolds(u.Key(), target, seen) || typeHolds(u.Elem(), target, seen)
	case *types.Struct:
		if n, ok := T.(*types.Named); ok && n.Obj().Pkg() != nil && n.Obj().Pkg() != target.Obj().Pkg() {
			return false // a library type does not know ours (interfaces aside)
		}
		for i := 0; i < u.NumFields(); i++ {
			if typeHolds(u.Field(i).Type(), target, seen) {
				return true
			}
		}
	}
	return false
}
