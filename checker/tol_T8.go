package main

// Shapes of C17 that survive extract-helper refactorings: the per-rune writer of escapejs as a function of its own
// (buffer and rune as parameters), the tag-name validation loop of removetags as a function of its own.

import (
	"go/token"
	"go/types"
	"strings"

	"golang.org/x/tools/go/ssa"
)

// jsBufferWrite: x is a direct write into a bytes.Buffer / strings.Builder.
func jsBufferWrite(p *Prog, x ssa.Instruction) bool {
	wc, ok := x.(*ssa.Call)
	if !ok || wc.Common().StaticCallee() == nil {
		return false
	}
	n := p.extName(wc.Common().StaticCallee())
	return strings.HasPrefix(n, "(*bytes.Buffer).Write") || strings.HasPrefix(n, "(*strings.Builder).Write")
}

// jsIsWrite: x writes something into the buffer: directly, or it calls a package helper that is handed the buffer and
// writes on every path to each of its returns.
func jsIsWrite(p *Prog, x ssa.Instruction, depth int) bool {
	if jsBufferWrite(p, x) {
		return true
	}
	c, ok := x.(*ssa.Call)
	if !ok || depth >= 3 {
		return false
	}
	h := c.Common().StaticCallee()
	if h == nil || !p.InPkg(h) || h.Blocks == nil || !jsHandedBuffer(c.Common()) {
		return false
	}
	rets := returnsOf(h)
	if len(rets) == 0 {
		return false
	}
	for _, ret := range rets {
		if !MustPass(ret, func(y ssa.Instruction) bool { return jsIsWrite(p, y, depth+1) }) {
			return false
		}
	}
	return true
}

// jsIsBufferPtr: T is *bytes.Buffer or *strings.Builder.
func jsIsBufferPtr(T types.Type) bool {
	pt, ok := T.Underlying().(*types.Pointer)
	if !ok {
		return false
	}
	n, ok := pt.Elem().(*types.Named)
	if !ok || n.Obj().Pkg() == nil {
		return false
	}
	full := n.Obj().Pkg().Path() + "." + n.Obj().Name()
	return full == "bytes.Buffer" || full == "strings.Builder"
}

func jsHandedBuffer(c *ssa.CallCommon) bool {
	for _, a := range c.Args {
		if jsIsBufferPtr(a.Type()) {
			return true
		}
	}
	return false
}

// jsWriterUnit: the call hands the buffer (and possibly the rune just read) to a package function with a body: that
// function's sinks belong to the filter. runeParam is the callee's parameter that receives `rune` (nil if the rune is
// not passed).
func jsWriterUnit(p *Prog, c *ssa.Call, rune ssa.Value) (h *ssa.Function, runeParam *ssa.Parameter, ok bool) {
	h = c.Common().StaticCallee()
	if h == nil || !p.InPkg(h) || h.Blocks == nil || c.Common().IsInvoke() {
		return nil, nil, false
	}
	args := c.Common().Args
	if len(args) != len(h.Params) {
		return nil, nil, false
	}
	for i, a := range args {
		if rune != nil && a == rune {
			if runeParam != nil {
				return nil, nil, false // passed twice: not the shape of a per-rune writer
			}
			runeParam = h.Params[i]
		}
	}
	if !jsHandedBuffer(c.Common()) {
		return nil, nil, false
	}
	return h, runeParam, true
}

// jsDecodedRune: v is the rune just read: result #0 of utf8.DecodeRune*(…) or the value of a range over a string.
func jsDecodedRune(p *Prog, v ssa.Value) bool {
	ex, ok := v.(*ssa.Extract)
	if !ok {
		return false
	}
	switch t := ex.Tuple.(type) {
	case *ssa.Call:
		cal := t.Common().StaticCallee()
		return ex.Index == 0 && cal != nil && strings.HasPrefix(p.extName(cal), "unicode/utf8.DecodeRune")
	case *ssa.Next:
		return ex.Index == 2 && t.IsString
	}
	return false
}

// jsParamWrittenRaw: parameter #i of h is written raw (WriteRune) by h or by a helper h passes it on to.
func jsParamWrittenRaw(p *Prog, h *ssa.Function, i int, depth int) bool {
	if depth >= 3 || h.Blocks == nil || i >= len(h.Params) {
		return false
	}
	pa := h.Params[i]
	for _, b := range h.Blocks {
		for _, in := range b.Instrs {
			c, ok := in.(*ssa.Call)
			if !ok || c.Common().StaticCallee() == nil {
				continue
			}
			n := p.extName(c.Common().StaticCallee())
			if n == "(*bytes.Buffer).WriteRune" || n == "(*strings.Builder).WriteRune" {
				if c.Common().Args[1] == ssa.Value(pa) {
					return true
				}
				continue
			}
			if h2, rp, isUnit := jsWriterUnit(p, c, pa); isUnit && rp != nil && h2 != h {
				if jsParamWrittenRaw(p, h2, indexOfParam(h2, rp), depth+1) {
					return true
				}
			}
		}
	}
	return false
}

// jsRawRune: the value escapejs treats as "the rune just read": the argument of its raw WriteRune; when the per-rune
// writing lives in a helper, the decoded rune handed to the helper parameter that is written raw there.
func jsRawRune(p *Prog, f *ssa.Function) ssa.Value {
	var rawRune ssa.Value
	for _, b := range f.Blocks {
		for _, in := range b.Instrs {
			if c, ok := in.(*ssa.Call); ok && c.Common().StaticCallee() != nil {
				n := p.extName(c.Common().StaticCallee())
				if n == "(*bytes.Buffer).WriteRune" || n == "(*strings.Builder).WriteRune" {
					rawRune = c.Common().Args[1]
				}
			}
		}
	}
	if rawRune != nil {
		return rawRune
	}
	for _, b := range f.Blocks {
		for _, in := range b.Instrs {
			c, ok := in.(*ssa.Call)
			if !ok {
				continue
			}
			for i, a := range c.Common().Args {
				if !jsDecodedRune(p, a) {
					continue
				}
				if h, rp, isUnit := jsWriterUnit(p, c, a); isUnit && rp != nil && h != f && jsParamWrittenRaw(p, h, i, 0) {
					rawRune = a
				}
			}
		}
	}
	return rawRune
}

// tagnamePatterns: the constant patterns (package-level regexp.MustCompile) removetags validates tag names with:
// MatchString calls in the filter function itself; when it has none, MatchString calls in the package functions of its
// cluster whose subject is (an element of) one of that function's parameters — the validation loop moved into a helper
// that receives the names.
func tagnamePatterns(p *Prog, f *ssa.Function) []string {
	var pats []string
	add := func(s string) {
		for _, x := range pats {
			if x == s {
				return
			}
		}
		pats = append(pats, s)
	}
	collect := func(fn *ssa.Function, subjectFromParam bool) {
		for _, b := range fn.Blocks {
			for _, in := range b.Instrs {
				c, ok := in.(*ssa.Call)
				if !ok || c.Common().StaticCallee() == nil || p.extName(c.Common().StaticCallee()) != "(*regexp.Regexp).MatchString" {
					continue
				}
				if subjectFromParam && !rootsAtParameter(c.Common().Args[1], 0) {
					continue
				}
				if u, ok := c.Common().Args[0].(*ssa.UnOp); ok {
					if g, ok := u.X.(*ssa.Global); ok {
						if ic := globalInitCall(p, g); ic != nil && len(ic.Common().Args) > 0 {
							if s, isC := constString(ic.Common().Args[0]); isC && s != "" {
								add(s)
							}
						}
					}
				}
			}
		}
	}
	collect(f, false)
	if len(pats) > 0 {
		return pats
	}
	for _, fn := range clusterOf(p, f, 2) {
		if fn == f || fn.Parent() != nil && topLevel(fn) == f {
			if fn != f {
				collect(fn, false) // a closure of the filter: same scope
			}
			continue
		}
		collect(fn, true)
	}
	return pats
}

// rootsAtParameter: v is a parameter of its function, or an element / sub-slice / range item / field of one.
func rootsAtParameter(v ssa.Value, depth int) bool {
	if depth > 8 {
		return false
	}
	switch x := v.(type) {
	case *ssa.Parameter:
		return true
	case *ssa.UnOp:
		return rootsAtParameter(x.X, depth+1)
	case *ssa.IndexAddr:
		return rootsAtParameter(x.X, depth+1)
	case *ssa.Index:
		return rootsAtParameter(x.X, depth+1)
	case *ssa.Slice:
		return rootsAtParameter(x.X, depth+1)
	case *ssa.Extract:
		return rootsAtParameter(x.Tuple, depth+1)
	case *ssa.Next:
		return rootsAtParameter(x.Iter, depth+1)
	case *ssa.Range:
		return rootsAtParameter(x.X, depth+1)
	case *ssa.Lookup:
		return rootsAtParameter(x.X, depth+1)
	case *ssa.FieldAddr:
		return rootsAtParameter(x.X, depth+1)
	case *ssa.Field:
		return rootsAtParameter(x.X, depth+1)
	case *ssa.ChangeType:
		return rootsAtParameter(x.X, depth+1)
	case *ssa.Phi:
		for _, e := range x.Edges {
			if !rootsAtParameter(e, depth+1) {
				return false
			}
		}
		return len(x.Edges) > 0
	case *ssa.Call:
		// the pieces of a parameter: strings.Split / Fields / TrimSpace of it
		if callee := x.Common().StaticCallee(); callee != nil && callee.Pkg != nil && callee.Pkg.Pkg.Path() == "strings" && len(x.Common().Args) > 0 {
			switch callee.Name() {
			case "Split", "SplitN", "Fields", "TrimSpace", "Trim":
				return rootsAtParameter(x.Common().Args[0], depth+1)
			}
		}
	}
	return false
}

func (s runeSet) intersect(o runeSet) runeSet {
	var out runeSet
	for _, x := range o {
		out = append(out, s.and(x.lo, x.hi)...)
	}
	return out.norm()
}

// runeSplit: of the values `base` of c with which a block is reached, those for which the boolean cond is true and
// those for which it is false there. Comparisons of c with constants split; a negation swaps; a boolean phi (the value
// of a short-circuit expression, as in `case a || b:` of a tagless switch or `ok := a && b`) is decided per incoming
// edge of its block from the values c has on that edge (inside the region dominated by start, where c is this value);
// anything else splits nothing.
func runeSplit(c ssa.Value, cond ssa.Value, base runeSet, start *ssa.BasicBlock, edge map[[2]*ssa.BasicBlock]runeSet, depth int) (t, f runeSet) {
	switch x := cond.(type) {
	case *ssa.Const:
		if bv, isB := constBool(x); isB {
			if bv {
				return base, runeSet{}
			}
			return runeSet{}, base
		}
	case *ssa.UnOp:
		if x.Op == token.NOT {
			t, f = runeSplit(c, x.X, base, start, edge, depth+1)
			return f, t
		}
	case *ssa.BinOp:
		if x.X == c {
			if k, isC := constIntOrRune(x.Y); isC {
				return restrict(base, x.Op, k, true), restrict(base, x.Op, k, false)
			}
		} else if x.Y == c {
			if k, isC := constIntOrRune(x.X); isC {
				return restrict(base, flipOp(x.Op), k, true), restrict(base, flipOp(x.Op), k, false)
			}
		}
	case *ssa.Phi:
		if depth > 6 {
			break
		}
		pb := x.Block()
		if pb == start || !start.Dominates(pb) {
			break // merged before c had this value: nothing known about the edges
		}
		var ut, uf runeSet
		for i, e := range x.Edges {
			in, seen := edge[[2]*ssa.BasicBlock{pb.Preds[i], pb}]
			if !seen {
				continue // edge not (yet) reached
			}
			et, ef := runeSplit(c, e, in, start, edge, depth+1)
			ut, uf = ut.union(et), uf.union(ef)
		}
		return ut.intersect(base), uf.intersect(base)
	}
	return base, base
}
