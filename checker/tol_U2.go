package main

// tol_U2.go: engine K — facts about the reflect.Value HELD by a *Value (its `val` field) and their transport
// (a) from a type switch / comma-ok assertion on holder.Interface() to the kind of holder.val,
// (b) from holder.val to holder.getResolvedValue() when holder.val is known not to be a pointer (then the resolved
//
//	value IS holder.val, so a key-type comparison made on holder.val holds for the resolved value handed to MapIndex),
//
// (c) from a call site into an extracted helper: what the caller has established about the val field / the resolved
//
//	value of a *Value argument and the key-assignability facts between arguments hold for the helper's parameters.

import (
	"go/token"
	"go/types"

	"golang.org/x/tools/go/ssa"
)

// valKey: the structural key of the load of <holder>.val
func (e *kengine) valKey(holder ssa.Value) string { return "*(&(" + e.key(holder) + ").val)" }

// resolvedKey: the structural key of <holder>.getResolvedValue()
func (e *kengine) resolvedKey(holder ssa.Value) string { return resolvedPrefix + e.key(holder) + ")" }

// isLoadOfRecvVal: v is the load of the `val` field of f's receiver.
func isLoadOfRecvVal(f *ssa.Function, v ssa.Value) bool {
	u, ok := v.(*ssa.UnOp)
	if !ok || u.Op != token.MUL {
		return false
	}
	base, n, fld := fieldLoadBase(u)
	return n != nil && n.Obj().Name() == "Value" && fld == "val" && len(f.Params) > 0 && base == ssa.Value(f.Params[0])
}

var valAccessorMemo = map[*ssa.Function]bool{}

// valInterfaceAccessor: callee is a method of *Value without further arguments all of whose returns hand back either
// the nil interface or recv.val.Interface() — (*Value).Interface. The dynamic type of a non-nil result is then the type
// of recv.val.
func valInterfaceAccessor(p *Prog, callee *ssa.Function) bool {
	if callee == nil || callee.Blocks == nil || !p.InPkg(callee) || callee.Signature.Recv() == nil || len(callee.Params) != 1 {
		return false
	}
	if r, ok := valAccessorMemo[callee]; ok {
		return r
	}
	ok := typeName(callee.Params[0].Type()) == "*Value" && callee.Signature.Results().Len() == 1
	rets := returnsOf(callee)
	if len(rets) == 0 {
		ok = false
	}
	var okv func(v ssa.Value, d int) bool
	okv = func(v ssa.Value, d int) bool {
		if d > 3 {
			return false
		}
		switch y := v.(type) {
		case *ssa.Const:
			return y.Value == nil // nil interface
		case *ssa.Phi:
			for _, ed := range y.Edges {
				if !okv(ed, d+1) {
					return false
				}
			}
			return true
		case *ssa.Call:
			cc := y.Common().StaticCallee()
			return cc != nil && p.extName(cc) == "(reflect.Value).Interface" && isLoadOfRecvVal(callee, y.Common().Args[0])
		}
		return false
	}
	for _, ret := range rets {
		if !ok {
			break
		}
		if len(ret.Results) != 1 || !okv(res(ret, 0), 0) {
			ok = false
		}
	}
	valAccessorMemo[callee] = ok
	return ok
}

var resolvedIsValMemo = map[*ssa.Function]bool{}

// resolvedIsValUnlessPointer: callee ((*Value).getResolvedValue) hands back recv.val itself on every return that is not
// reached only under Kind(recv.val) == Ptr: for a holder whose val is not a pointer the resolved value IS holder.val.
func resolvedIsValUnlessPointer(p *Prog, callee *ssa.Function) bool {
	if callee == nil || callee.Blocks == nil || !p.InPkg(callee) || callee.Signature.Recv() == nil || len(callee.Params) != 1 {
		return false
	}
	if r, ok := resolvedIsValMemo[callee]; ok {
		return r
	}
	ok := typeName(callee.Params[0].Type()) == "*Value" && callee.Signature.Results().Len() == 1 && isReflectValue(callee.Signature.Results().At(0).Type())
	rets := returnsOf(callee)
	if len(rets) == 0 {
		ok = false
	}
	for _, ret := range rets {
		if !ok {
			break
		}
		if len(ret.Results) != 1 {
			ok = false
			break
		}
		if isLoadOfRecvVal(callee, res(ret, 0)) {
			continue
		}
		// anything else only for a pointer
		underPtr := Guarded(ret, func(c ssa.Value, pol bool) bool {
			bo, isB := c.(*ssa.BinOp)
			if !isB || (bo.Op != token.EQL && bo.Op != token.NEQ) || (bo.Op == token.EQL) != pol {
				return false
			}
			for _, pair := range [][2]ssa.Value{{bo.X, bo.Y}, {bo.Y, bo.X}} {
				kc, isCall := pair[0].(*ssa.Call)
				if !isCall || kc.Common().StaticCallee() == nil || p.extName(kc.Common().StaticCallee()) != "(reflect.Value).Kind" {
					continue
				}
				if k, isK := kindConst(pair[1]); isK && k == kPointer && isLoadOfRecvVal(callee, kc.Common().Args[0]) {
					return true
				}
			}
			return false
		})
		if !underPtr {
			ok = false
		}
	}
	resolvedIsValMemo[callee] = ok
	return ok
}

// refineTypeAssert: `_, ok := X.(T)` (also each case of a type switch) with a concrete T succeeded, where X is
// holder.Interface() or rv.Interface(): the held reflect.Value is valid, can be interfaced (it just was) and has the
// kind of T.
func (e *kengine) refineTypeAssert(s *kstate, ex *ssa.Extract, pol bool) {
	ta, ok := ex.Tuple.(*ssa.TypeAssert)
	if !ok || !ta.CommaOk || ex.Index != 1 || !pol {
		return
	}
	if types.IsInterface(ta.AssertedType) {
		return
	}
	kk, ok := kindOfType(ta.AssertedType)
	if !ok {
		return
	}
	ic, ok := ta.X.(*ssa.Call)
	if !ok || ic.Common().IsInvoke() || ic.Common().StaticCallee() == nil || len(ic.Common().Args) != 1 {
		return
	}
	callee := ic.Common().StaticCallee()
	arg := ic.Common().Args[0]
	switch {
	case e.p.extName(callee) == "(reflect.Value).Interface":
		f := e.get(s, arg)
		f.kinds &= ks(kk)
		f.ci = ciYes
		e.set(s, arg, f)
	case valInterfaceAccessor(e.p, callee):
		f := e.valField(s, arg)
		f.kinds &= ks(kk)
		f.ci = ciYes
		s.vals[e.valKey(arg)] = f
	}
}

// keyAssignable: the type of key k was shown assignable to (equal to) the key type of map m — for k itself, or, when k
// is holder.getResolvedValue() (holder.val) of a holder whose val is known not to be a pointer, for holder.val
// (holder.getResolvedValue()): both denote the same reflect.Value then.
func (e *kengine) keyAssignable(st *kstate, m, k ssa.Value) bool {
	mk := e.key(m)
	if st.assign[mk+"|"+e.key(k)] {
		return true
	}
	switch x := k.(type) {
	case *ssa.Call:
		callee := x.Common().StaticCallee()
		if callee == nil || x.Common().IsInvoke() || len(x.Common().Args) != 1 || e.p.extName(callee) != "(*Value).getResolvedValue" {
			return false
		}
		holder := x.Common().Args[0]
		if !resolvedIsValUnlessPointer(e.p, callee) || e.valField(st, holder).kinds&ks(kPointer) != 0 {
			return false
		}
		return st.assign[mk+"|"+e.valKey(holder)]
	case *ssa.UnOp:
		if x.Op != token.MUL {
			return false
		}
		holder, n, fld := fieldLoadBase(x)
		if n == nil || n.Obj().Name() != "Value" || fld != "val" || holder == nil {
			return false
		}
		if e.valField(st, holder).kinds&ks(kPointer) != 0 {
			return false
		}
		rc := e.p.resolvedValueFunc()
		return rc != nil && resolvedIsValUnlessPointer(e.p, rc) && st.assign[mk+"|"+e.resolvedKey(holder)]
	}
	return false
}

// resolvedValueFunc: (*Value).getResolvedValue of the analysed package.
func (p *Prog) resolvedValueFunc() *ssa.Function {
	for _, f := range p.Funcs {
		if p.InPkg(f) && p.extName(f) == "(*Value).getResolvedValue" {
			return f
		}
	}
	return nil
}

// argForms: the structural keys under which facts about argument arg (caller ce) / parameter pa (callee e) are kept:
// the reflect.Value itself, or for a *Value its val field and its resolved value. Pairs (caller key, callee key).
func argForms(ce *kengine, arg ssa.Value, e *kengine, pa *ssa.Parameter) [][2]string {
	switch {
	case isReflectValue(pa.Type()):
		return [][2]string{{ce.key(arg), e.key(pa)}}
	case typeName(pa.Type()) == "*Value":
		return [][2]string{{ce.valKey(arg), e.valKey(pa)}, {ce.resolvedKey(arg), e.resolvedKey(pa)}}
	}
	return nil
}

// liftArgumentFacts: the facts state cst of the caller (engine ce) holds at a call of e.f with arguments args, expressed
// over e.f's parameters: kinds/interfaceability of reflect.Value arguments, of the val field and the resolved value of
// *Value arguments, and the key-assignability facts between any two of them.
func liftArgumentFacts(ce *kengine, cst *kstate, e *kengine, args []ssa.Value) *kstate {
	st := newKState()
	f := e.f
	for i, pa := range f.Params {
		if i >= len(args) {
			break
		}
		if isReflectValue(pa.Type()) {
			st.vals[e.key(pa)] = ce.get(cst, args[i])
			continue
		}
		// a *Value handed on (receiver of an extracted method, the key holder of an extracted lookup): what the caller
		// established about its val field / its resolved reflect value holds for the callee's view of it
		for _, form := range argForms(ce, args[i], e, pa) {
			if fct, has := cst.vals[form[0]]; has {
				st.vals[form[1]] = fct
			}
		}
	}
	if len(cst.assign) > 0 {
		for i, pm := range f.Params {
			if i >= len(args) {
				break
			}
			for _, mf := range argForms(ce, args[i], e, pm) {
				for j, pk := range f.Params {
					if j >= len(args) || j == i {
						continue
					}
					for _, kf := range argForms(ce, args[j], e, pk) {
						if cst.assign[mf[0]+"|"+kf[0]] {
							st.assign[mf[1]+"|"+kf[1]] = true
						}
					}
				}
			}
		}
	}
	return st
}

// joinInitialK: the facts that hold at every call site: a fact only one side has is dropped.
func joinInitialK(a, b *kstate) *kstate {
	n := newKState()
	for k, o := range a.vals {
		v, has := b.vals[k]
		if !has {
			continue
		}
		j := kfact{kinds: o.kinds | v.kinds, ci: o.ci, addr: o.addr && v.addr}
		if v.ci < j.ci {
			j.ci = v.ci
		}
		n.vals[k] = j
	}
	for k := range a.assign {
		if b.assign[k] {
			n.assign[k] = true
		}
	}
	return n
}
