package main

// R-C01-RECURSION: "never kills the process (e.g. by unbounded recursion)". The compile side of the engine is a set of
// mutually recursive functions (recursive-descent parser, tag parsers that parse bodies, tags that load other templates).
// How deep they recurse is decided by the SOURCE: brackets, nested tags, right-associative operator chains, templates
// that refer to each other. Every cycle of that call graph has to pass a depth step — a counter compared with a
// constant whose refusing edge returns an error — or a source of a few hundred kilobytes ends the process with a stack
// overflow. Decided on the call graph (static and dynamic edges): after removing every call that is reached only behind
// such a step in its own function, no cycle may remain among the functions reachable from the compile entry points.

import (
	"go/token"
	"go/types"
	"sort"
	"strings"

	"golang.org/x/tools/go/ssa"
)

// isCounter: x, compared with a constant in f, counts levels: a load of an integer field that f itself adds to (p.depth
// += n; p.template.level++), or an integer parameter of an unexported function for which every call site passes a
// constant or `something + k` with k > 0 (fromFile(name, depth+1)). `arguments.Remaining() > 0` or `level > 1` in a
// function that does not count are ordinary tests, not depth steps.
func isCounter(p *Prog, f *ssa.Function, x ssa.Value) bool {
	if !isIntType(x.Type()) {
		return false
	}
	fieldOf := func(v ssa.Value) (*ssa.FieldAddr, bool) {
		if u, ok := v.(*ssa.UnOp); ok && u.Op == token.MUL {
			fa, ok := u.X.(*ssa.FieldAddr)
			return fa, ok
		}
		return nil, false
	}
	sameField := func(a, b *ssa.FieldAddr) bool {
		return a.Field == b.Field && types.Identical(a.X.Type(), b.X.Type())
	}
	switch v := x.(type) {
	case *ssa.Parameter:
		acts := paramActuals(p, v)
		if len(acts) == 0 {
			return false
		}
		for _, act := range acts {
			if _, isK := constInt(act); isK {
				continue
			}
			bo, ok := act.(*ssa.BinOp)
			if !ok || bo.Op != token.ADD {
				return false
			}
			if k, isK := constInt(bo.Y); !isK || k <= 0 {
				return false
			}
		}
		return true
	case *ssa.BinOp:
		// the sum that is also stored: `p.depth + n` compared directly
		if v.Op == token.ADD {
			if fa, ok := fieldOf(v.X); ok {
				for _, ref := range *v.Referrers() {
					if st, ok := ref.(*ssa.Store); ok && st.Val == ssa.Value(v) {
						if fb, ok := st.Addr.(*ssa.FieldAddr); ok && sameField(fa, fb) {
							return true
						}
					}
				}
			}
		}
		return false
	case *ssa.UnOp:
		fa, ok := fieldOf(v)
		if !ok {
			return false
		}
		// f adds to that field before the load
		return MustPass(v, func(in ssa.Instruction) bool {
			st, ok := in.(*ssa.Store)
			if !ok {
				return false
			}
			fb, ok := st.Addr.(*ssa.FieldAddr)
			if !ok || !sameField(fa, fb) {
				return false
			}
			add, ok := st.Val.(*ssa.BinOp)
			if !ok || add.Op != token.ADD {
				return false
			}
			fc, ok := fieldOf(add.X)
			return ok && sameField(fa, fc)
		})
	}
	return false
}

// refusingCompare: cond is `counter > K` / `counter >= K` in f and the edge on which it holds returns a non-nil error.
func refusingCompare(p *Prog, f *ssa.Function, cond ssa.Value) bool {
	bo, ok := cond.(*ssa.BinOp)
	if !ok || (bo.Op != token.GTR && bo.Op != token.GEQ) {
		return false
	}
	if _, isK := constInt(bo.Y); !isK || !isCounter(p, f, bo.X) {
		return false
	}
	for _, b := range f.Blocks {
		iff, isIf := b.Instrs[len(b.Instrs)-1].(*ssa.If)
		if !isIf {
			continue
		}
		if cc, pp := normCond(iff.Cond, true); cc == cond {
			idx := 0
			if !pp {
				idx = 1
			}
			return errorReturnsOnly(f, b.Succs[idx])
		}
	}
	return false
}

// depthStepFunc: f counts a level and refuses beyond a constant with a non-nil error (a helper like (*Parser).deeper).
func depthStepFunc(p *Prog, f *ssa.Function) bool {
	if f == nil || f.Blocks == nil || !p.InPkg(f) || errorResultIndex(f) < 0 {
		return false
	}
	for _, b := range f.Blocks {
		iff, ok := b.Instrs[len(b.Instrs)-1].(*ssa.If)
		if !ok {
			continue
		}
		if c, _ := normCond(iff.Cond, true); refusingCompare(p, f, c) {
			return true
		}
	}
	return false
}

// behindDepthStep: the call c is reached only after a depth step in its own function: on the nil edge of the result of
// a depthStepFunc, or on the accepting edge of a refusing comparison of a counter with a constant.
func behindDepthStep(p *Prog, c ssa.Instruction) bool {
	f := c.Parent()
	return Guarded(c, func(cond ssa.Value, pol bool) bool {
		bo, ok := cond.(*ssa.BinOp)
		if !ok {
			return false
		}
		if bo.Op == token.EQL || bo.Op == token.NEQ {
			// err == nil (pol true) / err != nil (pol false) on the result of a depth-step helper
			if (bo.Op == token.EQL) != pol {
				return false
			}
			for _, side := range []ssa.Value{bo.X, bo.Y} {
				v := side
				if ex, ok := v.(*ssa.Extract); ok {
					v = ex.Tuple
				}
				if cc, ok := v.(*ssa.Call); ok && cc.Common().StaticCallee() != nil && depthStepFunc(p, cc.Common().StaticCallee()) {
					return true
				}
			}
			return false
		}
		return !pol && refusingCompare(p, f, cond)
	})
}

func ruleC01Recursion(p *Prog, a *Anchors, r *Report) {
	r.Begin("R-C01-RECURSION", "every cycle of the compile-time call graph (parser functions, tag parsers, template loading) passes a depth step — a counter compared with a constant, refusing with an error: the nesting a source can ask for is bounded", 2)
	reach := a.CompileReach()
	// graph over reachable package functions, edges = calls that are NOT behind a depth step
	type edge struct {
		to   *ssa.Function
		site ssa.Instruction
	}
	adj := map[*ssa.Function][]edge{}
	var nodes []*ssa.Function
	nGuarded := 0
	stepSeen := map[string]bool{}
	full := map[*ssa.Function][]*ssa.Function{}
	var removed []struct {
		from *ssa.Function
		e    edge
	}
	// the functions that take part in turning a source into a compiled template: methods of the parser and the lexer,
	// the registered tag parsers, and the functions that load and construct templates. (The recursion of Evaluate,
	// Execute, FilterApplied … follows the compiled tree, whose depth is what the parse-time bound bounds; macro calls
	// and nested executions have their own rules.)
	tagParser := map[*ssa.Function]bool{}
	for _, tp := range a.TagParsers {
		tagParser[tp] = true
	}
	parseSide := func(f *ssa.Function) bool {
		top := topLevel(f)
		if tagParser[top] || top == a.NewTemplate || a.FileLoaders[top] {
			return true
		}
		if recv := top.Signature.Recv(); recv != nil {
			if n := structOf(recv.Type()); n != nil {
				switch n.Obj().Name() {
				case "Parser", "lexer":
					return true
				case "Template", "TemplateSet":
					// construction and loading, not execution
					for i := 0; i < top.Signature.Params().Len(); i++ {
						if types.Identical(top.Signature.Params().At(i).Type(), a.Context) {
							return false
						}
					}
					return true
				}
			}
			return false
		}
		return strings.HasPrefix(top.Name(), "newTemplate") || top.Name() == "lex"
	}
	for f := range reach {
		if !p.InPkg(f) || f.Blocks == nil || !parseSide(f) {
			continue
		}
		nodes = append(nodes, f)
		node := p.CG.Nodes[f]
		if node == nil {
			continue
		}
		for _, e := range node.Out {
			g := e.Callee.Func
			if !p.InPkg(g) || g.Blocks == nil || !reach[g] || !parseSide(g) {
				continue
			}
			site, ok := e.Site.(ssa.Instruction)
			if !ok {
				continue
			}
			full[f] = append(full[f], g)
			if behindDepthStep(p, site) {
				nGuarded++
				removed = append(removed, struct {
					from *ssa.Function
					e    edge
				}{f, edge{g, site}})
				continue
			}
			adj[f] = append(adj[f], edge{g, site})
		}
	}
	sortFuncs(p, nodes)
	// one obligation per removed call that closes a cycle (its callee reaches its caller in the full graph)
	reaches := func(from, to *ssa.Function) bool {
		seen := map[*ssa.Function]bool{from: true}
		work := []*ssa.Function{from}
		for len(work) > 0 {
			x := work[len(work)-1]
			work = work[:len(work)-1]
			if x == to {
				return true
			}
			for _, y := range full[x] {
				if !seen[y] {
					seen[y] = true
					work = append(work, y)
				}
			}
		}
		return false
	}
	for _, rm := range removed {
		k := p.FuncName(rm.from) + "→" + p.FuncName(rm.e.to)
		if stepSeen[k] || !reaches(rm.e.to, rm.from) {
			continue
		}
		stepSeen[k] = true
		r.OK("depth-step "+k, p.InstrPos(rm.e.site), "this call, which closes a cycle of the compile-time call graph, is reached only behind a depth step (a counter compared with a constant whose refusing edge returns an error)")
	}
	// Tarjan SCC
	index, low := map[*ssa.Function]int{}, map[*ssa.Function]int{}
	onStack := map[*ssa.Function]bool{}
	var stack []*ssa.Function
	var sccs [][]*ssa.Function
	n := 0
	var strong func(v *ssa.Function)
	strong = func(v *ssa.Function) {
		n++
		index[v], low[v] = n, n
		stack = append(stack, v)
		onStack[v] = true
		for _, e := range adj[v] {
			w := e.to
			if index[w] == 0 {
				strong(w)
				if low[w] < low[v] {
					low[v] = low[w]
				}
			} else if onStack[w] && index[w] < low[v] {
				low[v] = index[w]
			}
		}
		if low[v] == index[v] {
			var comp []*ssa.Function
			for {
				w := stack[len(stack)-1]
				stack = stack[:len(stack)-1]
				onStack[w] = false
				comp = append(comp, w)
				if w == v {
					break
				}
			}
			sccs = append(sccs, comp)
		}
	}
	for _, v := range nodes {
		if index[v] == 0 {
			strong(v)
		}
	}
	bad := 0
	for _, comp := range sccs {
		self := false
		if len(comp) == 1 {
			for _, e := range adj[comp[0]] {
				if e.to == comp[0] {
					self = true
				}
			}
			if !self {
				continue
			}
		}
		// a cycle without a depth step
		sortFuncs(p, comp)
		var names []string
		inComp := map[*ssa.Function]bool{}
		for _, f := range comp {
			inComp[f] = true
			names = append(names, p.FuncName(f))
		}
		// one unguarded call of the cycle, for the report
		pos := "-"
		for _, f := range comp {
			for _, e := range adj[f] {
				if inComp[e.to] && pos == "-" {
					pos = p.InstrPos(e.site)
				}
			}
		}
		if len(names) > 8 {
			names = append(names[:8], "…")
		}
		bad++
		r.Bad("cycle "+names[0], pos, "these functions call each other in a cycle that passes no depth step: %s — a source that nests this deeply (brackets, operator chains, tags, templates) recurses until the stack is exhausted, which ends the process", strings.Join(names, " → "))
	}
	if bad == 0 {
		r.OK("compile-graph", "-", "%d functions reachable from the compile entries; after removing %d calls that stand behind a depth step no cycle remains", len(nodes), nGuarded)
	}
	if nGuarded == 0 {
		r.Bad("depth-steps", "-", "no call of the compile-time call graph stands behind a depth step at all")
	}
	_ = sort.Strings
}
